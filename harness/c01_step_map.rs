//@ include-into src/structures/paging/mapper/mapped_page_table.rs
//
// C01 / C02 / C09 / C11 step harnesses for `map_to_with_table_flags` (4 KiB, 2 MiB, 1 GiB) of
// MappedPageTable<P>, P = the 7-table pool of c01_pool.rs (an arbitrary injective
// frame-to-pointer mapping; any frame outside the pool is the null pointer).
//
// ONE call from an ARBITRARY well-formed pre-state of the given shape; all histories follow by
// induction over steps, within the bounds stated on every directive line. Symbolic: every word on
// the target path (within its shape), the 7 pool frame addresses, the frame to map, leaf flags
// (containing PRESENT), parent flags (containing PRESENT, not HUGE_PAGE), the allocator schedule
// (each of up to 3 requests succeeds with a garbage-filled pool frame or fails), the neighbour
// words, an address inside the page, a probe address anywhere, and the (table, slot) pair of the
// frame check. The page-table index tuple is concrete per harness.
//
// Shapes (what the target path looks like before the call):
//   p4_absent / p3_absent / p2_absent / p1_absent   tables exist down to that level, entry is 0
//   p3_huge / p2_huge                               that entry is a 1 GiB / 2 MiB leaf
//   p1_leaf                                         the P1 entry is present
//   p2_table / p3_table                             (huge operations) the leaf slot points to a table
// The harness stubs at the end are uniform; quick tier = one tuple for the informative shapes,
// `tier=thorough` = every shape x the tuples LO, HI, MID, UP.

#[cfg(kani)]
mod verif_c01_step_map {
    use super::verif_c01_pool::*;
    use super::*;

    const OK: u8 = M_OK;
    const ERR_ALLOC: u8 = M_ERR_ALLOC;
    const ERR_HUGE: u8 = M_ERR_HUGE;
    const ERR_ALREADY: u8 = M_ERR_ALREADY;
    // the model of the documented behaviour (model_map_to, relax_for_error) is in c01_pool.rs,
    // shared with the RecursivePageTable harnesses

    macro_rules! ob {
        ($prop:literal, $sz:literal, $shape:literal, $clause:literal) => {
            concat!($prop, ".map_to_", $sz, ".shape_", $shape, ".", $clause)
        };
    }

    /// The step. `$sz` and `$shape` are the name parts of the obligations.
    macro_rules! map_to_step {
        ($S:ty, $sz:literal, $shape:literal, $SH:expr, $ix:expr) => {{
            let ix: Idx = $ix;
            let sh: Shape = $SH;
            mk_pool!(pool);
            let pre = build_path(&pool, &ix, sh);
            add_background(&pool, &ix);
            add_garbage(&pool, &ix);
            let page: Page<$S> = page_of::<$S>(&ix);
            let frame: PhysFrame<$S> = any_frame::<$S>();
            let flags = any_leaf_flags();
            let pf = any_parent_flags();
            let mut alloc = any_sched(&pool);
            let sched = alloc.ok;
            // probes: one address inside the target page, one anywhere
            let (inside, jx) = any_inside::<$S>(&ix);
            let probe = any_canonical();
            let probe_in_page = probe & !(<$S as Sz>::BYTES - 1) == page.start_address().as_u64();
            let w_in_pre = hw_walk_ix(&pool, &jx, inside);
            let w_pr_pre = hw_walk(&pool, probe);
            kani::assume(w_in_pre.kind != MALFORMED && w_pr_pre.kind != MALFORMED);
            let (fk, fs, f_pre) = any_slot(&pool);

            let mut mapper = unsafe { MappedPageTable::new(&mut *pool.p[0], pool) };
            let res = unsafe { Mapper::<$S>::map_to_with_table_flags(&mut mapper, page, frame, flags, pf, &mut alloc) };

            let leaf_word = frame.start_address().as_u64() | flags.bits() | <$S as Sz>::LEAF_EXTRA;
            let mut m = model_map_to(&pool, &ix, sh, &pre, <$S as Sz>::L, leaf_word, pf.bits(), 0, &sched);
            let w_in = hw_walk_ix(&pool, &jx, inside);
            let w_pr = hw_walk(&pool, probe);
            let f_post = pool.rd(fk, fs);

            // ---- every clause is evaluated first, then each is checked on its own path (each!)
            let ok = res.is_ok();
            let outcome_ok = match &res {
                Ok(_) => m.outcome == OK,
                Err(MapToError::FrameAllocationFailed) => m.outcome == ERR_ALLOC,
                Err(MapToError::ParentEntryHugePage) => m.outcome == ERR_HUGE,
                Err(MapToError::PageAlreadyMapped(_)) => m.outcome == ERR_ALREADY,
            };
            let token_ok = match &res {
                Ok(token) => token.page() == page,
                _ => true,
            };
            let payload_ok = match &res {
                Err(MapToError::PageAlreadyMapped(f)) => *f == frame,
                _ => true,
            };
            let bytes = <$S as Sz>::BYTES;
            let c_target = !ok || (w_in.kind == MAPPED && w_in.size == bytes && w_in.phys == frame.start_address().as_u64() + (inside & (bytes - 1)));
            let c_leaf = !ok || w_in.leaf == flags.bits() | <$S as Sz>::LEAF_EXTRA;
            let c_rights = !ok || ((pf.bits() & RW == 0 || w_in.pw) && (pf.bits() & US == 0 || w_in.pu));
            let c_other = !ok || probe_in_page || (same_mapping(&w_pr_pre, &w_pr) && rights_only_added(&w_pr_pre, &w_pr, pf.bits()));
            let c_err_same = ok || (same_mapping(&w_in_pre, &w_in) && same_mapping(&w_pr_pre, &w_pr));
            let c_err_rights = ok || (rights_only_added(&w_in_pre, &w_in, pf.bits()) && rights_only_added(&w_pr_pre, &w_pr, pf.bits()));
            if !ok {
                relax_for_error(&mut m.dict, &pre, sh, pf.bits());
            }
            let c_huge = ok || m.huge_k == NONE || pool.rd(m.huge_k, m.huge_s) == pre.e[sh.d];
            let c_wf = w_in.kind != MALFORMED && w_pr.kind != MALFORMED;
            // C01 read side in the post-state
            let tr = mapper.translate(VirtAddr::new(probe));
            let c_tr = translate_agrees(&tr, &w_pr, probe);
            // C09: frame condition over all 7 x 512 words, allocator and zero() discipline
            let on_huge_slot = m.huge_k != NONE && fk == m.huge_k && fs == m.huge_s;
            let c_frame = on_huge_slot || m.dict.agrees(fk, fs, f_pre, f_post);
            let missing = if sh.d < <$S as Sz>::L { <$S as Sz>::L - sh.d } else { 0 };
            let c_alloc = alloc.calls == m.requests && alloc.calls <= missing;
            let g = ghost();
            let z_ok = |n: usize| -> bool {
                if n < m.created {
                    g.zero_calls[4 + n] == 1 && g.alloc_seq[n] < g.zero_seq[4 + n] && (n + 1 >= alloc.calls || g.zero_seq[4 + n] < g.alloc_seq[n + 1])
                } else {
                    g.zero_calls[4 + n] == 0
                }
            };
            let c_zero = z_ok(0) && z_ok(1) && z_ok(2) && g.zero_calls[0] == 0 && g.zero_calls[1] == 0 && g.zero_calls[2] == 0 && g.zero_calls[3] == 0 && g.zero_elsewhere == 0;
            let c_outside = g.outside == 0;
            each! {
                outcome_ok => ob!("C02", $sz, $shape, "documented_outcome: Ok / FrameAllocationFailed / ParentEntryHugePage / PageAlreadyMapped exactly in the state the documentation names"),
                token_ok => ob!("C11", $sz, $shape, "token_names_page"),
                token_ok => ob!("C01", $sz, $shape, "result_reports_page: a successful map reports the page it acted on"),
                payload_ok => ob!("C01", $sz, $shape, "result_reports_frame: PageAlreadyMapped carries the frame argument"),
                c_target => ob!("C01", $sz, $shape, "target_translates_to_frame: every address of the page walks to frame + offset at this page size"),
                c_leaf => ob!("C01", $sz, $shape, "target_leaf_flags: leaf flags == flags (plus PS for a huge page)"),
                c_rights => ob!("C01", $sz, $shape, "parent_rights_include_requested: writable/user requested for the parents hold along the walk"),
                c_other => ob!("C01", $sz, $shape, "other_addresses_unchanged: an address outside the page keeps frame, size, leaf flags; parent rights only gain requested bits"),
                c_err_same => ob!("C02", $sz, $shape, "error_leaves_every_mapping: frame, size and leaf flags of the target and of an arbitrary address as before"),
                c_err_rights => ob!("C02", $sz, $shape, "error_adds_at_most_parent_flags: rights along every walk changed at most by the requested parent flags"),
                c_huge => ob!("C02", $sz, $shape, "huge_leaf_unchanged_on_error: the leaf entry of the enclosing huge page is bit-identical after ParentEntryHugePage"),
                c_wf => ob!("C09", $sz, $shape, "no_dangling_table_pointer: every present non-leaf entry still points to a page table"),
                c_tr => ob!("C01", $sz, $shape, "translate_agrees_after: translate(probe) == hardware walk in the post-state"),
                c_frame => ob!("C09", $sz, $shape, "only_dictated_slots_change: every word of every table is unchanged, zeroed (fresh table) or holds the dictated value"),
                c_alloc => ob!("C09", $sz, $shape, "allocator_requests: one request per missing table, none when the tables exist, never more than 3 / 2 / 1"),
                c_zero => ob!("C09", $sz, $shape, "new_tables_zeroed_before_use: zero() runs exactly once on each frame obtained, after the request and before the next one, and on nothing else"),
                c_outside => ob!("C09", $sz, $shape, "no_access_outside_page_tables: no pointer was requested for a frame that is not a page table of the hierarchy"),
            }
            kani::cover(m.outcome == OK, concat!("map_to_", $sz, " ", $shape, ": Ok"));
            kani::cover(m.outcome == ERR_ALLOC, concat!("map_to_", $sz, " ", $shape, ": FrameAllocationFailed"));
            kani::cover(m.outcome == ERR_HUGE, concat!("map_to_", $sz, " ", $shape, ": ParentEntryHugePage"));
            kani::cover(m.outcome == ERR_ALREADY, concat!("map_to_", $sz, " ", $shape, ": PageAlreadyMapped"));
        }};
    }

    //@ obligation C01 C01.map_to_4kib.shape_p4_absent.target_translates_to_frame tier=thorough bounded="pool of 7 tables (4 path + 3 allocatable); tree-shaped sparse pre-state (target path, one neighbour word per path table, garbage in allocatable frames); page-table indices (0,1,511,2)"
    //@ obligation C11 C11.map_to_4kib.shape_p4_absent.target_translates_to_frame tier=thorough bounded="pool of 7 tables (4 path + 3 allocatable); tree-shaped sparse pre-state (target path, one neighbour word per path table, garbage in allocatable frames); page-table indices (0,1,511,2)"
    //@ obligation C01 C01.map_to_4kib.shape_p4_absent.target_leaf_flags tier=thorough bounded="pool of 7 tables (4 path + 3 allocatable); tree-shaped sparse pre-state (target path, one neighbour word per path table, garbage in allocatable frames); page-table indices (0,1,511,2)"
    //@ obligation C11 C11.map_to_4kib.shape_p4_absent.target_leaf_flags tier=thorough bounded="pool of 7 tables (4 path + 3 allocatable); tree-shaped sparse pre-state (target path, one neighbour word per path table, garbage in allocatable frames); page-table indices (0,1,511,2)"
    //@ obligation C01 C01.map_to_4kib.shape_p4_absent.parent_rights_include_requested tier=thorough bounded="pool of 7 tables (4 path + 3 allocatable); tree-shaped sparse pre-state (target path, one neighbour word per path table, garbage in allocatable frames); page-table indices (0,1,511,2)"
    //@ obligation C01 C01.map_to_4kib.shape_p4_absent.other_addresses_unchanged tier=thorough bounded="pool of 7 tables (4 path + 3 allocatable); tree-shaped sparse pre-state (target path, one neighbour word per path table, garbage in allocatable frames); page-table indices (0,1,511,2)"
    //@ obligation C11 C11.map_to_4kib.shape_p4_absent.other_addresses_unchanged tier=thorough bounded="pool of 7 tables (4 path + 3 allocatable); tree-shaped sparse pre-state (target path, one neighbour word per path table, garbage in allocatable frames); page-table indices (0,1,511,2)"
    //@ obligation C01 C01.map_to_4kib.shape_p4_absent.result_reports_page tier=thorough bounded="pool of 7 tables (4 path + 3 allocatable); tree-shaped sparse pre-state (target path, one neighbour word per path table, garbage in allocatable frames); page-table indices (0,1,511,2)"
    //@ obligation C11 C11.map_to_4kib.shape_p4_absent.token_names_page tier=thorough bounded="pool of 7 tables (4 path + 3 allocatable); tree-shaped sparse pre-state (target path, one neighbour word per path table, garbage in allocatable frames); page-table indices (0,1,511,2)"
    //@ obligation C02 C02.map_to_4kib.shape_p4_absent.error_leaves_every_mapping tier=thorough bounded="pool of 7 tables (4 path + 3 allocatable); tree-shaped sparse pre-state (target path, one neighbour word per path table, garbage in allocatable frames); page-table indices (0,1,511,2)"
    //@ obligation C02 C02.map_to_4kib.shape_p4_absent.error_adds_at_most_parent_flags tier=thorough bounded="pool of 7 tables (4 path + 3 allocatable); tree-shaped sparse pre-state (target path, one neighbour word per path table, garbage in allocatable frames); page-table indices (0,1,511,2)"
    //@ obligation C02 C02.map_to_4kib.shape_p4_absent.documented_outcome tier=thorough bounded="pool of 7 tables (4 path + 3 allocatable); tree-shaped sparse pre-state (target path, one neighbour word per path table, garbage in allocatable frames); page-table indices (0,1,511,2)"
    //@ obligation C01 C01.map_to_4kib.shape_p4_absent.translate_agrees_after tier=thorough bounded="pool of 7 tables (4 path + 3 allocatable); tree-shaped sparse pre-state (target path, one neighbour word per path table, garbage in allocatable frames); page-table indices (0,1,511,2)"
    //@ obligation C09 C09.map_to_4kib.shape_p4_absent.only_dictated_slots_change tier=thorough bounded="pool of 7 tables (4 path + 3 allocatable); tree-shaped sparse pre-state (target path, one neighbour word per path table, garbage in allocatable frames); page-table indices (0,1,511,2)"
    //@ obligation C09 C09.map_to_4kib.shape_p4_absent.allocator_requests tier=thorough bounded="pool of 7 tables (4 path + 3 allocatable); tree-shaped sparse pre-state (target path, one neighbour word per path table, garbage in allocatable frames); page-table indices (0,1,511,2)"
    //@ obligation C09 C09.map_to_4kib.shape_p4_absent.new_tables_zeroed_before_use tier=thorough bounded="pool of 7 tables (4 path + 3 allocatable); tree-shaped sparse pre-state (target path, one neighbour word per path table, garbage in allocatable frames); page-table indices (0,1,511,2)"
    //@ obligation C09 C09.map_to_4kib.shape_p4_absent.no_dangling_table_pointer tier=thorough bounded="pool of 7 tables (4 path + 3 allocatable); tree-shaped sparse pre-state (target path, one neighbour word per path table, garbage in allocatable frames); page-table indices (0,1,511,2)"
    //@ obligation C09 C09.map_to_4kib.shape_p4_absent.no_access_outside_page_tables tier=thorough bounded="pool of 7 tables (4 path + 3 allocatable); tree-shaped sparse pre-state (target path, one neighbour word per path table, garbage in allocatable frames); page-table indices (0,1,511,2)"
    #[kani::proof]
    #[kani::stub(PageTable::zero, zero_stub)]
    fn c01_map_to_4kib_p4_absent_lo() {
        map_to_step!(Size4KiB, "4kib", "p4_absent", P4_ABSENT, IDX_LO);
        kani::cover!(true, "c01_map_to_4kib_p4_absent_lo: reachable");
    }

    //@ obligation C01 C01.map_to_4kib.shape_p4_absent.target_translates_to_frame tier=thorough bounded="pool of 7 tables (4 path + 3 allocatable); tree-shaped sparse pre-state (target path, one neighbour word per path table, garbage in allocatable frames); page-table indices (511,510,1,0)"
    //@ obligation C11 C11.map_to_4kib.shape_p4_absent.target_translates_to_frame tier=thorough bounded="pool of 7 tables (4 path + 3 allocatable); tree-shaped sparse pre-state (target path, one neighbour word per path table, garbage in allocatable frames); page-table indices (511,510,1,0)"
    //@ obligation C01 C01.map_to_4kib.shape_p4_absent.target_leaf_flags tier=thorough bounded="pool of 7 tables (4 path + 3 allocatable); tree-shaped sparse pre-state (target path, one neighbour word per path table, garbage in allocatable frames); page-table indices (511,510,1,0)"
    //@ obligation C11 C11.map_to_4kib.shape_p4_absent.target_leaf_flags tier=thorough bounded="pool of 7 tables (4 path + 3 allocatable); tree-shaped sparse pre-state (target path, one neighbour word per path table, garbage in allocatable frames); page-table indices (511,510,1,0)"
    //@ obligation C01 C01.map_to_4kib.shape_p4_absent.parent_rights_include_requested tier=thorough bounded="pool of 7 tables (4 path + 3 allocatable); tree-shaped sparse pre-state (target path, one neighbour word per path table, garbage in allocatable frames); page-table indices (511,510,1,0)"
    //@ obligation C01 C01.map_to_4kib.shape_p4_absent.other_addresses_unchanged tier=thorough bounded="pool of 7 tables (4 path + 3 allocatable); tree-shaped sparse pre-state (target path, one neighbour word per path table, garbage in allocatable frames); page-table indices (511,510,1,0)"
    //@ obligation C11 C11.map_to_4kib.shape_p4_absent.other_addresses_unchanged tier=thorough bounded="pool of 7 tables (4 path + 3 allocatable); tree-shaped sparse pre-state (target path, one neighbour word per path table, garbage in allocatable frames); page-table indices (511,510,1,0)"
    //@ obligation C01 C01.map_to_4kib.shape_p4_absent.result_reports_page tier=thorough bounded="pool of 7 tables (4 path + 3 allocatable); tree-shaped sparse pre-state (target path, one neighbour word per path table, garbage in allocatable frames); page-table indices (511,510,1,0)"
    //@ obligation C11 C11.map_to_4kib.shape_p4_absent.token_names_page tier=thorough bounded="pool of 7 tables (4 path + 3 allocatable); tree-shaped sparse pre-state (target path, one neighbour word per path table, garbage in allocatable frames); page-table indices (511,510,1,0)"
    //@ obligation C02 C02.map_to_4kib.shape_p4_absent.error_leaves_every_mapping tier=thorough bounded="pool of 7 tables (4 path + 3 allocatable); tree-shaped sparse pre-state (target path, one neighbour word per path table, garbage in allocatable frames); page-table indices (511,510,1,0)"
    //@ obligation C02 C02.map_to_4kib.shape_p4_absent.error_adds_at_most_parent_flags tier=thorough bounded="pool of 7 tables (4 path + 3 allocatable); tree-shaped sparse pre-state (target path, one neighbour word per path table, garbage in allocatable frames); page-table indices (511,510,1,0)"
    //@ obligation C02 C02.map_to_4kib.shape_p4_absent.documented_outcome tier=thorough bounded="pool of 7 tables (4 path + 3 allocatable); tree-shaped sparse pre-state (target path, one neighbour word per path table, garbage in allocatable frames); page-table indices (511,510,1,0)"
    //@ obligation C01 C01.map_to_4kib.shape_p4_absent.translate_agrees_after tier=thorough bounded="pool of 7 tables (4 path + 3 allocatable); tree-shaped sparse pre-state (target path, one neighbour word per path table, garbage in allocatable frames); page-table indices (511,510,1,0)"
    //@ obligation C09 C09.map_to_4kib.shape_p4_absent.only_dictated_slots_change tier=thorough bounded="pool of 7 tables (4 path + 3 allocatable); tree-shaped sparse pre-state (target path, one neighbour word per path table, garbage in allocatable frames); page-table indices (511,510,1,0)"
    //@ obligation C09 C09.map_to_4kib.shape_p4_absent.allocator_requests tier=thorough bounded="pool of 7 tables (4 path + 3 allocatable); tree-shaped sparse pre-state (target path, one neighbour word per path table, garbage in allocatable frames); page-table indices (511,510,1,0)"
    //@ obligation C09 C09.map_to_4kib.shape_p4_absent.new_tables_zeroed_before_use tier=thorough bounded="pool of 7 tables (4 path + 3 allocatable); tree-shaped sparse pre-state (target path, one neighbour word per path table, garbage in allocatable frames); page-table indices (511,510,1,0)"
    //@ obligation C09 C09.map_to_4kib.shape_p4_absent.no_dangling_table_pointer tier=thorough bounded="pool of 7 tables (4 path + 3 allocatable); tree-shaped sparse pre-state (target path, one neighbour word per path table, garbage in allocatable frames); page-table indices (511,510,1,0)"
    //@ obligation C09 C09.map_to_4kib.shape_p4_absent.no_access_outside_page_tables tier=thorough bounded="pool of 7 tables (4 path + 3 allocatable); tree-shaped sparse pre-state (target path, one neighbour word per path table, garbage in allocatable frames); page-table indices (511,510,1,0)"
    #[kani::proof]
    #[kani::stub(PageTable::zero, zero_stub)]
    fn c01_map_to_4kib_p4_absent_hi() {
        map_to_step!(Size4KiB, "4kib", "p4_absent", P4_ABSENT, IDX_HI);
        kani::cover!(true, "c01_map_to_4kib_p4_absent_hi: reachable");
    }

    //@ obligation C01 C01.map_to_4kib.shape_p4_absent.target_translates_to_frame bounded="pool of 7 tables (4 path + 3 allocatable); tree-shaped sparse pre-state (target path, one neighbour word per path table, garbage in allocatable frames); page-table indices (255,511,0,256)"
    //@ obligation C11 C11.map_to_4kib.shape_p4_absent.target_translates_to_frame bounded="pool of 7 tables (4 path + 3 allocatable); tree-shaped sparse pre-state (target path, one neighbour word per path table, garbage in allocatable frames); page-table indices (255,511,0,256)"
    //@ obligation C01 C01.map_to_4kib.shape_p4_absent.target_leaf_flags bounded="pool of 7 tables (4 path + 3 allocatable); tree-shaped sparse pre-state (target path, one neighbour word per path table, garbage in allocatable frames); page-table indices (255,511,0,256)"
    //@ obligation C11 C11.map_to_4kib.shape_p4_absent.target_leaf_flags bounded="pool of 7 tables (4 path + 3 allocatable); tree-shaped sparse pre-state (target path, one neighbour word per path table, garbage in allocatable frames); page-table indices (255,511,0,256)"
    //@ obligation C01 C01.map_to_4kib.shape_p4_absent.parent_rights_include_requested bounded="pool of 7 tables (4 path + 3 allocatable); tree-shaped sparse pre-state (target path, one neighbour word per path table, garbage in allocatable frames); page-table indices (255,511,0,256)"
    //@ obligation C01 C01.map_to_4kib.shape_p4_absent.other_addresses_unchanged bounded="pool of 7 tables (4 path + 3 allocatable); tree-shaped sparse pre-state (target path, one neighbour word per path table, garbage in allocatable frames); page-table indices (255,511,0,256)"
    //@ obligation C11 C11.map_to_4kib.shape_p4_absent.other_addresses_unchanged bounded="pool of 7 tables (4 path + 3 allocatable); tree-shaped sparse pre-state (target path, one neighbour word per path table, garbage in allocatable frames); page-table indices (255,511,0,256)"
    //@ obligation C01 C01.map_to_4kib.shape_p4_absent.result_reports_page bounded="pool of 7 tables (4 path + 3 allocatable); tree-shaped sparse pre-state (target path, one neighbour word per path table, garbage in allocatable frames); page-table indices (255,511,0,256)"
    //@ obligation C11 C11.map_to_4kib.shape_p4_absent.token_names_page bounded="pool of 7 tables (4 path + 3 allocatable); tree-shaped sparse pre-state (target path, one neighbour word per path table, garbage in allocatable frames); page-table indices (255,511,0,256)"
    //@ obligation C02 C02.map_to_4kib.shape_p4_absent.error_leaves_every_mapping bounded="pool of 7 tables (4 path + 3 allocatable); tree-shaped sparse pre-state (target path, one neighbour word per path table, garbage in allocatable frames); page-table indices (255,511,0,256)"
    //@ obligation C02 C02.map_to_4kib.shape_p4_absent.error_adds_at_most_parent_flags bounded="pool of 7 tables (4 path + 3 allocatable); tree-shaped sparse pre-state (target path, one neighbour word per path table, garbage in allocatable frames); page-table indices (255,511,0,256)"
    //@ obligation C02 C02.map_to_4kib.shape_p4_absent.documented_outcome bounded="pool of 7 tables (4 path + 3 allocatable); tree-shaped sparse pre-state (target path, one neighbour word per path table, garbage in allocatable frames); page-table indices (255,511,0,256)"
    //@ obligation C01 C01.map_to_4kib.shape_p4_absent.translate_agrees_after bounded="pool of 7 tables (4 path + 3 allocatable); tree-shaped sparse pre-state (target path, one neighbour word per path table, garbage in allocatable frames); page-table indices (255,511,0,256)"
    //@ obligation C09 C09.map_to_4kib.shape_p4_absent.only_dictated_slots_change bounded="pool of 7 tables (4 path + 3 allocatable); tree-shaped sparse pre-state (target path, one neighbour word per path table, garbage in allocatable frames); page-table indices (255,511,0,256)"
    //@ obligation C09 C09.map_to_4kib.shape_p4_absent.allocator_requests bounded="pool of 7 tables (4 path + 3 allocatable); tree-shaped sparse pre-state (target path, one neighbour word per path table, garbage in allocatable frames); page-table indices (255,511,0,256)"
    //@ obligation C09 C09.map_to_4kib.shape_p4_absent.new_tables_zeroed_before_use bounded="pool of 7 tables (4 path + 3 allocatable); tree-shaped sparse pre-state (target path, one neighbour word per path table, garbage in allocatable frames); page-table indices (255,511,0,256)"
    //@ obligation C09 C09.map_to_4kib.shape_p4_absent.no_dangling_table_pointer bounded="pool of 7 tables (4 path + 3 allocatable); tree-shaped sparse pre-state (target path, one neighbour word per path table, garbage in allocatable frames); page-table indices (255,511,0,256)"
    //@ obligation C09 C09.map_to_4kib.shape_p4_absent.no_access_outside_page_tables bounded="pool of 7 tables (4 path + 3 allocatable); tree-shaped sparse pre-state (target path, one neighbour word per path table, garbage in allocatable frames); page-table indices (255,511,0,256)"
    #[kani::proof]
    #[kani::stub(PageTable::zero, zero_stub)]
    fn c01_map_to_4kib_p4_absent_mid() {
        map_to_step!(Size4KiB, "4kib", "p4_absent", P4_ABSENT, IDX_MID);
        kani::cover!(true, "c01_map_to_4kib_p4_absent_mid: reachable");
    }

    //@ obligation C01 C01.map_to_4kib.shape_p4_absent.target_translates_to_frame tier=thorough bounded="pool of 7 tables (4 path + 3 allocatable); tree-shaped sparse pre-state (target path, one neighbour word per path table, garbage in allocatable frames); page-table indices (256,0,510,511)"
    //@ obligation C11 C11.map_to_4kib.shape_p4_absent.target_translates_to_frame tier=thorough bounded="pool of 7 tables (4 path + 3 allocatable); tree-shaped sparse pre-state (target path, one neighbour word per path table, garbage in allocatable frames); page-table indices (256,0,510,511)"
    //@ obligation C01 C01.map_to_4kib.shape_p4_absent.target_leaf_flags tier=thorough bounded="pool of 7 tables (4 path + 3 allocatable); tree-shaped sparse pre-state (target path, one neighbour word per path table, garbage in allocatable frames); page-table indices (256,0,510,511)"
    //@ obligation C11 C11.map_to_4kib.shape_p4_absent.target_leaf_flags tier=thorough bounded="pool of 7 tables (4 path + 3 allocatable); tree-shaped sparse pre-state (target path, one neighbour word per path table, garbage in allocatable frames); page-table indices (256,0,510,511)"
    //@ obligation C01 C01.map_to_4kib.shape_p4_absent.parent_rights_include_requested tier=thorough bounded="pool of 7 tables (4 path + 3 allocatable); tree-shaped sparse pre-state (target path, one neighbour word per path table, garbage in allocatable frames); page-table indices (256,0,510,511)"
    //@ obligation C01 C01.map_to_4kib.shape_p4_absent.other_addresses_unchanged tier=thorough bounded="pool of 7 tables (4 path + 3 allocatable); tree-shaped sparse pre-state (target path, one neighbour word per path table, garbage in allocatable frames); page-table indices (256,0,510,511)"
    //@ obligation C11 C11.map_to_4kib.shape_p4_absent.other_addresses_unchanged tier=thorough bounded="pool of 7 tables (4 path + 3 allocatable); tree-shaped sparse pre-state (target path, one neighbour word per path table, garbage in allocatable frames); page-table indices (256,0,510,511)"
    //@ obligation C01 C01.map_to_4kib.shape_p4_absent.result_reports_page tier=thorough bounded="pool of 7 tables (4 path + 3 allocatable); tree-shaped sparse pre-state (target path, one neighbour word per path table, garbage in allocatable frames); page-table indices (256,0,510,511)"
    //@ obligation C11 C11.map_to_4kib.shape_p4_absent.token_names_page tier=thorough bounded="pool of 7 tables (4 path + 3 allocatable); tree-shaped sparse pre-state (target path, one neighbour word per path table, garbage in allocatable frames); page-table indices (256,0,510,511)"
    //@ obligation C02 C02.map_to_4kib.shape_p4_absent.error_leaves_every_mapping tier=thorough bounded="pool of 7 tables (4 path + 3 allocatable); tree-shaped sparse pre-state (target path, one neighbour word per path table, garbage in allocatable frames); page-table indices (256,0,510,511)"
    //@ obligation C02 C02.map_to_4kib.shape_p4_absent.error_adds_at_most_parent_flags tier=thorough bounded="pool of 7 tables (4 path + 3 allocatable); tree-shaped sparse pre-state (target path, one neighbour word per path table, garbage in allocatable frames); page-table indices (256,0,510,511)"
    //@ obligation C02 C02.map_to_4kib.shape_p4_absent.documented_outcome tier=thorough bounded="pool of 7 tables (4 path + 3 allocatable); tree-shaped sparse pre-state (target path, one neighbour word per path table, garbage in allocatable frames); page-table indices (256,0,510,511)"
    //@ obligation C01 C01.map_to_4kib.shape_p4_absent.translate_agrees_after tier=thorough bounded="pool of 7 tables (4 path + 3 allocatable); tree-shaped sparse pre-state (target path, one neighbour word per path table, garbage in allocatable frames); page-table indices (256,0,510,511)"
    //@ obligation C09 C09.map_to_4kib.shape_p4_absent.only_dictated_slots_change tier=thorough bounded="pool of 7 tables (4 path + 3 allocatable); tree-shaped sparse pre-state (target path, one neighbour word per path table, garbage in allocatable frames); page-table indices (256,0,510,511)"
    //@ obligation C09 C09.map_to_4kib.shape_p4_absent.allocator_requests tier=thorough bounded="pool of 7 tables (4 path + 3 allocatable); tree-shaped sparse pre-state (target path, one neighbour word per path table, garbage in allocatable frames); page-table indices (256,0,510,511)"
    //@ obligation C09 C09.map_to_4kib.shape_p4_absent.new_tables_zeroed_before_use tier=thorough bounded="pool of 7 tables (4 path + 3 allocatable); tree-shaped sparse pre-state (target path, one neighbour word per path table, garbage in allocatable frames); page-table indices (256,0,510,511)"
    //@ obligation C09 C09.map_to_4kib.shape_p4_absent.no_dangling_table_pointer tier=thorough bounded="pool of 7 tables (4 path + 3 allocatable); tree-shaped sparse pre-state (target path, one neighbour word per path table, garbage in allocatable frames); page-table indices (256,0,510,511)"
    //@ obligation C09 C09.map_to_4kib.shape_p4_absent.no_access_outside_page_tables tier=thorough bounded="pool of 7 tables (4 path + 3 allocatable); tree-shaped sparse pre-state (target path, one neighbour word per path table, garbage in allocatable frames); page-table indices (256,0,510,511)"
    #[kani::proof]
    #[kani::stub(PageTable::zero, zero_stub)]
    fn c01_map_to_4kib_p4_absent_up() {
        map_to_step!(Size4KiB, "4kib", "p4_absent", P4_ABSENT, IDX_UP);
        kani::cover!(true, "c01_map_to_4kib_p4_absent_up: reachable");
    }

    //@ obligation C01 C01.map_to_4kib.shape_p3_absent.target_translates_to_frame tier=thorough bounded="pool of 7 tables (4 path + 3 allocatable); tree-shaped sparse pre-state (target path, one neighbour word per path table, garbage in allocatable frames); page-table indices (0,1,511,2)"
    //@ obligation C11 C11.map_to_4kib.shape_p3_absent.target_translates_to_frame tier=thorough bounded="pool of 7 tables (4 path + 3 allocatable); tree-shaped sparse pre-state (target path, one neighbour word per path table, garbage in allocatable frames); page-table indices (0,1,511,2)"
    //@ obligation C01 C01.map_to_4kib.shape_p3_absent.target_leaf_flags tier=thorough bounded="pool of 7 tables (4 path + 3 allocatable); tree-shaped sparse pre-state (target path, one neighbour word per path table, garbage in allocatable frames); page-table indices (0,1,511,2)"
    //@ obligation C11 C11.map_to_4kib.shape_p3_absent.target_leaf_flags tier=thorough bounded="pool of 7 tables (4 path + 3 allocatable); tree-shaped sparse pre-state (target path, one neighbour word per path table, garbage in allocatable frames); page-table indices (0,1,511,2)"
    //@ obligation C01 C01.map_to_4kib.shape_p3_absent.parent_rights_include_requested tier=thorough bounded="pool of 7 tables (4 path + 3 allocatable); tree-shaped sparse pre-state (target path, one neighbour word per path table, garbage in allocatable frames); page-table indices (0,1,511,2)"
    //@ obligation C01 C01.map_to_4kib.shape_p3_absent.other_addresses_unchanged tier=thorough bounded="pool of 7 tables (4 path + 3 allocatable); tree-shaped sparse pre-state (target path, one neighbour word per path table, garbage in allocatable frames); page-table indices (0,1,511,2)"
    //@ obligation C11 C11.map_to_4kib.shape_p3_absent.other_addresses_unchanged tier=thorough bounded="pool of 7 tables (4 path + 3 allocatable); tree-shaped sparse pre-state (target path, one neighbour word per path table, garbage in allocatable frames); page-table indices (0,1,511,2)"
    //@ obligation C01 C01.map_to_4kib.shape_p3_absent.result_reports_page tier=thorough bounded="pool of 7 tables (4 path + 3 allocatable); tree-shaped sparse pre-state (target path, one neighbour word per path table, garbage in allocatable frames); page-table indices (0,1,511,2)"
    //@ obligation C11 C11.map_to_4kib.shape_p3_absent.token_names_page tier=thorough bounded="pool of 7 tables (4 path + 3 allocatable); tree-shaped sparse pre-state (target path, one neighbour word per path table, garbage in allocatable frames); page-table indices (0,1,511,2)"
    //@ obligation C02 C02.map_to_4kib.shape_p3_absent.error_leaves_every_mapping tier=thorough bounded="pool of 7 tables (4 path + 3 allocatable); tree-shaped sparse pre-state (target path, one neighbour word per path table, garbage in allocatable frames); page-table indices (0,1,511,2)"
    //@ obligation C02 C02.map_to_4kib.shape_p3_absent.error_adds_at_most_parent_flags tier=thorough bounded="pool of 7 tables (4 path + 3 allocatable); tree-shaped sparse pre-state (target path, one neighbour word per path table, garbage in allocatable frames); page-table indices (0,1,511,2)"
    //@ obligation C02 C02.map_to_4kib.shape_p3_absent.documented_outcome tier=thorough bounded="pool of 7 tables (4 path + 3 allocatable); tree-shaped sparse pre-state (target path, one neighbour word per path table, garbage in allocatable frames); page-table indices (0,1,511,2)"
    //@ obligation C01 C01.map_to_4kib.shape_p3_absent.translate_agrees_after tier=thorough bounded="pool of 7 tables (4 path + 3 allocatable); tree-shaped sparse pre-state (target path, one neighbour word per path table, garbage in allocatable frames); page-table indices (0,1,511,2)"
    //@ obligation C09 C09.map_to_4kib.shape_p3_absent.only_dictated_slots_change tier=thorough bounded="pool of 7 tables (4 path + 3 allocatable); tree-shaped sparse pre-state (target path, one neighbour word per path table, garbage in allocatable frames); page-table indices (0,1,511,2)"
    //@ obligation C09 C09.map_to_4kib.shape_p3_absent.allocator_requests tier=thorough bounded="pool of 7 tables (4 path + 3 allocatable); tree-shaped sparse pre-state (target path, one neighbour word per path table, garbage in allocatable frames); page-table indices (0,1,511,2)"
    //@ obligation C09 C09.map_to_4kib.shape_p3_absent.new_tables_zeroed_before_use tier=thorough bounded="pool of 7 tables (4 path + 3 allocatable); tree-shaped sparse pre-state (target path, one neighbour word per path table, garbage in allocatable frames); page-table indices (0,1,511,2)"
    //@ obligation C09 C09.map_to_4kib.shape_p3_absent.no_dangling_table_pointer tier=thorough bounded="pool of 7 tables (4 path + 3 allocatable); tree-shaped sparse pre-state (target path, one neighbour word per path table, garbage in allocatable frames); page-table indices (0,1,511,2)"
    //@ obligation C09 C09.map_to_4kib.shape_p3_absent.no_access_outside_page_tables tier=thorough bounded="pool of 7 tables (4 path + 3 allocatable); tree-shaped sparse pre-state (target path, one neighbour word per path table, garbage in allocatable frames); page-table indices (0,1,511,2)"
    #[kani::proof]
    #[kani::stub(PageTable::zero, zero_stub)]
    fn c01_map_to_4kib_p3_absent_lo() {
        map_to_step!(Size4KiB, "4kib", "p3_absent", P3_ABSENT, IDX_LO);
        kani::cover!(true, "c01_map_to_4kib_p3_absent_lo: reachable");
    }

    //@ obligation C01 C01.map_to_4kib.shape_p3_absent.target_translates_to_frame tier=thorough bounded="pool of 7 tables (4 path + 3 allocatable); tree-shaped sparse pre-state (target path, one neighbour word per path table, garbage in allocatable frames); page-table indices (511,510,1,0)"
    //@ obligation C11 C11.map_to_4kib.shape_p3_absent.target_translates_to_frame tier=thorough bounded="pool of 7 tables (4 path + 3 allocatable); tree-shaped sparse pre-state (target path, one neighbour word per path table, garbage in allocatable frames); page-table indices (511,510,1,0)"
    //@ obligation C01 C01.map_to_4kib.shape_p3_absent.target_leaf_flags tier=thorough bounded="pool of 7 tables (4 path + 3 allocatable); tree-shaped sparse pre-state (target path, one neighbour word per path table, garbage in allocatable frames); page-table indices (511,510,1,0)"
    //@ obligation C11 C11.map_to_4kib.shape_p3_absent.target_leaf_flags tier=thorough bounded="pool of 7 tables (4 path + 3 allocatable); tree-shaped sparse pre-state (target path, one neighbour word per path table, garbage in allocatable frames); page-table indices (511,510,1,0)"
    //@ obligation C01 C01.map_to_4kib.shape_p3_absent.parent_rights_include_requested tier=thorough bounded="pool of 7 tables (4 path + 3 allocatable); tree-shaped sparse pre-state (target path, one neighbour word per path table, garbage in allocatable frames); page-table indices (511,510,1,0)"
    //@ obligation C01 C01.map_to_4kib.shape_p3_absent.other_addresses_unchanged tier=thorough bounded="pool of 7 tables (4 path + 3 allocatable); tree-shaped sparse pre-state (target path, one neighbour word per path table, garbage in allocatable frames); page-table indices (511,510,1,0)"
    //@ obligation C11 C11.map_to_4kib.shape_p3_absent.other_addresses_unchanged tier=thorough bounded="pool of 7 tables (4 path + 3 allocatable); tree-shaped sparse pre-state (target path, one neighbour word per path table, garbage in allocatable frames); page-table indices (511,510,1,0)"
    //@ obligation C01 C01.map_to_4kib.shape_p3_absent.result_reports_page tier=thorough bounded="pool of 7 tables (4 path + 3 allocatable); tree-shaped sparse pre-state (target path, one neighbour word per path table, garbage in allocatable frames); page-table indices (511,510,1,0)"
    //@ obligation C11 C11.map_to_4kib.shape_p3_absent.token_names_page tier=thorough bounded="pool of 7 tables (4 path + 3 allocatable); tree-shaped sparse pre-state (target path, one neighbour word per path table, garbage in allocatable frames); page-table indices (511,510,1,0)"
    //@ obligation C02 C02.map_to_4kib.shape_p3_absent.error_leaves_every_mapping tier=thorough bounded="pool of 7 tables (4 path + 3 allocatable); tree-shaped sparse pre-state (target path, one neighbour word per path table, garbage in allocatable frames); page-table indices (511,510,1,0)"
    //@ obligation C02 C02.map_to_4kib.shape_p3_absent.error_adds_at_most_parent_flags tier=thorough bounded="pool of 7 tables (4 path + 3 allocatable); tree-shaped sparse pre-state (target path, one neighbour word per path table, garbage in allocatable frames); page-table indices (511,510,1,0)"
    //@ obligation C02 C02.map_to_4kib.shape_p3_absent.documented_outcome tier=thorough bounded="pool of 7 tables (4 path + 3 allocatable); tree-shaped sparse pre-state (target path, one neighbour word per path table, garbage in allocatable frames); page-table indices (511,510,1,0)"
    //@ obligation C01 C01.map_to_4kib.shape_p3_absent.translate_agrees_after tier=thorough bounded="pool of 7 tables (4 path + 3 allocatable); tree-shaped sparse pre-state (target path, one neighbour word per path table, garbage in allocatable frames); page-table indices (511,510,1,0)"
    //@ obligation C09 C09.map_to_4kib.shape_p3_absent.only_dictated_slots_change tier=thorough bounded="pool of 7 tables (4 path + 3 allocatable); tree-shaped sparse pre-state (target path, one neighbour word per path table, garbage in allocatable frames); page-table indices (511,510,1,0)"
    //@ obligation C09 C09.map_to_4kib.shape_p3_absent.allocator_requests tier=thorough bounded="pool of 7 tables (4 path + 3 allocatable); tree-shaped sparse pre-state (target path, one neighbour word per path table, garbage in allocatable frames); page-table indices (511,510,1,0)"
    //@ obligation C09 C09.map_to_4kib.shape_p3_absent.new_tables_zeroed_before_use tier=thorough bounded="pool of 7 tables (4 path + 3 allocatable); tree-shaped sparse pre-state (target path, one neighbour word per path table, garbage in allocatable frames); page-table indices (511,510,1,0)"
    //@ obligation C09 C09.map_to_4kib.shape_p3_absent.no_dangling_table_pointer tier=thorough bounded="pool of 7 tables (4 path + 3 allocatable); tree-shaped sparse pre-state (target path, one neighbour word per path table, garbage in allocatable frames); page-table indices (511,510,1,0)"
    //@ obligation C09 C09.map_to_4kib.shape_p3_absent.no_access_outside_page_tables tier=thorough bounded="pool of 7 tables (4 path + 3 allocatable); tree-shaped sparse pre-state (target path, one neighbour word per path table, garbage in allocatable frames); page-table indices (511,510,1,0)"
    #[kani::proof]
    #[kani::stub(PageTable::zero, zero_stub)]
    fn c01_map_to_4kib_p3_absent_hi() {
        map_to_step!(Size4KiB, "4kib", "p3_absent", P3_ABSENT, IDX_HI);
        kani::cover!(true, "c01_map_to_4kib_p3_absent_hi: reachable");
    }

    //@ obligation C01 C01.map_to_4kib.shape_p3_absent.target_translates_to_frame tier=thorough bounded="pool of 7 tables (4 path + 3 allocatable); tree-shaped sparse pre-state (target path, one neighbour word per path table, garbage in allocatable frames); page-table indices (255,511,0,256)"
    //@ obligation C11 C11.map_to_4kib.shape_p3_absent.target_translates_to_frame tier=thorough bounded="pool of 7 tables (4 path + 3 allocatable); tree-shaped sparse pre-state (target path, one neighbour word per path table, garbage in allocatable frames); page-table indices (255,511,0,256)"
    //@ obligation C01 C01.map_to_4kib.shape_p3_absent.target_leaf_flags tier=thorough bounded="pool of 7 tables (4 path + 3 allocatable); tree-shaped sparse pre-state (target path, one neighbour word per path table, garbage in allocatable frames); page-table indices (255,511,0,256)"
    //@ obligation C11 C11.map_to_4kib.shape_p3_absent.target_leaf_flags tier=thorough bounded="pool of 7 tables (4 path + 3 allocatable); tree-shaped sparse pre-state (target path, one neighbour word per path table, garbage in allocatable frames); page-table indices (255,511,0,256)"
    //@ obligation C01 C01.map_to_4kib.shape_p3_absent.parent_rights_include_requested tier=thorough bounded="pool of 7 tables (4 path + 3 allocatable); tree-shaped sparse pre-state (target path, one neighbour word per path table, garbage in allocatable frames); page-table indices (255,511,0,256)"
    //@ obligation C01 C01.map_to_4kib.shape_p3_absent.other_addresses_unchanged tier=thorough bounded="pool of 7 tables (4 path + 3 allocatable); tree-shaped sparse pre-state (target path, one neighbour word per path table, garbage in allocatable frames); page-table indices (255,511,0,256)"
    //@ obligation C11 C11.map_to_4kib.shape_p3_absent.other_addresses_unchanged tier=thorough bounded="pool of 7 tables (4 path + 3 allocatable); tree-shaped sparse pre-state (target path, one neighbour word per path table, garbage in allocatable frames); page-table indices (255,511,0,256)"
    //@ obligation C01 C01.map_to_4kib.shape_p3_absent.result_reports_page tier=thorough bounded="pool of 7 tables (4 path + 3 allocatable); tree-shaped sparse pre-state (target path, one neighbour word per path table, garbage in allocatable frames); page-table indices (255,511,0,256)"
    //@ obligation C11 C11.map_to_4kib.shape_p3_absent.token_names_page tier=thorough bounded="pool of 7 tables (4 path + 3 allocatable); tree-shaped sparse pre-state (target path, one neighbour word per path table, garbage in allocatable frames); page-table indices (255,511,0,256)"
    //@ obligation C02 C02.map_to_4kib.shape_p3_absent.error_leaves_every_mapping tier=thorough bounded="pool of 7 tables (4 path + 3 allocatable); tree-shaped sparse pre-state (target path, one neighbour word per path table, garbage in allocatable frames); page-table indices (255,511,0,256)"
    //@ obligation C02 C02.map_to_4kib.shape_p3_absent.error_adds_at_most_parent_flags tier=thorough bounded="pool of 7 tables (4 path + 3 allocatable); tree-shaped sparse pre-state (target path, one neighbour word per path table, garbage in allocatable frames); page-table indices (255,511,0,256)"
    //@ obligation C02 C02.map_to_4kib.shape_p3_absent.documented_outcome tier=thorough bounded="pool of 7 tables (4 path + 3 allocatable); tree-shaped sparse pre-state (target path, one neighbour word per path table, garbage in allocatable frames); page-table indices (255,511,0,256)"
    //@ obligation C01 C01.map_to_4kib.shape_p3_absent.translate_agrees_after tier=thorough bounded="pool of 7 tables (4 path + 3 allocatable); tree-shaped sparse pre-state (target path, one neighbour word per path table, garbage in allocatable frames); page-table indices (255,511,0,256)"
    //@ obligation C09 C09.map_to_4kib.shape_p3_absent.only_dictated_slots_change tier=thorough bounded="pool of 7 tables (4 path + 3 allocatable); tree-shaped sparse pre-state (target path, one neighbour word per path table, garbage in allocatable frames); page-table indices (255,511,0,256)"
    //@ obligation C09 C09.map_to_4kib.shape_p3_absent.allocator_requests tier=thorough bounded="pool of 7 tables (4 path + 3 allocatable); tree-shaped sparse pre-state (target path, one neighbour word per path table, garbage in allocatable frames); page-table indices (255,511,0,256)"
    //@ obligation C09 C09.map_to_4kib.shape_p3_absent.new_tables_zeroed_before_use tier=thorough bounded="pool of 7 tables (4 path + 3 allocatable); tree-shaped sparse pre-state (target path, one neighbour word per path table, garbage in allocatable frames); page-table indices (255,511,0,256)"
    //@ obligation C09 C09.map_to_4kib.shape_p3_absent.no_dangling_table_pointer tier=thorough bounded="pool of 7 tables (4 path + 3 allocatable); tree-shaped sparse pre-state (target path, one neighbour word per path table, garbage in allocatable frames); page-table indices (255,511,0,256)"
    //@ obligation C09 C09.map_to_4kib.shape_p3_absent.no_access_outside_page_tables tier=thorough bounded="pool of 7 tables (4 path + 3 allocatable); tree-shaped sparse pre-state (target path, one neighbour word per path table, garbage in allocatable frames); page-table indices (255,511,0,256)"
    #[kani::proof]
    #[kani::stub(PageTable::zero, zero_stub)]
    fn c01_map_to_4kib_p3_absent_mid() {
        map_to_step!(Size4KiB, "4kib", "p3_absent", P3_ABSENT, IDX_MID);
        kani::cover!(true, "c01_map_to_4kib_p3_absent_mid: reachable");
    }

    //@ obligation C01 C01.map_to_4kib.shape_p3_absent.target_translates_to_frame tier=thorough bounded="pool of 7 tables (4 path + 3 allocatable); tree-shaped sparse pre-state (target path, one neighbour word per path table, garbage in allocatable frames); page-table indices (256,0,510,511)"
    //@ obligation C11 C11.map_to_4kib.shape_p3_absent.target_translates_to_frame tier=thorough bounded="pool of 7 tables (4 path + 3 allocatable); tree-shaped sparse pre-state (target path, one neighbour word per path table, garbage in allocatable frames); page-table indices (256,0,510,511)"
    //@ obligation C01 C01.map_to_4kib.shape_p3_absent.target_leaf_flags tier=thorough bounded="pool of 7 tables (4 path + 3 allocatable); tree-shaped sparse pre-state (target path, one neighbour word per path table, garbage in allocatable frames); page-table indices (256,0,510,511)"
    //@ obligation C11 C11.map_to_4kib.shape_p3_absent.target_leaf_flags tier=thorough bounded="pool of 7 tables (4 path + 3 allocatable); tree-shaped sparse pre-state (target path, one neighbour word per path table, garbage in allocatable frames); page-table indices (256,0,510,511)"
    //@ obligation C01 C01.map_to_4kib.shape_p3_absent.parent_rights_include_requested tier=thorough bounded="pool of 7 tables (4 path + 3 allocatable); tree-shaped sparse pre-state (target path, one neighbour word per path table, garbage in allocatable frames); page-table indices (256,0,510,511)"
    //@ obligation C01 C01.map_to_4kib.shape_p3_absent.other_addresses_unchanged tier=thorough bounded="pool of 7 tables (4 path + 3 allocatable); tree-shaped sparse pre-state (target path, one neighbour word per path table, garbage in allocatable frames); page-table indices (256,0,510,511)"
    //@ obligation C11 C11.map_to_4kib.shape_p3_absent.other_addresses_unchanged tier=thorough bounded="pool of 7 tables (4 path + 3 allocatable); tree-shaped sparse pre-state (target path, one neighbour word per path table, garbage in allocatable frames); page-table indices (256,0,510,511)"
    //@ obligation C01 C01.map_to_4kib.shape_p3_absent.result_reports_page tier=thorough bounded="pool of 7 tables (4 path + 3 allocatable); tree-shaped sparse pre-state (target path, one neighbour word per path table, garbage in allocatable frames); page-table indices (256,0,510,511)"
    //@ obligation C11 C11.map_to_4kib.shape_p3_absent.token_names_page tier=thorough bounded="pool of 7 tables (4 path + 3 allocatable); tree-shaped sparse pre-state (target path, one neighbour word per path table, garbage in allocatable frames); page-table indices (256,0,510,511)"
    //@ obligation C02 C02.map_to_4kib.shape_p3_absent.error_leaves_every_mapping tier=thorough bounded="pool of 7 tables (4 path + 3 allocatable); tree-shaped sparse pre-state (target path, one neighbour word per path table, garbage in allocatable frames); page-table indices (256,0,510,511)"
    //@ obligation C02 C02.map_to_4kib.shape_p3_absent.error_adds_at_most_parent_flags tier=thorough bounded="pool of 7 tables (4 path + 3 allocatable); tree-shaped sparse pre-state (target path, one neighbour word per path table, garbage in allocatable frames); page-table indices (256,0,510,511)"
    //@ obligation C02 C02.map_to_4kib.shape_p3_absent.documented_outcome tier=thorough bounded="pool of 7 tables (4 path + 3 allocatable); tree-shaped sparse pre-state (target path, one neighbour word per path table, garbage in allocatable frames); page-table indices (256,0,510,511)"
    //@ obligation C01 C01.map_to_4kib.shape_p3_absent.translate_agrees_after tier=thorough bounded="pool of 7 tables (4 path + 3 allocatable); tree-shaped sparse pre-state (target path, one neighbour word per path table, garbage in allocatable frames); page-table indices (256,0,510,511)"
    //@ obligation C09 C09.map_to_4kib.shape_p3_absent.only_dictated_slots_change tier=thorough bounded="pool of 7 tables (4 path + 3 allocatable); tree-shaped sparse pre-state (target path, one neighbour word per path table, garbage in allocatable frames); page-table indices (256,0,510,511)"
    //@ obligation C09 C09.map_to_4kib.shape_p3_absent.allocator_requests tier=thorough bounded="pool of 7 tables (4 path + 3 allocatable); tree-shaped sparse pre-state (target path, one neighbour word per path table, garbage in allocatable frames); page-table indices (256,0,510,511)"
    //@ obligation C09 C09.map_to_4kib.shape_p3_absent.new_tables_zeroed_before_use tier=thorough bounded="pool of 7 tables (4 path + 3 allocatable); tree-shaped sparse pre-state (target path, one neighbour word per path table, garbage in allocatable frames); page-table indices (256,0,510,511)"
    //@ obligation C09 C09.map_to_4kib.shape_p3_absent.no_dangling_table_pointer tier=thorough bounded="pool of 7 tables (4 path + 3 allocatable); tree-shaped sparse pre-state (target path, one neighbour word per path table, garbage in allocatable frames); page-table indices (256,0,510,511)"
    //@ obligation C09 C09.map_to_4kib.shape_p3_absent.no_access_outside_page_tables tier=thorough bounded="pool of 7 tables (4 path + 3 allocatable); tree-shaped sparse pre-state (target path, one neighbour word per path table, garbage in allocatable frames); page-table indices (256,0,510,511)"
    #[kani::proof]
    #[kani::stub(PageTable::zero, zero_stub)]
    fn c01_map_to_4kib_p3_absent_up() {
        map_to_step!(Size4KiB, "4kib", "p3_absent", P3_ABSENT, IDX_UP);
        kani::cover!(true, "c01_map_to_4kib_p3_absent_up: reachable");
    }

    //@ obligation C01 C01.map_to_4kib.shape_p2_absent.target_translates_to_frame tier=thorough bounded="pool of 7 tables (4 path + 3 allocatable); tree-shaped sparse pre-state (target path, one neighbour word per path table, garbage in allocatable frames); page-table indices (0,1,511,2)"
    //@ obligation C11 C11.map_to_4kib.shape_p2_absent.target_translates_to_frame tier=thorough bounded="pool of 7 tables (4 path + 3 allocatable); tree-shaped sparse pre-state (target path, one neighbour word per path table, garbage in allocatable frames); page-table indices (0,1,511,2)"
    //@ obligation C01 C01.map_to_4kib.shape_p2_absent.target_leaf_flags tier=thorough bounded="pool of 7 tables (4 path + 3 allocatable); tree-shaped sparse pre-state (target path, one neighbour word per path table, garbage in allocatable frames); page-table indices (0,1,511,2)"
    //@ obligation C11 C11.map_to_4kib.shape_p2_absent.target_leaf_flags tier=thorough bounded="pool of 7 tables (4 path + 3 allocatable); tree-shaped sparse pre-state (target path, one neighbour word per path table, garbage in allocatable frames); page-table indices (0,1,511,2)"
    //@ obligation C01 C01.map_to_4kib.shape_p2_absent.parent_rights_include_requested tier=thorough bounded="pool of 7 tables (4 path + 3 allocatable); tree-shaped sparse pre-state (target path, one neighbour word per path table, garbage in allocatable frames); page-table indices (0,1,511,2)"
    //@ obligation C01 C01.map_to_4kib.shape_p2_absent.other_addresses_unchanged tier=thorough bounded="pool of 7 tables (4 path + 3 allocatable); tree-shaped sparse pre-state (target path, one neighbour word per path table, garbage in allocatable frames); page-table indices (0,1,511,2)"
    //@ obligation C11 C11.map_to_4kib.shape_p2_absent.other_addresses_unchanged tier=thorough bounded="pool of 7 tables (4 path + 3 allocatable); tree-shaped sparse pre-state (target path, one neighbour word per path table, garbage in allocatable frames); page-table indices (0,1,511,2)"
    //@ obligation C01 C01.map_to_4kib.shape_p2_absent.result_reports_page tier=thorough bounded="pool of 7 tables (4 path + 3 allocatable); tree-shaped sparse pre-state (target path, one neighbour word per path table, garbage in allocatable frames); page-table indices (0,1,511,2)"
    //@ obligation C11 C11.map_to_4kib.shape_p2_absent.token_names_page tier=thorough bounded="pool of 7 tables (4 path + 3 allocatable); tree-shaped sparse pre-state (target path, one neighbour word per path table, garbage in allocatable frames); page-table indices (0,1,511,2)"
    //@ obligation C02 C02.map_to_4kib.shape_p2_absent.error_leaves_every_mapping tier=thorough bounded="pool of 7 tables (4 path + 3 allocatable); tree-shaped sparse pre-state (target path, one neighbour word per path table, garbage in allocatable frames); page-table indices (0,1,511,2)"
    //@ obligation C02 C02.map_to_4kib.shape_p2_absent.error_adds_at_most_parent_flags tier=thorough bounded="pool of 7 tables (4 path + 3 allocatable); tree-shaped sparse pre-state (target path, one neighbour word per path table, garbage in allocatable frames); page-table indices (0,1,511,2)"
    //@ obligation C02 C02.map_to_4kib.shape_p2_absent.documented_outcome tier=thorough bounded="pool of 7 tables (4 path + 3 allocatable); tree-shaped sparse pre-state (target path, one neighbour word per path table, garbage in allocatable frames); page-table indices (0,1,511,2)"
    //@ obligation C01 C01.map_to_4kib.shape_p2_absent.translate_agrees_after tier=thorough bounded="pool of 7 tables (4 path + 3 allocatable); tree-shaped sparse pre-state (target path, one neighbour word per path table, garbage in allocatable frames); page-table indices (0,1,511,2)"
    //@ obligation C09 C09.map_to_4kib.shape_p2_absent.only_dictated_slots_change tier=thorough bounded="pool of 7 tables (4 path + 3 allocatable); tree-shaped sparse pre-state (target path, one neighbour word per path table, garbage in allocatable frames); page-table indices (0,1,511,2)"
    //@ obligation C09 C09.map_to_4kib.shape_p2_absent.allocator_requests tier=thorough bounded="pool of 7 tables (4 path + 3 allocatable); tree-shaped sparse pre-state (target path, one neighbour word per path table, garbage in allocatable frames); page-table indices (0,1,511,2)"
    //@ obligation C09 C09.map_to_4kib.shape_p2_absent.new_tables_zeroed_before_use tier=thorough bounded="pool of 7 tables (4 path + 3 allocatable); tree-shaped sparse pre-state (target path, one neighbour word per path table, garbage in allocatable frames); page-table indices (0,1,511,2)"
    //@ obligation C09 C09.map_to_4kib.shape_p2_absent.no_dangling_table_pointer tier=thorough bounded="pool of 7 tables (4 path + 3 allocatable); tree-shaped sparse pre-state (target path, one neighbour word per path table, garbage in allocatable frames); page-table indices (0,1,511,2)"
    //@ obligation C09 C09.map_to_4kib.shape_p2_absent.no_access_outside_page_tables tier=thorough bounded="pool of 7 tables (4 path + 3 allocatable); tree-shaped sparse pre-state (target path, one neighbour word per path table, garbage in allocatable frames); page-table indices (0,1,511,2)"
    #[kani::proof]
    #[kani::stub(PageTable::zero, zero_stub)]
    fn c01_map_to_4kib_p2_absent_lo() {
        map_to_step!(Size4KiB, "4kib", "p2_absent", P2_ABSENT, IDX_LO);
        kani::cover!(true, "c01_map_to_4kib_p2_absent_lo: reachable");
    }

    //@ obligation C01 C01.map_to_4kib.shape_p2_absent.target_translates_to_frame tier=thorough bounded="pool of 7 tables (4 path + 3 allocatable); tree-shaped sparse pre-state (target path, one neighbour word per path table, garbage in allocatable frames); page-table indices (511,510,1,0)"
    //@ obligation C11 C11.map_to_4kib.shape_p2_absent.target_translates_to_frame tier=thorough bounded="pool of 7 tables (4 path + 3 allocatable); tree-shaped sparse pre-state (target path, one neighbour word per path table, garbage in allocatable frames); page-table indices (511,510,1,0)"
    //@ obligation C01 C01.map_to_4kib.shape_p2_absent.target_leaf_flags tier=thorough bounded="pool of 7 tables (4 path + 3 allocatable); tree-shaped sparse pre-state (target path, one neighbour word per path table, garbage in allocatable frames); page-table indices (511,510,1,0)"
    //@ obligation C11 C11.map_to_4kib.shape_p2_absent.target_leaf_flags tier=thorough bounded="pool of 7 tables (4 path + 3 allocatable); tree-shaped sparse pre-state (target path, one neighbour word per path table, garbage in allocatable frames); page-table indices (511,510,1,0)"
    //@ obligation C01 C01.map_to_4kib.shape_p2_absent.parent_rights_include_requested tier=thorough bounded="pool of 7 tables (4 path + 3 allocatable); tree-shaped sparse pre-state (target path, one neighbour word per path table, garbage in allocatable frames); page-table indices (511,510,1,0)"
    //@ obligation C01 C01.map_to_4kib.shape_p2_absent.other_addresses_unchanged tier=thorough bounded="pool of 7 tables (4 path + 3 allocatable); tree-shaped sparse pre-state (target path, one neighbour word per path table, garbage in allocatable frames); page-table indices (511,510,1,0)"
    //@ obligation C11 C11.map_to_4kib.shape_p2_absent.other_addresses_unchanged tier=thorough bounded="pool of 7 tables (4 path + 3 allocatable); tree-shaped sparse pre-state (target path, one neighbour word per path table, garbage in allocatable frames); page-table indices (511,510,1,0)"
    //@ obligation C01 C01.map_to_4kib.shape_p2_absent.result_reports_page tier=thorough bounded="pool of 7 tables (4 path + 3 allocatable); tree-shaped sparse pre-state (target path, one neighbour word per path table, garbage in allocatable frames); page-table indices (511,510,1,0)"
    //@ obligation C11 C11.map_to_4kib.shape_p2_absent.token_names_page tier=thorough bounded="pool of 7 tables (4 path + 3 allocatable); tree-shaped sparse pre-state (target path, one neighbour word per path table, garbage in allocatable frames); page-table indices (511,510,1,0)"
    //@ obligation C02 C02.map_to_4kib.shape_p2_absent.error_leaves_every_mapping tier=thorough bounded="pool of 7 tables (4 path + 3 allocatable); tree-shaped sparse pre-state (target path, one neighbour word per path table, garbage in allocatable frames); page-table indices (511,510,1,0)"
    //@ obligation C02 C02.map_to_4kib.shape_p2_absent.error_adds_at_most_parent_flags tier=thorough bounded="pool of 7 tables (4 path + 3 allocatable); tree-shaped sparse pre-state (target path, one neighbour word per path table, garbage in allocatable frames); page-table indices (511,510,1,0)"
    //@ obligation C02 C02.map_to_4kib.shape_p2_absent.documented_outcome tier=thorough bounded="pool of 7 tables (4 path + 3 allocatable); tree-shaped sparse pre-state (target path, one neighbour word per path table, garbage in allocatable frames); page-table indices (511,510,1,0)"
    //@ obligation C01 C01.map_to_4kib.shape_p2_absent.translate_agrees_after tier=thorough bounded="pool of 7 tables (4 path + 3 allocatable); tree-shaped sparse pre-state (target path, one neighbour word per path table, garbage in allocatable frames); page-table indices (511,510,1,0)"
    //@ obligation C09 C09.map_to_4kib.shape_p2_absent.only_dictated_slots_change tier=thorough bounded="pool of 7 tables (4 path + 3 allocatable); tree-shaped sparse pre-state (target path, one neighbour word per path table, garbage in allocatable frames); page-table indices (511,510,1,0)"
    //@ obligation C09 C09.map_to_4kib.shape_p2_absent.allocator_requests tier=thorough bounded="pool of 7 tables (4 path + 3 allocatable); tree-shaped sparse pre-state (target path, one neighbour word per path table, garbage in allocatable frames); page-table indices (511,510,1,0)"
    //@ obligation C09 C09.map_to_4kib.shape_p2_absent.new_tables_zeroed_before_use tier=thorough bounded="pool of 7 tables (4 path + 3 allocatable); tree-shaped sparse pre-state (target path, one neighbour word per path table, garbage in allocatable frames); page-table indices (511,510,1,0)"
    //@ obligation C09 C09.map_to_4kib.shape_p2_absent.no_dangling_table_pointer tier=thorough bounded="pool of 7 tables (4 path + 3 allocatable); tree-shaped sparse pre-state (target path, one neighbour word per path table, garbage in allocatable frames); page-table indices (511,510,1,0)"
    //@ obligation C09 C09.map_to_4kib.shape_p2_absent.no_access_outside_page_tables tier=thorough bounded="pool of 7 tables (4 path + 3 allocatable); tree-shaped sparse pre-state (target path, one neighbour word per path table, garbage in allocatable frames); page-table indices (511,510,1,0)"
    #[kani::proof]
    #[kani::stub(PageTable::zero, zero_stub)]
    fn c01_map_to_4kib_p2_absent_hi() {
        map_to_step!(Size4KiB, "4kib", "p2_absent", P2_ABSENT, IDX_HI);
        kani::cover!(true, "c01_map_to_4kib_p2_absent_hi: reachable");
    }

    //@ obligation C01 C01.map_to_4kib.shape_p2_absent.target_translates_to_frame tier=thorough bounded="pool of 7 tables (4 path + 3 allocatable); tree-shaped sparse pre-state (target path, one neighbour word per path table, garbage in allocatable frames); page-table indices (255,511,0,256)"
    //@ obligation C11 C11.map_to_4kib.shape_p2_absent.target_translates_to_frame tier=thorough bounded="pool of 7 tables (4 path + 3 allocatable); tree-shaped sparse pre-state (target path, one neighbour word per path table, garbage in allocatable frames); page-table indices (255,511,0,256)"
    //@ obligation C01 C01.map_to_4kib.shape_p2_absent.target_leaf_flags tier=thorough bounded="pool of 7 tables (4 path + 3 allocatable); tree-shaped sparse pre-state (target path, one neighbour word per path table, garbage in allocatable frames); page-table indices (255,511,0,256)"
    //@ obligation C11 C11.map_to_4kib.shape_p2_absent.target_leaf_flags tier=thorough bounded="pool of 7 tables (4 path + 3 allocatable); tree-shaped sparse pre-state (target path, one neighbour word per path table, garbage in allocatable frames); page-table indices (255,511,0,256)"
    //@ obligation C01 C01.map_to_4kib.shape_p2_absent.parent_rights_include_requested tier=thorough bounded="pool of 7 tables (4 path + 3 allocatable); tree-shaped sparse pre-state (target path, one neighbour word per path table, garbage in allocatable frames); page-table indices (255,511,0,256)"
    //@ obligation C01 C01.map_to_4kib.shape_p2_absent.other_addresses_unchanged tier=thorough bounded="pool of 7 tables (4 path + 3 allocatable); tree-shaped sparse pre-state (target path, one neighbour word per path table, garbage in allocatable frames); page-table indices (255,511,0,256)"
    //@ obligation C11 C11.map_to_4kib.shape_p2_absent.other_addresses_unchanged tier=thorough bounded="pool of 7 tables (4 path + 3 allocatable); tree-shaped sparse pre-state (target path, one neighbour word per path table, garbage in allocatable frames); page-table indices (255,511,0,256)"
    //@ obligation C01 C01.map_to_4kib.shape_p2_absent.result_reports_page tier=thorough bounded="pool of 7 tables (4 path + 3 allocatable); tree-shaped sparse pre-state (target path, one neighbour word per path table, garbage in allocatable frames); page-table indices (255,511,0,256)"
    //@ obligation C11 C11.map_to_4kib.shape_p2_absent.token_names_page tier=thorough bounded="pool of 7 tables (4 path + 3 allocatable); tree-shaped sparse pre-state (target path, one neighbour word per path table, garbage in allocatable frames); page-table indices (255,511,0,256)"
    //@ obligation C02 C02.map_to_4kib.shape_p2_absent.error_leaves_every_mapping tier=thorough bounded="pool of 7 tables (4 path + 3 allocatable); tree-shaped sparse pre-state (target path, one neighbour word per path table, garbage in allocatable frames); page-table indices (255,511,0,256)"
    //@ obligation C02 C02.map_to_4kib.shape_p2_absent.error_adds_at_most_parent_flags tier=thorough bounded="pool of 7 tables (4 path + 3 allocatable); tree-shaped sparse pre-state (target path, one neighbour word per path table, garbage in allocatable frames); page-table indices (255,511,0,256)"
    //@ obligation C02 C02.map_to_4kib.shape_p2_absent.documented_outcome tier=thorough bounded="pool of 7 tables (4 path + 3 allocatable); tree-shaped sparse pre-state (target path, one neighbour word per path table, garbage in allocatable frames); page-table indices (255,511,0,256)"
    //@ obligation C01 C01.map_to_4kib.shape_p2_absent.translate_agrees_after tier=thorough bounded="pool of 7 tables (4 path + 3 allocatable); tree-shaped sparse pre-state (target path, one neighbour word per path table, garbage in allocatable frames); page-table indices (255,511,0,256)"
    //@ obligation C09 C09.map_to_4kib.shape_p2_absent.only_dictated_slots_change tier=thorough bounded="pool of 7 tables (4 path + 3 allocatable); tree-shaped sparse pre-state (target path, one neighbour word per path table, garbage in allocatable frames); page-table indices (255,511,0,256)"
    //@ obligation C09 C09.map_to_4kib.shape_p2_absent.allocator_requests tier=thorough bounded="pool of 7 tables (4 path + 3 allocatable); tree-shaped sparse pre-state (target path, one neighbour word per path table, garbage in allocatable frames); page-table indices (255,511,0,256)"
    //@ obligation C09 C09.map_to_4kib.shape_p2_absent.new_tables_zeroed_before_use tier=thorough bounded="pool of 7 tables (4 path + 3 allocatable); tree-shaped sparse pre-state (target path, one neighbour word per path table, garbage in allocatable frames); page-table indices (255,511,0,256)"
    //@ obligation C09 C09.map_to_4kib.shape_p2_absent.no_dangling_table_pointer tier=thorough bounded="pool of 7 tables (4 path + 3 allocatable); tree-shaped sparse pre-state (target path, one neighbour word per path table, garbage in allocatable frames); page-table indices (255,511,0,256)"
    //@ obligation C09 C09.map_to_4kib.shape_p2_absent.no_access_outside_page_tables tier=thorough bounded="pool of 7 tables (4 path + 3 allocatable); tree-shaped sparse pre-state (target path, one neighbour word per path table, garbage in allocatable frames); page-table indices (255,511,0,256)"
    #[kani::proof]
    #[kani::stub(PageTable::zero, zero_stub)]
    fn c01_map_to_4kib_p2_absent_mid() {
        map_to_step!(Size4KiB, "4kib", "p2_absent", P2_ABSENT, IDX_MID);
        kani::cover!(true, "c01_map_to_4kib_p2_absent_mid: reachable");
    }

    //@ obligation C01 C01.map_to_4kib.shape_p2_absent.target_translates_to_frame tier=thorough bounded="pool of 7 tables (4 path + 3 allocatable); tree-shaped sparse pre-state (target path, one neighbour word per path table, garbage in allocatable frames); page-table indices (256,0,510,511)"
    //@ obligation C11 C11.map_to_4kib.shape_p2_absent.target_translates_to_frame tier=thorough bounded="pool of 7 tables (4 path + 3 allocatable); tree-shaped sparse pre-state (target path, one neighbour word per path table, garbage in allocatable frames); page-table indices (256,0,510,511)"
    //@ obligation C01 C01.map_to_4kib.shape_p2_absent.target_leaf_flags tier=thorough bounded="pool of 7 tables (4 path + 3 allocatable); tree-shaped sparse pre-state (target path, one neighbour word per path table, garbage in allocatable frames); page-table indices (256,0,510,511)"
    //@ obligation C11 C11.map_to_4kib.shape_p2_absent.target_leaf_flags tier=thorough bounded="pool of 7 tables (4 path + 3 allocatable); tree-shaped sparse pre-state (target path, one neighbour word per path table, garbage in allocatable frames); page-table indices (256,0,510,511)"
    //@ obligation C01 C01.map_to_4kib.shape_p2_absent.parent_rights_include_requested tier=thorough bounded="pool of 7 tables (4 path + 3 allocatable); tree-shaped sparse pre-state (target path, one neighbour word per path table, garbage in allocatable frames); page-table indices (256,0,510,511)"
    //@ obligation C01 C01.map_to_4kib.shape_p2_absent.other_addresses_unchanged tier=thorough bounded="pool of 7 tables (4 path + 3 allocatable); tree-shaped sparse pre-state (target path, one neighbour word per path table, garbage in allocatable frames); page-table indices (256,0,510,511)"
    //@ obligation C11 C11.map_to_4kib.shape_p2_absent.other_addresses_unchanged tier=thorough bounded="pool of 7 tables (4 path + 3 allocatable); tree-shaped sparse pre-state (target path, one neighbour word per path table, garbage in allocatable frames); page-table indices (256,0,510,511)"
    //@ obligation C01 C01.map_to_4kib.shape_p2_absent.result_reports_page tier=thorough bounded="pool of 7 tables (4 path + 3 allocatable); tree-shaped sparse pre-state (target path, one neighbour word per path table, garbage in allocatable frames); page-table indices (256,0,510,511)"
    //@ obligation C11 C11.map_to_4kib.shape_p2_absent.token_names_page tier=thorough bounded="pool of 7 tables (4 path + 3 allocatable); tree-shaped sparse pre-state (target path, one neighbour word per path table, garbage in allocatable frames); page-table indices (256,0,510,511)"
    //@ obligation C02 C02.map_to_4kib.shape_p2_absent.error_leaves_every_mapping tier=thorough bounded="pool of 7 tables (4 path + 3 allocatable); tree-shaped sparse pre-state (target path, one neighbour word per path table, garbage in allocatable frames); page-table indices (256,0,510,511)"
    //@ obligation C02 C02.map_to_4kib.shape_p2_absent.error_adds_at_most_parent_flags tier=thorough bounded="pool of 7 tables (4 path + 3 allocatable); tree-shaped sparse pre-state (target path, one neighbour word per path table, garbage in allocatable frames); page-table indices (256,0,510,511)"
    //@ obligation C02 C02.map_to_4kib.shape_p2_absent.documented_outcome tier=thorough bounded="pool of 7 tables (4 path + 3 allocatable); tree-shaped sparse pre-state (target path, one neighbour word per path table, garbage in allocatable frames); page-table indices (256,0,510,511)"
    //@ obligation C01 C01.map_to_4kib.shape_p2_absent.translate_agrees_after tier=thorough bounded="pool of 7 tables (4 path + 3 allocatable); tree-shaped sparse pre-state (target path, one neighbour word per path table, garbage in allocatable frames); page-table indices (256,0,510,511)"
    //@ obligation C09 C09.map_to_4kib.shape_p2_absent.only_dictated_slots_change tier=thorough bounded="pool of 7 tables (4 path + 3 allocatable); tree-shaped sparse pre-state (target path, one neighbour word per path table, garbage in allocatable frames); page-table indices (256,0,510,511)"
    //@ obligation C09 C09.map_to_4kib.shape_p2_absent.allocator_requests tier=thorough bounded="pool of 7 tables (4 path + 3 allocatable); tree-shaped sparse pre-state (target path, one neighbour word per path table, garbage in allocatable frames); page-table indices (256,0,510,511)"
    //@ obligation C09 C09.map_to_4kib.shape_p2_absent.new_tables_zeroed_before_use tier=thorough bounded="pool of 7 tables (4 path + 3 allocatable); tree-shaped sparse pre-state (target path, one neighbour word per path table, garbage in allocatable frames); page-table indices (256,0,510,511)"
    //@ obligation C09 C09.map_to_4kib.shape_p2_absent.no_dangling_table_pointer tier=thorough bounded="pool of 7 tables (4 path + 3 allocatable); tree-shaped sparse pre-state (target path, one neighbour word per path table, garbage in allocatable frames); page-table indices (256,0,510,511)"
    //@ obligation C09 C09.map_to_4kib.shape_p2_absent.no_access_outside_page_tables tier=thorough bounded="pool of 7 tables (4 path + 3 allocatable); tree-shaped sparse pre-state (target path, one neighbour word per path table, garbage in allocatable frames); page-table indices (256,0,510,511)"
    #[kani::proof]
    #[kani::stub(PageTable::zero, zero_stub)]
    fn c01_map_to_4kib_p2_absent_up() {
        map_to_step!(Size4KiB, "4kib", "p2_absent", P2_ABSENT, IDX_UP);
        kani::cover!(true, "c01_map_to_4kib_p2_absent_up: reachable");
    }

    //@ obligation C01 C01.map_to_4kib.shape_p1_absent.target_translates_to_frame tier=thorough bounded="pool of 7 tables (4 path + 3 allocatable); tree-shaped sparse pre-state (target path, one neighbour word per path table, garbage in allocatable frames); page-table indices (0,1,511,2)"
    //@ obligation C11 C11.map_to_4kib.shape_p1_absent.target_translates_to_frame tier=thorough bounded="pool of 7 tables (4 path + 3 allocatable); tree-shaped sparse pre-state (target path, one neighbour word per path table, garbage in allocatable frames); page-table indices (0,1,511,2)"
    //@ obligation C01 C01.map_to_4kib.shape_p1_absent.target_leaf_flags tier=thorough bounded="pool of 7 tables (4 path + 3 allocatable); tree-shaped sparse pre-state (target path, one neighbour word per path table, garbage in allocatable frames); page-table indices (0,1,511,2)"
    //@ obligation C11 C11.map_to_4kib.shape_p1_absent.target_leaf_flags tier=thorough bounded="pool of 7 tables (4 path + 3 allocatable); tree-shaped sparse pre-state (target path, one neighbour word per path table, garbage in allocatable frames); page-table indices (0,1,511,2)"
    //@ obligation C01 C01.map_to_4kib.shape_p1_absent.parent_rights_include_requested tier=thorough bounded="pool of 7 tables (4 path + 3 allocatable); tree-shaped sparse pre-state (target path, one neighbour word per path table, garbage in allocatable frames); page-table indices (0,1,511,2)"
    //@ obligation C01 C01.map_to_4kib.shape_p1_absent.other_addresses_unchanged tier=thorough bounded="pool of 7 tables (4 path + 3 allocatable); tree-shaped sparse pre-state (target path, one neighbour word per path table, garbage in allocatable frames); page-table indices (0,1,511,2)"
    //@ obligation C11 C11.map_to_4kib.shape_p1_absent.other_addresses_unchanged tier=thorough bounded="pool of 7 tables (4 path + 3 allocatable); tree-shaped sparse pre-state (target path, one neighbour word per path table, garbage in allocatable frames); page-table indices (0,1,511,2)"
    //@ obligation C01 C01.map_to_4kib.shape_p1_absent.result_reports_page tier=thorough bounded="pool of 7 tables (4 path + 3 allocatable); tree-shaped sparse pre-state (target path, one neighbour word per path table, garbage in allocatable frames); page-table indices (0,1,511,2)"
    //@ obligation C11 C11.map_to_4kib.shape_p1_absent.token_names_page tier=thorough bounded="pool of 7 tables (4 path + 3 allocatable); tree-shaped sparse pre-state (target path, one neighbour word per path table, garbage in allocatable frames); page-table indices (0,1,511,2)"
    //@ obligation C02 C02.map_to_4kib.shape_p1_absent.documented_outcome tier=thorough bounded="pool of 7 tables (4 path + 3 allocatable); tree-shaped sparse pre-state (target path, one neighbour word per path table, garbage in allocatable frames); page-table indices (0,1,511,2)"
    //@ obligation C01 C01.map_to_4kib.shape_p1_absent.translate_agrees_after tier=thorough bounded="pool of 7 tables (4 path + 3 allocatable); tree-shaped sparse pre-state (target path, one neighbour word per path table, garbage in allocatable frames); page-table indices (0,1,511,2)"
    //@ obligation C09 C09.map_to_4kib.shape_p1_absent.only_dictated_slots_change tier=thorough bounded="pool of 7 tables (4 path + 3 allocatable); tree-shaped sparse pre-state (target path, one neighbour word per path table, garbage in allocatable frames); page-table indices (0,1,511,2)"
    //@ obligation C09 C09.map_to_4kib.shape_p1_absent.allocator_requests tier=thorough bounded="pool of 7 tables (4 path + 3 allocatable); tree-shaped sparse pre-state (target path, one neighbour word per path table, garbage in allocatable frames); page-table indices (0,1,511,2)"
    //@ obligation C09 C09.map_to_4kib.shape_p1_absent.new_tables_zeroed_before_use tier=thorough bounded="pool of 7 tables (4 path + 3 allocatable); tree-shaped sparse pre-state (target path, one neighbour word per path table, garbage in allocatable frames); page-table indices (0,1,511,2)"
    //@ obligation C09 C09.map_to_4kib.shape_p1_absent.no_dangling_table_pointer tier=thorough bounded="pool of 7 tables (4 path + 3 allocatable); tree-shaped sparse pre-state (target path, one neighbour word per path table, garbage in allocatable frames); page-table indices (0,1,511,2)"
    //@ obligation C09 C09.map_to_4kib.shape_p1_absent.no_access_outside_page_tables tier=thorough bounded="pool of 7 tables (4 path + 3 allocatable); tree-shaped sparse pre-state (target path, one neighbour word per path table, garbage in allocatable frames); page-table indices (0,1,511,2)"
    #[kani::proof]
    #[kani::stub(PageTable::zero, zero_stub)]
    fn c01_map_to_4kib_p1_absent_lo() {
        map_to_step!(Size4KiB, "4kib", "p1_absent", P1_ABSENT, IDX_LO);
        kani::cover!(true, "c01_map_to_4kib_p1_absent_lo: reachable");
    }

    //@ obligation C01 C01.map_to_4kib.shape_p1_absent.target_translates_to_frame tier=thorough bounded="pool of 7 tables (4 path + 3 allocatable); tree-shaped sparse pre-state (target path, one neighbour word per path table, garbage in allocatable frames); page-table indices (511,510,1,0)"
    //@ obligation C11 C11.map_to_4kib.shape_p1_absent.target_translates_to_frame tier=thorough bounded="pool of 7 tables (4 path + 3 allocatable); tree-shaped sparse pre-state (target path, one neighbour word per path table, garbage in allocatable frames); page-table indices (511,510,1,0)"
    //@ obligation C01 C01.map_to_4kib.shape_p1_absent.target_leaf_flags tier=thorough bounded="pool of 7 tables (4 path + 3 allocatable); tree-shaped sparse pre-state (target path, one neighbour word per path table, garbage in allocatable frames); page-table indices (511,510,1,0)"
    //@ obligation C11 C11.map_to_4kib.shape_p1_absent.target_leaf_flags tier=thorough bounded="pool of 7 tables (4 path + 3 allocatable); tree-shaped sparse pre-state (target path, one neighbour word per path table, garbage in allocatable frames); page-table indices (511,510,1,0)"
    //@ obligation C01 C01.map_to_4kib.shape_p1_absent.parent_rights_include_requested tier=thorough bounded="pool of 7 tables (4 path + 3 allocatable); tree-shaped sparse pre-state (target path, one neighbour word per path table, garbage in allocatable frames); page-table indices (511,510,1,0)"
    //@ obligation C01 C01.map_to_4kib.shape_p1_absent.other_addresses_unchanged tier=thorough bounded="pool of 7 tables (4 path + 3 allocatable); tree-shaped sparse pre-state (target path, one neighbour word per path table, garbage in allocatable frames); page-table indices (511,510,1,0)"
    //@ obligation C11 C11.map_to_4kib.shape_p1_absent.other_addresses_unchanged tier=thorough bounded="pool of 7 tables (4 path + 3 allocatable); tree-shaped sparse pre-state (target path, one neighbour word per path table, garbage in allocatable frames); page-table indices (511,510,1,0)"
    //@ obligation C01 C01.map_to_4kib.shape_p1_absent.result_reports_page tier=thorough bounded="pool of 7 tables (4 path + 3 allocatable); tree-shaped sparse pre-state (target path, one neighbour word per path table, garbage in allocatable frames); page-table indices (511,510,1,0)"
    //@ obligation C11 C11.map_to_4kib.shape_p1_absent.token_names_page tier=thorough bounded="pool of 7 tables (4 path + 3 allocatable); tree-shaped sparse pre-state (target path, one neighbour word per path table, garbage in allocatable frames); page-table indices (511,510,1,0)"
    //@ obligation C02 C02.map_to_4kib.shape_p1_absent.documented_outcome tier=thorough bounded="pool of 7 tables (4 path + 3 allocatable); tree-shaped sparse pre-state (target path, one neighbour word per path table, garbage in allocatable frames); page-table indices (511,510,1,0)"
    //@ obligation C01 C01.map_to_4kib.shape_p1_absent.translate_agrees_after tier=thorough bounded="pool of 7 tables (4 path + 3 allocatable); tree-shaped sparse pre-state (target path, one neighbour word per path table, garbage in allocatable frames); page-table indices (511,510,1,0)"
    //@ obligation C09 C09.map_to_4kib.shape_p1_absent.only_dictated_slots_change tier=thorough bounded="pool of 7 tables (4 path + 3 allocatable); tree-shaped sparse pre-state (target path, one neighbour word per path table, garbage in allocatable frames); page-table indices (511,510,1,0)"
    //@ obligation C09 C09.map_to_4kib.shape_p1_absent.allocator_requests tier=thorough bounded="pool of 7 tables (4 path + 3 allocatable); tree-shaped sparse pre-state (target path, one neighbour word per path table, garbage in allocatable frames); page-table indices (511,510,1,0)"
    //@ obligation C09 C09.map_to_4kib.shape_p1_absent.new_tables_zeroed_before_use tier=thorough bounded="pool of 7 tables (4 path + 3 allocatable); tree-shaped sparse pre-state (target path, one neighbour word per path table, garbage in allocatable frames); page-table indices (511,510,1,0)"
    //@ obligation C09 C09.map_to_4kib.shape_p1_absent.no_dangling_table_pointer tier=thorough bounded="pool of 7 tables (4 path + 3 allocatable); tree-shaped sparse pre-state (target path, one neighbour word per path table, garbage in allocatable frames); page-table indices (511,510,1,0)"
    //@ obligation C09 C09.map_to_4kib.shape_p1_absent.no_access_outside_page_tables tier=thorough bounded="pool of 7 tables (4 path + 3 allocatable); tree-shaped sparse pre-state (target path, one neighbour word per path table, garbage in allocatable frames); page-table indices (511,510,1,0)"
    #[kani::proof]
    #[kani::stub(PageTable::zero, zero_stub)]
    fn c01_map_to_4kib_p1_absent_hi() {
        map_to_step!(Size4KiB, "4kib", "p1_absent", P1_ABSENT, IDX_HI);
        kani::cover!(true, "c01_map_to_4kib_p1_absent_hi: reachable");
    }

    //@ obligation C01 C01.map_to_4kib.shape_p1_absent.target_translates_to_frame tier=thorough bounded="pool of 7 tables (4 path + 3 allocatable); tree-shaped sparse pre-state (target path, one neighbour word per path table, garbage in allocatable frames); page-table indices (255,511,0,256)"
    //@ obligation C11 C11.map_to_4kib.shape_p1_absent.target_translates_to_frame tier=thorough bounded="pool of 7 tables (4 path + 3 allocatable); tree-shaped sparse pre-state (target path, one neighbour word per path table, garbage in allocatable frames); page-table indices (255,511,0,256)"
    //@ obligation C01 C01.map_to_4kib.shape_p1_absent.target_leaf_flags tier=thorough bounded="pool of 7 tables (4 path + 3 allocatable); tree-shaped sparse pre-state (target path, one neighbour word per path table, garbage in allocatable frames); page-table indices (255,511,0,256)"
    //@ obligation C11 C11.map_to_4kib.shape_p1_absent.target_leaf_flags tier=thorough bounded="pool of 7 tables (4 path + 3 allocatable); tree-shaped sparse pre-state (target path, one neighbour word per path table, garbage in allocatable frames); page-table indices (255,511,0,256)"
    //@ obligation C01 C01.map_to_4kib.shape_p1_absent.parent_rights_include_requested tier=thorough bounded="pool of 7 tables (4 path + 3 allocatable); tree-shaped sparse pre-state (target path, one neighbour word per path table, garbage in allocatable frames); page-table indices (255,511,0,256)"
    //@ obligation C01 C01.map_to_4kib.shape_p1_absent.other_addresses_unchanged tier=thorough bounded="pool of 7 tables (4 path + 3 allocatable); tree-shaped sparse pre-state (target path, one neighbour word per path table, garbage in allocatable frames); page-table indices (255,511,0,256)"
    //@ obligation C11 C11.map_to_4kib.shape_p1_absent.other_addresses_unchanged tier=thorough bounded="pool of 7 tables (4 path + 3 allocatable); tree-shaped sparse pre-state (target path, one neighbour word per path table, garbage in allocatable frames); page-table indices (255,511,0,256)"
    //@ obligation C01 C01.map_to_4kib.shape_p1_absent.result_reports_page tier=thorough bounded="pool of 7 tables (4 path + 3 allocatable); tree-shaped sparse pre-state (target path, one neighbour word per path table, garbage in allocatable frames); page-table indices (255,511,0,256)"
    //@ obligation C11 C11.map_to_4kib.shape_p1_absent.token_names_page tier=thorough bounded="pool of 7 tables (4 path + 3 allocatable); tree-shaped sparse pre-state (target path, one neighbour word per path table, garbage in allocatable frames); page-table indices (255,511,0,256)"
    //@ obligation C02 C02.map_to_4kib.shape_p1_absent.documented_outcome tier=thorough bounded="pool of 7 tables (4 path + 3 allocatable); tree-shaped sparse pre-state (target path, one neighbour word per path table, garbage in allocatable frames); page-table indices (255,511,0,256)"
    //@ obligation C01 C01.map_to_4kib.shape_p1_absent.translate_agrees_after tier=thorough bounded="pool of 7 tables (4 path + 3 allocatable); tree-shaped sparse pre-state (target path, one neighbour word per path table, garbage in allocatable frames); page-table indices (255,511,0,256)"
    //@ obligation C09 C09.map_to_4kib.shape_p1_absent.only_dictated_slots_change tier=thorough bounded="pool of 7 tables (4 path + 3 allocatable); tree-shaped sparse pre-state (target path, one neighbour word per path table, garbage in allocatable frames); page-table indices (255,511,0,256)"
    //@ obligation C09 C09.map_to_4kib.shape_p1_absent.allocator_requests tier=thorough bounded="pool of 7 tables (4 path + 3 allocatable); tree-shaped sparse pre-state (target path, one neighbour word per path table, garbage in allocatable frames); page-table indices (255,511,0,256)"
    //@ obligation C09 C09.map_to_4kib.shape_p1_absent.new_tables_zeroed_before_use tier=thorough bounded="pool of 7 tables (4 path + 3 allocatable); tree-shaped sparse pre-state (target path, one neighbour word per path table, garbage in allocatable frames); page-table indices (255,511,0,256)"
    //@ obligation C09 C09.map_to_4kib.shape_p1_absent.no_dangling_table_pointer tier=thorough bounded="pool of 7 tables (4 path + 3 allocatable); tree-shaped sparse pre-state (target path, one neighbour word per path table, garbage in allocatable frames); page-table indices (255,511,0,256)"
    //@ obligation C09 C09.map_to_4kib.shape_p1_absent.no_access_outside_page_tables tier=thorough bounded="pool of 7 tables (4 path + 3 allocatable); tree-shaped sparse pre-state (target path, one neighbour word per path table, garbage in allocatable frames); page-table indices (255,511,0,256)"
    #[kani::proof]
    #[kani::stub(PageTable::zero, zero_stub)]
    fn c01_map_to_4kib_p1_absent_mid() {
        map_to_step!(Size4KiB, "4kib", "p1_absent", P1_ABSENT, IDX_MID);
        kani::cover!(true, "c01_map_to_4kib_p1_absent_mid: reachable");
    }

    //@ obligation C01 C01.map_to_4kib.shape_p1_absent.target_translates_to_frame tier=thorough bounded="pool of 7 tables (4 path + 3 allocatable); tree-shaped sparse pre-state (target path, one neighbour word per path table, garbage in allocatable frames); page-table indices (256,0,510,511)"
    //@ obligation C11 C11.map_to_4kib.shape_p1_absent.target_translates_to_frame tier=thorough bounded="pool of 7 tables (4 path + 3 allocatable); tree-shaped sparse pre-state (target path, one neighbour word per path table, garbage in allocatable frames); page-table indices (256,0,510,511)"
    //@ obligation C01 C01.map_to_4kib.shape_p1_absent.target_leaf_flags tier=thorough bounded="pool of 7 tables (4 path + 3 allocatable); tree-shaped sparse pre-state (target path, one neighbour word per path table, garbage in allocatable frames); page-table indices (256,0,510,511)"
    //@ obligation C11 C11.map_to_4kib.shape_p1_absent.target_leaf_flags tier=thorough bounded="pool of 7 tables (4 path + 3 allocatable); tree-shaped sparse pre-state (target path, one neighbour word per path table, garbage in allocatable frames); page-table indices (256,0,510,511)"
    //@ obligation C01 C01.map_to_4kib.shape_p1_absent.parent_rights_include_requested tier=thorough bounded="pool of 7 tables (4 path + 3 allocatable); tree-shaped sparse pre-state (target path, one neighbour word per path table, garbage in allocatable frames); page-table indices (256,0,510,511)"
    //@ obligation C01 C01.map_to_4kib.shape_p1_absent.other_addresses_unchanged tier=thorough bounded="pool of 7 tables (4 path + 3 allocatable); tree-shaped sparse pre-state (target path, one neighbour word per path table, garbage in allocatable frames); page-table indices (256,0,510,511)"
    //@ obligation C11 C11.map_to_4kib.shape_p1_absent.other_addresses_unchanged tier=thorough bounded="pool of 7 tables (4 path + 3 allocatable); tree-shaped sparse pre-state (target path, one neighbour word per path table, garbage in allocatable frames); page-table indices (256,0,510,511)"
    //@ obligation C01 C01.map_to_4kib.shape_p1_absent.result_reports_page tier=thorough bounded="pool of 7 tables (4 path + 3 allocatable); tree-shaped sparse pre-state (target path, one neighbour word per path table, garbage in allocatable frames); page-table indices (256,0,510,511)"
    //@ obligation C11 C11.map_to_4kib.shape_p1_absent.token_names_page tier=thorough bounded="pool of 7 tables (4 path + 3 allocatable); tree-shaped sparse pre-state (target path, one neighbour word per path table, garbage in allocatable frames); page-table indices (256,0,510,511)"
    //@ obligation C02 C02.map_to_4kib.shape_p1_absent.documented_outcome tier=thorough bounded="pool of 7 tables (4 path + 3 allocatable); tree-shaped sparse pre-state (target path, one neighbour word per path table, garbage in allocatable frames); page-table indices (256,0,510,511)"
    //@ obligation C01 C01.map_to_4kib.shape_p1_absent.translate_agrees_after tier=thorough bounded="pool of 7 tables (4 path + 3 allocatable); tree-shaped sparse pre-state (target path, one neighbour word per path table, garbage in allocatable frames); page-table indices (256,0,510,511)"
    //@ obligation C09 C09.map_to_4kib.shape_p1_absent.only_dictated_slots_change tier=thorough bounded="pool of 7 tables (4 path + 3 allocatable); tree-shaped sparse pre-state (target path, one neighbour word per path table, garbage in allocatable frames); page-table indices (256,0,510,511)"
    //@ obligation C09 C09.map_to_4kib.shape_p1_absent.allocator_requests tier=thorough bounded="pool of 7 tables (4 path + 3 allocatable); tree-shaped sparse pre-state (target path, one neighbour word per path table, garbage in allocatable frames); page-table indices (256,0,510,511)"
    //@ obligation C09 C09.map_to_4kib.shape_p1_absent.new_tables_zeroed_before_use tier=thorough bounded="pool of 7 tables (4 path + 3 allocatable); tree-shaped sparse pre-state (target path, one neighbour word per path table, garbage in allocatable frames); page-table indices (256,0,510,511)"
    //@ obligation C09 C09.map_to_4kib.shape_p1_absent.no_dangling_table_pointer tier=thorough bounded="pool of 7 tables (4 path + 3 allocatable); tree-shaped sparse pre-state (target path, one neighbour word per path table, garbage in allocatable frames); page-table indices (256,0,510,511)"
    //@ obligation C09 C09.map_to_4kib.shape_p1_absent.no_access_outside_page_tables tier=thorough bounded="pool of 7 tables (4 path + 3 allocatable); tree-shaped sparse pre-state (target path, one neighbour word per path table, garbage in allocatable frames); page-table indices (256,0,510,511)"
    #[kani::proof]
    #[kani::stub(PageTable::zero, zero_stub)]
    fn c01_map_to_4kib_p1_absent_up() {
        map_to_step!(Size4KiB, "4kib", "p1_absent", P1_ABSENT, IDX_UP);
        kani::cover!(true, "c01_map_to_4kib_p1_absent_up: reachable");
    }

    //@ obligation C02 C02.map_to_4kib.shape_p3_huge.error_leaves_every_mapping tier=thorough bounded="pool of 7 tables (4 path + 3 allocatable); tree-shaped sparse pre-state (target path, one neighbour word per path table, garbage in allocatable frames); page-table indices (0,1,511,2)"
    //@ obligation C02 C02.map_to_4kib.shape_p3_huge.error_adds_at_most_parent_flags tier=thorough bounded="pool of 7 tables (4 path + 3 allocatable); tree-shaped sparse pre-state (target path, one neighbour word per path table, garbage in allocatable frames); page-table indices (0,1,511,2)"
    //@ obligation C02 C02.map_to_4kib.shape_p3_huge.huge_leaf_unchanged_on_error tier=thorough bounded="pool of 7 tables (4 path + 3 allocatable); tree-shaped sparse pre-state (target path, one neighbour word per path table, garbage in allocatable frames); page-table indices (0,1,511,2)"
    //@ obligation C02 C02.map_to_4kib.shape_p3_huge.documented_outcome tier=thorough bounded="pool of 7 tables (4 path + 3 allocatable); tree-shaped sparse pre-state (target path, one neighbour word per path table, garbage in allocatable frames); page-table indices (0,1,511,2)"
    //@ obligation C01 C01.map_to_4kib.shape_p3_huge.translate_agrees_after tier=thorough bounded="pool of 7 tables (4 path + 3 allocatable); tree-shaped sparse pre-state (target path, one neighbour word per path table, garbage in allocatable frames); page-table indices (0,1,511,2)"
    //@ obligation C09 C09.map_to_4kib.shape_p3_huge.only_dictated_slots_change tier=thorough bounded="pool of 7 tables (4 path + 3 allocatable); tree-shaped sparse pre-state (target path, one neighbour word per path table, garbage in allocatable frames); page-table indices (0,1,511,2)"
    //@ obligation C09 C09.map_to_4kib.shape_p3_huge.allocator_requests tier=thorough bounded="pool of 7 tables (4 path + 3 allocatable); tree-shaped sparse pre-state (target path, one neighbour word per path table, garbage in allocatable frames); page-table indices (0,1,511,2)"
    //@ obligation C09 C09.map_to_4kib.shape_p3_huge.new_tables_zeroed_before_use tier=thorough bounded="pool of 7 tables (4 path + 3 allocatable); tree-shaped sparse pre-state (target path, one neighbour word per path table, garbage in allocatable frames); page-table indices (0,1,511,2)"
    //@ obligation C09 C09.map_to_4kib.shape_p3_huge.no_dangling_table_pointer tier=thorough bounded="pool of 7 tables (4 path + 3 allocatable); tree-shaped sparse pre-state (target path, one neighbour word per path table, garbage in allocatable frames); page-table indices (0,1,511,2)"
    //@ obligation C09 C09.map_to_4kib.shape_p3_huge.no_access_outside_page_tables tier=thorough bounded="pool of 7 tables (4 path + 3 allocatable); tree-shaped sparse pre-state (target path, one neighbour word per path table, garbage in allocatable frames); page-table indices (0,1,511,2)"
    #[kani::proof]
    #[kani::stub(PageTable::zero, zero_stub)]
    fn c01_map_to_4kib_p3_huge_lo() {
        map_to_step!(Size4KiB, "4kib", "p3_huge", P3_HUGE, IDX_LO);
        kani::cover!(true, "c01_map_to_4kib_p3_huge_lo: reachable");
    }

    //@ obligation C02 C02.map_to_4kib.shape_p3_huge.error_leaves_every_mapping tier=thorough bounded="pool of 7 tables (4 path + 3 allocatable); tree-shaped sparse pre-state (target path, one neighbour word per path table, garbage in allocatable frames); page-table indices (511,510,1,0)"
    //@ obligation C02 C02.map_to_4kib.shape_p3_huge.error_adds_at_most_parent_flags tier=thorough bounded="pool of 7 tables (4 path + 3 allocatable); tree-shaped sparse pre-state (target path, one neighbour word per path table, garbage in allocatable frames); page-table indices (511,510,1,0)"
    //@ obligation C02 C02.map_to_4kib.shape_p3_huge.huge_leaf_unchanged_on_error tier=thorough bounded="pool of 7 tables (4 path + 3 allocatable); tree-shaped sparse pre-state (target path, one neighbour word per path table, garbage in allocatable frames); page-table indices (511,510,1,0)"
    //@ obligation C02 C02.map_to_4kib.shape_p3_huge.documented_outcome tier=thorough bounded="pool of 7 tables (4 path + 3 allocatable); tree-shaped sparse pre-state (target path, one neighbour word per path table, garbage in allocatable frames); page-table indices (511,510,1,0)"
    //@ obligation C01 C01.map_to_4kib.shape_p3_huge.translate_agrees_after tier=thorough bounded="pool of 7 tables (4 path + 3 allocatable); tree-shaped sparse pre-state (target path, one neighbour word per path table, garbage in allocatable frames); page-table indices (511,510,1,0)"
    //@ obligation C09 C09.map_to_4kib.shape_p3_huge.only_dictated_slots_change tier=thorough bounded="pool of 7 tables (4 path + 3 allocatable); tree-shaped sparse pre-state (target path, one neighbour word per path table, garbage in allocatable frames); page-table indices (511,510,1,0)"
    //@ obligation C09 C09.map_to_4kib.shape_p3_huge.allocator_requests tier=thorough bounded="pool of 7 tables (4 path + 3 allocatable); tree-shaped sparse pre-state (target path, one neighbour word per path table, garbage in allocatable frames); page-table indices (511,510,1,0)"
    //@ obligation C09 C09.map_to_4kib.shape_p3_huge.new_tables_zeroed_before_use tier=thorough bounded="pool of 7 tables (4 path + 3 allocatable); tree-shaped sparse pre-state (target path, one neighbour word per path table, garbage in allocatable frames); page-table indices (511,510,1,0)"
    //@ obligation C09 C09.map_to_4kib.shape_p3_huge.no_dangling_table_pointer tier=thorough bounded="pool of 7 tables (4 path + 3 allocatable); tree-shaped sparse pre-state (target path, one neighbour word per path table, garbage in allocatable frames); page-table indices (511,510,1,0)"
    //@ obligation C09 C09.map_to_4kib.shape_p3_huge.no_access_outside_page_tables tier=thorough bounded="pool of 7 tables (4 path + 3 allocatable); tree-shaped sparse pre-state (target path, one neighbour word per path table, garbage in allocatable frames); page-table indices (511,510,1,0)"
    #[kani::proof]
    #[kani::stub(PageTable::zero, zero_stub)]
    fn c01_map_to_4kib_p3_huge_hi() {
        map_to_step!(Size4KiB, "4kib", "p3_huge", P3_HUGE, IDX_HI);
        kani::cover!(true, "c01_map_to_4kib_p3_huge_hi: reachable");
    }

    //@ obligation C02 C02.map_to_4kib.shape_p3_huge.error_leaves_every_mapping tier=thorough bounded="pool of 7 tables (4 path + 3 allocatable); tree-shaped sparse pre-state (target path, one neighbour word per path table, garbage in allocatable frames); page-table indices (255,511,0,256)"
    //@ obligation C02 C02.map_to_4kib.shape_p3_huge.error_adds_at_most_parent_flags tier=thorough bounded="pool of 7 tables (4 path + 3 allocatable); tree-shaped sparse pre-state (target path, one neighbour word per path table, garbage in allocatable frames); page-table indices (255,511,0,256)"
    //@ obligation C02 C02.map_to_4kib.shape_p3_huge.huge_leaf_unchanged_on_error tier=thorough bounded="pool of 7 tables (4 path + 3 allocatable); tree-shaped sparse pre-state (target path, one neighbour word per path table, garbage in allocatable frames); page-table indices (255,511,0,256)"
    //@ obligation C02 C02.map_to_4kib.shape_p3_huge.documented_outcome tier=thorough bounded="pool of 7 tables (4 path + 3 allocatable); tree-shaped sparse pre-state (target path, one neighbour word per path table, garbage in allocatable frames); page-table indices (255,511,0,256)"
    //@ obligation C01 C01.map_to_4kib.shape_p3_huge.translate_agrees_after tier=thorough bounded="pool of 7 tables (4 path + 3 allocatable); tree-shaped sparse pre-state (target path, one neighbour word per path table, garbage in allocatable frames); page-table indices (255,511,0,256)"
    //@ obligation C09 C09.map_to_4kib.shape_p3_huge.only_dictated_slots_change tier=thorough bounded="pool of 7 tables (4 path + 3 allocatable); tree-shaped sparse pre-state (target path, one neighbour word per path table, garbage in allocatable frames); page-table indices (255,511,0,256)"
    //@ obligation C09 C09.map_to_4kib.shape_p3_huge.allocator_requests tier=thorough bounded="pool of 7 tables (4 path + 3 allocatable); tree-shaped sparse pre-state (target path, one neighbour word per path table, garbage in allocatable frames); page-table indices (255,511,0,256)"
    //@ obligation C09 C09.map_to_4kib.shape_p3_huge.new_tables_zeroed_before_use tier=thorough bounded="pool of 7 tables (4 path + 3 allocatable); tree-shaped sparse pre-state (target path, one neighbour word per path table, garbage in allocatable frames); page-table indices (255,511,0,256)"
    //@ obligation C09 C09.map_to_4kib.shape_p3_huge.no_dangling_table_pointer tier=thorough bounded="pool of 7 tables (4 path + 3 allocatable); tree-shaped sparse pre-state (target path, one neighbour word per path table, garbage in allocatable frames); page-table indices (255,511,0,256)"
    //@ obligation C09 C09.map_to_4kib.shape_p3_huge.no_access_outside_page_tables tier=thorough bounded="pool of 7 tables (4 path + 3 allocatable); tree-shaped sparse pre-state (target path, one neighbour word per path table, garbage in allocatable frames); page-table indices (255,511,0,256)"
    #[kani::proof]
    #[kani::stub(PageTable::zero, zero_stub)]
    fn c01_map_to_4kib_p3_huge_mid() {
        map_to_step!(Size4KiB, "4kib", "p3_huge", P3_HUGE, IDX_MID);
        kani::cover!(true, "c01_map_to_4kib_p3_huge_mid: reachable");
    }

    //@ obligation C02 C02.map_to_4kib.shape_p3_huge.error_leaves_every_mapping tier=thorough bounded="pool of 7 tables (4 path + 3 allocatable); tree-shaped sparse pre-state (target path, one neighbour word per path table, garbage in allocatable frames); page-table indices (256,0,510,511)"
    //@ obligation C02 C02.map_to_4kib.shape_p3_huge.error_adds_at_most_parent_flags tier=thorough bounded="pool of 7 tables (4 path + 3 allocatable); tree-shaped sparse pre-state (target path, one neighbour word per path table, garbage in allocatable frames); page-table indices (256,0,510,511)"
    //@ obligation C02 C02.map_to_4kib.shape_p3_huge.huge_leaf_unchanged_on_error tier=thorough bounded="pool of 7 tables (4 path + 3 allocatable); tree-shaped sparse pre-state (target path, one neighbour word per path table, garbage in allocatable frames); page-table indices (256,0,510,511)"
    //@ obligation C02 C02.map_to_4kib.shape_p3_huge.documented_outcome tier=thorough bounded="pool of 7 tables (4 path + 3 allocatable); tree-shaped sparse pre-state (target path, one neighbour word per path table, garbage in allocatable frames); page-table indices (256,0,510,511)"
    //@ obligation C01 C01.map_to_4kib.shape_p3_huge.translate_agrees_after tier=thorough bounded="pool of 7 tables (4 path + 3 allocatable); tree-shaped sparse pre-state (target path, one neighbour word per path table, garbage in allocatable frames); page-table indices (256,0,510,511)"
    //@ obligation C09 C09.map_to_4kib.shape_p3_huge.only_dictated_slots_change tier=thorough bounded="pool of 7 tables (4 path + 3 allocatable); tree-shaped sparse pre-state (target path, one neighbour word per path table, garbage in allocatable frames); page-table indices (256,0,510,511)"
    //@ obligation C09 C09.map_to_4kib.shape_p3_huge.allocator_requests tier=thorough bounded="pool of 7 tables (4 path + 3 allocatable); tree-shaped sparse pre-state (target path, one neighbour word per path table, garbage in allocatable frames); page-table indices (256,0,510,511)"
    //@ obligation C09 C09.map_to_4kib.shape_p3_huge.new_tables_zeroed_before_use tier=thorough bounded="pool of 7 tables (4 path + 3 allocatable); tree-shaped sparse pre-state (target path, one neighbour word per path table, garbage in allocatable frames); page-table indices (256,0,510,511)"
    //@ obligation C09 C09.map_to_4kib.shape_p3_huge.no_dangling_table_pointer tier=thorough bounded="pool of 7 tables (4 path + 3 allocatable); tree-shaped sparse pre-state (target path, one neighbour word per path table, garbage in allocatable frames); page-table indices (256,0,510,511)"
    //@ obligation C09 C09.map_to_4kib.shape_p3_huge.no_access_outside_page_tables tier=thorough bounded="pool of 7 tables (4 path + 3 allocatable); tree-shaped sparse pre-state (target path, one neighbour word per path table, garbage in allocatable frames); page-table indices (256,0,510,511)"
    #[kani::proof]
    #[kani::stub(PageTable::zero, zero_stub)]
    fn c01_map_to_4kib_p3_huge_up() {
        map_to_step!(Size4KiB, "4kib", "p3_huge", P3_HUGE, IDX_UP);
        kani::cover!(true, "c01_map_to_4kib_p3_huge_up: reachable");
    }

    //@ obligation C02 C02.map_to_4kib.shape_p2_huge.error_leaves_every_mapping tier=thorough bounded="pool of 7 tables (4 path + 3 allocatable); tree-shaped sparse pre-state (target path, one neighbour word per path table, garbage in allocatable frames); page-table indices (0,1,511,2)"
    //@ obligation C02 C02.map_to_4kib.shape_p2_huge.error_adds_at_most_parent_flags tier=thorough bounded="pool of 7 tables (4 path + 3 allocatable); tree-shaped sparse pre-state (target path, one neighbour word per path table, garbage in allocatable frames); page-table indices (0,1,511,2)"
    //@ obligation C02 C02.map_to_4kib.shape_p2_huge.huge_leaf_unchanged_on_error tier=thorough bounded="pool of 7 tables (4 path + 3 allocatable); tree-shaped sparse pre-state (target path, one neighbour word per path table, garbage in allocatable frames); page-table indices (0,1,511,2)"
    //@ obligation C02 C02.map_to_4kib.shape_p2_huge.documented_outcome tier=thorough bounded="pool of 7 tables (4 path + 3 allocatable); tree-shaped sparse pre-state (target path, one neighbour word per path table, garbage in allocatable frames); page-table indices (0,1,511,2)"
    //@ obligation C01 C01.map_to_4kib.shape_p2_huge.translate_agrees_after tier=thorough bounded="pool of 7 tables (4 path + 3 allocatable); tree-shaped sparse pre-state (target path, one neighbour word per path table, garbage in allocatable frames); page-table indices (0,1,511,2)"
    //@ obligation C09 C09.map_to_4kib.shape_p2_huge.only_dictated_slots_change tier=thorough bounded="pool of 7 tables (4 path + 3 allocatable); tree-shaped sparse pre-state (target path, one neighbour word per path table, garbage in allocatable frames); page-table indices (0,1,511,2)"
    //@ obligation C09 C09.map_to_4kib.shape_p2_huge.allocator_requests tier=thorough bounded="pool of 7 tables (4 path + 3 allocatable); tree-shaped sparse pre-state (target path, one neighbour word per path table, garbage in allocatable frames); page-table indices (0,1,511,2)"
    //@ obligation C09 C09.map_to_4kib.shape_p2_huge.new_tables_zeroed_before_use tier=thorough bounded="pool of 7 tables (4 path + 3 allocatable); tree-shaped sparse pre-state (target path, one neighbour word per path table, garbage in allocatable frames); page-table indices (0,1,511,2)"
    //@ obligation C09 C09.map_to_4kib.shape_p2_huge.no_dangling_table_pointer tier=thorough bounded="pool of 7 tables (4 path + 3 allocatable); tree-shaped sparse pre-state (target path, one neighbour word per path table, garbage in allocatable frames); page-table indices (0,1,511,2)"
    //@ obligation C09 C09.map_to_4kib.shape_p2_huge.no_access_outside_page_tables tier=thorough bounded="pool of 7 tables (4 path + 3 allocatable); tree-shaped sparse pre-state (target path, one neighbour word per path table, garbage in allocatable frames); page-table indices (0,1,511,2)"
    #[kani::proof]
    #[kani::stub(PageTable::zero, zero_stub)]
    fn c01_map_to_4kib_p2_huge_lo() {
        map_to_step!(Size4KiB, "4kib", "p2_huge", P2_HUGE, IDX_LO);
        kani::cover!(true, "c01_map_to_4kib_p2_huge_lo: reachable");
    }

    //@ obligation C02 C02.map_to_4kib.shape_p2_huge.error_leaves_every_mapping tier=thorough bounded="pool of 7 tables (4 path + 3 allocatable); tree-shaped sparse pre-state (target path, one neighbour word per path table, garbage in allocatable frames); page-table indices (511,510,1,0)"
    //@ obligation C02 C02.map_to_4kib.shape_p2_huge.error_adds_at_most_parent_flags tier=thorough bounded="pool of 7 tables (4 path + 3 allocatable); tree-shaped sparse pre-state (target path, one neighbour word per path table, garbage in allocatable frames); page-table indices (511,510,1,0)"
    //@ obligation C02 C02.map_to_4kib.shape_p2_huge.huge_leaf_unchanged_on_error tier=thorough bounded="pool of 7 tables (4 path + 3 allocatable); tree-shaped sparse pre-state (target path, one neighbour word per path table, garbage in allocatable frames); page-table indices (511,510,1,0)"
    //@ obligation C02 C02.map_to_4kib.shape_p2_huge.documented_outcome tier=thorough bounded="pool of 7 tables (4 path + 3 allocatable); tree-shaped sparse pre-state (target path, one neighbour word per path table, garbage in allocatable frames); page-table indices (511,510,1,0)"
    //@ obligation C01 C01.map_to_4kib.shape_p2_huge.translate_agrees_after tier=thorough bounded="pool of 7 tables (4 path + 3 allocatable); tree-shaped sparse pre-state (target path, one neighbour word per path table, garbage in allocatable frames); page-table indices (511,510,1,0)"
    //@ obligation C09 C09.map_to_4kib.shape_p2_huge.only_dictated_slots_change tier=thorough bounded="pool of 7 tables (4 path + 3 allocatable); tree-shaped sparse pre-state (target path, one neighbour word per path table, garbage in allocatable frames); page-table indices (511,510,1,0)"
    //@ obligation C09 C09.map_to_4kib.shape_p2_huge.allocator_requests tier=thorough bounded="pool of 7 tables (4 path + 3 allocatable); tree-shaped sparse pre-state (target path, one neighbour word per path table, garbage in allocatable frames); page-table indices (511,510,1,0)"
    //@ obligation C09 C09.map_to_4kib.shape_p2_huge.new_tables_zeroed_before_use tier=thorough bounded="pool of 7 tables (4 path + 3 allocatable); tree-shaped sparse pre-state (target path, one neighbour word per path table, garbage in allocatable frames); page-table indices (511,510,1,0)"
    //@ obligation C09 C09.map_to_4kib.shape_p2_huge.no_dangling_table_pointer tier=thorough bounded="pool of 7 tables (4 path + 3 allocatable); tree-shaped sparse pre-state (target path, one neighbour word per path table, garbage in allocatable frames); page-table indices (511,510,1,0)"
    //@ obligation C09 C09.map_to_4kib.shape_p2_huge.no_access_outside_page_tables tier=thorough bounded="pool of 7 tables (4 path + 3 allocatable); tree-shaped sparse pre-state (target path, one neighbour word per path table, garbage in allocatable frames); page-table indices (511,510,1,0)"
    #[kani::proof]
    #[kani::stub(PageTable::zero, zero_stub)]
    fn c01_map_to_4kib_p2_huge_hi() {
        map_to_step!(Size4KiB, "4kib", "p2_huge", P2_HUGE, IDX_HI);
        kani::cover!(true, "c01_map_to_4kib_p2_huge_hi: reachable");
    }

    //@ obligation C02 C02.map_to_4kib.shape_p2_huge.error_leaves_every_mapping tier=thorough bounded="pool of 7 tables (4 path + 3 allocatable); tree-shaped sparse pre-state (target path, one neighbour word per path table, garbage in allocatable frames); page-table indices (255,511,0,256)"
    //@ obligation C02 C02.map_to_4kib.shape_p2_huge.error_adds_at_most_parent_flags tier=thorough bounded="pool of 7 tables (4 path + 3 allocatable); tree-shaped sparse pre-state (target path, one neighbour word per path table, garbage in allocatable frames); page-table indices (255,511,0,256)"
    //@ obligation C02 C02.map_to_4kib.shape_p2_huge.huge_leaf_unchanged_on_error tier=thorough bounded="pool of 7 tables (4 path + 3 allocatable); tree-shaped sparse pre-state (target path, one neighbour word per path table, garbage in allocatable frames); page-table indices (255,511,0,256)"
    //@ obligation C02 C02.map_to_4kib.shape_p2_huge.documented_outcome tier=thorough bounded="pool of 7 tables (4 path + 3 allocatable); tree-shaped sparse pre-state (target path, one neighbour word per path table, garbage in allocatable frames); page-table indices (255,511,0,256)"
    //@ obligation C01 C01.map_to_4kib.shape_p2_huge.translate_agrees_after tier=thorough bounded="pool of 7 tables (4 path + 3 allocatable); tree-shaped sparse pre-state (target path, one neighbour word per path table, garbage in allocatable frames); page-table indices (255,511,0,256)"
    //@ obligation C09 C09.map_to_4kib.shape_p2_huge.only_dictated_slots_change tier=thorough bounded="pool of 7 tables (4 path + 3 allocatable); tree-shaped sparse pre-state (target path, one neighbour word per path table, garbage in allocatable frames); page-table indices (255,511,0,256)"
    //@ obligation C09 C09.map_to_4kib.shape_p2_huge.allocator_requests tier=thorough bounded="pool of 7 tables (4 path + 3 allocatable); tree-shaped sparse pre-state (target path, one neighbour word per path table, garbage in allocatable frames); page-table indices (255,511,0,256)"
    //@ obligation C09 C09.map_to_4kib.shape_p2_huge.new_tables_zeroed_before_use tier=thorough bounded="pool of 7 tables (4 path + 3 allocatable); tree-shaped sparse pre-state (target path, one neighbour word per path table, garbage in allocatable frames); page-table indices (255,511,0,256)"
    //@ obligation C09 C09.map_to_4kib.shape_p2_huge.no_dangling_table_pointer tier=thorough bounded="pool of 7 tables (4 path + 3 allocatable); tree-shaped sparse pre-state (target path, one neighbour word per path table, garbage in allocatable frames); page-table indices (255,511,0,256)"
    //@ obligation C09 C09.map_to_4kib.shape_p2_huge.no_access_outside_page_tables tier=thorough bounded="pool of 7 tables (4 path + 3 allocatable); tree-shaped sparse pre-state (target path, one neighbour word per path table, garbage in allocatable frames); page-table indices (255,511,0,256)"
    #[kani::proof]
    #[kani::stub(PageTable::zero, zero_stub)]
    fn c01_map_to_4kib_p2_huge_mid() {
        map_to_step!(Size4KiB, "4kib", "p2_huge", P2_HUGE, IDX_MID);
        kani::cover!(true, "c01_map_to_4kib_p2_huge_mid: reachable");
    }

    //@ obligation C02 C02.map_to_4kib.shape_p2_huge.error_leaves_every_mapping bounded="pool of 7 tables (4 path + 3 allocatable); tree-shaped sparse pre-state (target path, one neighbour word per path table, garbage in allocatable frames); page-table indices (256,0,510,511)"
    //@ obligation C02 C02.map_to_4kib.shape_p2_huge.error_adds_at_most_parent_flags bounded="pool of 7 tables (4 path + 3 allocatable); tree-shaped sparse pre-state (target path, one neighbour word per path table, garbage in allocatable frames); page-table indices (256,0,510,511)"
    //@ obligation C02 C02.map_to_4kib.shape_p2_huge.huge_leaf_unchanged_on_error bounded="pool of 7 tables (4 path + 3 allocatable); tree-shaped sparse pre-state (target path, one neighbour word per path table, garbage in allocatable frames); page-table indices (256,0,510,511)"
    //@ obligation C02 C02.map_to_4kib.shape_p2_huge.documented_outcome bounded="pool of 7 tables (4 path + 3 allocatable); tree-shaped sparse pre-state (target path, one neighbour word per path table, garbage in allocatable frames); page-table indices (256,0,510,511)"
    //@ obligation C01 C01.map_to_4kib.shape_p2_huge.translate_agrees_after bounded="pool of 7 tables (4 path + 3 allocatable); tree-shaped sparse pre-state (target path, one neighbour word per path table, garbage in allocatable frames); page-table indices (256,0,510,511)"
    //@ obligation C09 C09.map_to_4kib.shape_p2_huge.only_dictated_slots_change bounded="pool of 7 tables (4 path + 3 allocatable); tree-shaped sparse pre-state (target path, one neighbour word per path table, garbage in allocatable frames); page-table indices (256,0,510,511)"
    //@ obligation C09 C09.map_to_4kib.shape_p2_huge.allocator_requests bounded="pool of 7 tables (4 path + 3 allocatable); tree-shaped sparse pre-state (target path, one neighbour word per path table, garbage in allocatable frames); page-table indices (256,0,510,511)"
    //@ obligation C09 C09.map_to_4kib.shape_p2_huge.new_tables_zeroed_before_use bounded="pool of 7 tables (4 path + 3 allocatable); tree-shaped sparse pre-state (target path, one neighbour word per path table, garbage in allocatable frames); page-table indices (256,0,510,511)"
    //@ obligation C09 C09.map_to_4kib.shape_p2_huge.no_dangling_table_pointer bounded="pool of 7 tables (4 path + 3 allocatable); tree-shaped sparse pre-state (target path, one neighbour word per path table, garbage in allocatable frames); page-table indices (256,0,510,511)"
    //@ obligation C09 C09.map_to_4kib.shape_p2_huge.no_access_outside_page_tables bounded="pool of 7 tables (4 path + 3 allocatable); tree-shaped sparse pre-state (target path, one neighbour word per path table, garbage in allocatable frames); page-table indices (256,0,510,511)"
    #[kani::proof]
    #[kani::stub(PageTable::zero, zero_stub)]
    fn c01_map_to_4kib_p2_huge_up() {
        map_to_step!(Size4KiB, "4kib", "p2_huge", P2_HUGE, IDX_UP);
        kani::cover!(true, "c01_map_to_4kib_p2_huge_up: reachable");
    }

    //@ obligation C02 C02.map_to_4kib.shape_p1_leaf.error_leaves_every_mapping tier=thorough bounded="pool of 7 tables (4 path + 3 allocatable); tree-shaped sparse pre-state (target path, one neighbour word per path table, garbage in allocatable frames); page-table indices (0,1,511,2)"
    //@ obligation C02 C02.map_to_4kib.shape_p1_leaf.error_adds_at_most_parent_flags tier=thorough bounded="pool of 7 tables (4 path + 3 allocatable); tree-shaped sparse pre-state (target path, one neighbour word per path table, garbage in allocatable frames); page-table indices (0,1,511,2)"
    //@ obligation C01 C01.map_to_4kib.shape_p1_leaf.result_reports_frame tier=thorough bounded="pool of 7 tables (4 path + 3 allocatable); tree-shaped sparse pre-state (target path, one neighbour word per path table, garbage in allocatable frames); page-table indices (0,1,511,2)"
    //@ obligation C02 C02.map_to_4kib.shape_p1_leaf.documented_outcome tier=thorough bounded="pool of 7 tables (4 path + 3 allocatable); tree-shaped sparse pre-state (target path, one neighbour word per path table, garbage in allocatable frames); page-table indices (0,1,511,2)"
    //@ obligation C01 C01.map_to_4kib.shape_p1_leaf.translate_agrees_after tier=thorough bounded="pool of 7 tables (4 path + 3 allocatable); tree-shaped sparse pre-state (target path, one neighbour word per path table, garbage in allocatable frames); page-table indices (0,1,511,2)"
    //@ obligation C09 C09.map_to_4kib.shape_p1_leaf.only_dictated_slots_change tier=thorough bounded="pool of 7 tables (4 path + 3 allocatable); tree-shaped sparse pre-state (target path, one neighbour word per path table, garbage in allocatable frames); page-table indices (0,1,511,2)"
    //@ obligation C09 C09.map_to_4kib.shape_p1_leaf.allocator_requests tier=thorough bounded="pool of 7 tables (4 path + 3 allocatable); tree-shaped sparse pre-state (target path, one neighbour word per path table, garbage in allocatable frames); page-table indices (0,1,511,2)"
    //@ obligation C09 C09.map_to_4kib.shape_p1_leaf.new_tables_zeroed_before_use tier=thorough bounded="pool of 7 tables (4 path + 3 allocatable); tree-shaped sparse pre-state (target path, one neighbour word per path table, garbage in allocatable frames); page-table indices (0,1,511,2)"
    //@ obligation C09 C09.map_to_4kib.shape_p1_leaf.no_dangling_table_pointer tier=thorough bounded="pool of 7 tables (4 path + 3 allocatable); tree-shaped sparse pre-state (target path, one neighbour word per path table, garbage in allocatable frames); page-table indices (0,1,511,2)"
    //@ obligation C09 C09.map_to_4kib.shape_p1_leaf.no_access_outside_page_tables tier=thorough bounded="pool of 7 tables (4 path + 3 allocatable); tree-shaped sparse pre-state (target path, one neighbour word per path table, garbage in allocatable frames); page-table indices (0,1,511,2)"
    #[kani::proof]
    #[kani::stub(PageTable::zero, zero_stub)]
    fn c01_map_to_4kib_p1_leaf_lo() {
        map_to_step!(Size4KiB, "4kib", "p1_leaf", P1_LEAF, IDX_LO);
        kani::cover!(true, "c01_map_to_4kib_p1_leaf_lo: reachable");
    }

    //@ obligation C02 C02.map_to_4kib.shape_p1_leaf.error_leaves_every_mapping tier=thorough bounded="pool of 7 tables (4 path + 3 allocatable); tree-shaped sparse pre-state (target path, one neighbour word per path table, garbage in allocatable frames); page-table indices (511,510,1,0)"
    //@ obligation C02 C02.map_to_4kib.shape_p1_leaf.error_adds_at_most_parent_flags tier=thorough bounded="pool of 7 tables (4 path + 3 allocatable); tree-shaped sparse pre-state (target path, one neighbour word per path table, garbage in allocatable frames); page-table indices (511,510,1,0)"
    //@ obligation C01 C01.map_to_4kib.shape_p1_leaf.result_reports_frame tier=thorough bounded="pool of 7 tables (4 path + 3 allocatable); tree-shaped sparse pre-state (target path, one neighbour word per path table, garbage in allocatable frames); page-table indices (511,510,1,0)"
    //@ obligation C02 C02.map_to_4kib.shape_p1_leaf.documented_outcome tier=thorough bounded="pool of 7 tables (4 path + 3 allocatable); tree-shaped sparse pre-state (target path, one neighbour word per path table, garbage in allocatable frames); page-table indices (511,510,1,0)"
    //@ obligation C01 C01.map_to_4kib.shape_p1_leaf.translate_agrees_after tier=thorough bounded="pool of 7 tables (4 path + 3 allocatable); tree-shaped sparse pre-state (target path, one neighbour word per path table, garbage in allocatable frames); page-table indices (511,510,1,0)"
    //@ obligation C09 C09.map_to_4kib.shape_p1_leaf.only_dictated_slots_change tier=thorough bounded="pool of 7 tables (4 path + 3 allocatable); tree-shaped sparse pre-state (target path, one neighbour word per path table, garbage in allocatable frames); page-table indices (511,510,1,0)"
    //@ obligation C09 C09.map_to_4kib.shape_p1_leaf.allocator_requests tier=thorough bounded="pool of 7 tables (4 path + 3 allocatable); tree-shaped sparse pre-state (target path, one neighbour word per path table, garbage in allocatable frames); page-table indices (511,510,1,0)"
    //@ obligation C09 C09.map_to_4kib.shape_p1_leaf.new_tables_zeroed_before_use tier=thorough bounded="pool of 7 tables (4 path + 3 allocatable); tree-shaped sparse pre-state (target path, one neighbour word per path table, garbage in allocatable frames); page-table indices (511,510,1,0)"
    //@ obligation C09 C09.map_to_4kib.shape_p1_leaf.no_dangling_table_pointer tier=thorough bounded="pool of 7 tables (4 path + 3 allocatable); tree-shaped sparse pre-state (target path, one neighbour word per path table, garbage in allocatable frames); page-table indices (511,510,1,0)"
    //@ obligation C09 C09.map_to_4kib.shape_p1_leaf.no_access_outside_page_tables tier=thorough bounded="pool of 7 tables (4 path + 3 allocatable); tree-shaped sparse pre-state (target path, one neighbour word per path table, garbage in allocatable frames); page-table indices (511,510,1,0)"
    #[kani::proof]
    #[kani::stub(PageTable::zero, zero_stub)]
    fn c01_map_to_4kib_p1_leaf_hi() {
        map_to_step!(Size4KiB, "4kib", "p1_leaf", P1_LEAF, IDX_HI);
        kani::cover!(true, "c01_map_to_4kib_p1_leaf_hi: reachable");
    }

    //@ obligation C02 C02.map_to_4kib.shape_p1_leaf.error_leaves_every_mapping tier=thorough bounded="pool of 7 tables (4 path + 3 allocatable); tree-shaped sparse pre-state (target path, one neighbour word per path table, garbage in allocatable frames); page-table indices (255,511,0,256)"
    //@ obligation C02 C02.map_to_4kib.shape_p1_leaf.error_adds_at_most_parent_flags tier=thorough bounded="pool of 7 tables (4 path + 3 allocatable); tree-shaped sparse pre-state (target path, one neighbour word per path table, garbage in allocatable frames); page-table indices (255,511,0,256)"
    //@ obligation C01 C01.map_to_4kib.shape_p1_leaf.result_reports_frame tier=thorough bounded="pool of 7 tables (4 path + 3 allocatable); tree-shaped sparse pre-state (target path, one neighbour word per path table, garbage in allocatable frames); page-table indices (255,511,0,256)"
    //@ obligation C02 C02.map_to_4kib.shape_p1_leaf.documented_outcome tier=thorough bounded="pool of 7 tables (4 path + 3 allocatable); tree-shaped sparse pre-state (target path, one neighbour word per path table, garbage in allocatable frames); page-table indices (255,511,0,256)"
    //@ obligation C01 C01.map_to_4kib.shape_p1_leaf.translate_agrees_after tier=thorough bounded="pool of 7 tables (4 path + 3 allocatable); tree-shaped sparse pre-state (target path, one neighbour word per path table, garbage in allocatable frames); page-table indices (255,511,0,256)"
    //@ obligation C09 C09.map_to_4kib.shape_p1_leaf.only_dictated_slots_change tier=thorough bounded="pool of 7 tables (4 path + 3 allocatable); tree-shaped sparse pre-state (target path, one neighbour word per path table, garbage in allocatable frames); page-table indices (255,511,0,256)"
    //@ obligation C09 C09.map_to_4kib.shape_p1_leaf.allocator_requests tier=thorough bounded="pool of 7 tables (4 path + 3 allocatable); tree-shaped sparse pre-state (target path, one neighbour word per path table, garbage in allocatable frames); page-table indices (255,511,0,256)"
    //@ obligation C09 C09.map_to_4kib.shape_p1_leaf.new_tables_zeroed_before_use tier=thorough bounded="pool of 7 tables (4 path + 3 allocatable); tree-shaped sparse pre-state (target path, one neighbour word per path table, garbage in allocatable frames); page-table indices (255,511,0,256)"
    //@ obligation C09 C09.map_to_4kib.shape_p1_leaf.no_dangling_table_pointer tier=thorough bounded="pool of 7 tables (4 path + 3 allocatable); tree-shaped sparse pre-state (target path, one neighbour word per path table, garbage in allocatable frames); page-table indices (255,511,0,256)"
    //@ obligation C09 C09.map_to_4kib.shape_p1_leaf.no_access_outside_page_tables tier=thorough bounded="pool of 7 tables (4 path + 3 allocatable); tree-shaped sparse pre-state (target path, one neighbour word per path table, garbage in allocatable frames); page-table indices (255,511,0,256)"
    #[kani::proof]
    #[kani::stub(PageTable::zero, zero_stub)]
    fn c01_map_to_4kib_p1_leaf_mid() {
        map_to_step!(Size4KiB, "4kib", "p1_leaf", P1_LEAF, IDX_MID);
        kani::cover!(true, "c01_map_to_4kib_p1_leaf_mid: reachable");
    }

    //@ obligation C02 C02.map_to_4kib.shape_p1_leaf.error_leaves_every_mapping tier=thorough bounded="pool of 7 tables (4 path + 3 allocatable); tree-shaped sparse pre-state (target path, one neighbour word per path table, garbage in allocatable frames); page-table indices (256,0,510,511)"
    //@ obligation C02 C02.map_to_4kib.shape_p1_leaf.error_adds_at_most_parent_flags tier=thorough bounded="pool of 7 tables (4 path + 3 allocatable); tree-shaped sparse pre-state (target path, one neighbour word per path table, garbage in allocatable frames); page-table indices (256,0,510,511)"
    //@ obligation C01 C01.map_to_4kib.shape_p1_leaf.result_reports_frame tier=thorough bounded="pool of 7 tables (4 path + 3 allocatable); tree-shaped sparse pre-state (target path, one neighbour word per path table, garbage in allocatable frames); page-table indices (256,0,510,511)"
    //@ obligation C02 C02.map_to_4kib.shape_p1_leaf.documented_outcome tier=thorough bounded="pool of 7 tables (4 path + 3 allocatable); tree-shaped sparse pre-state (target path, one neighbour word per path table, garbage in allocatable frames); page-table indices (256,0,510,511)"
    //@ obligation C01 C01.map_to_4kib.shape_p1_leaf.translate_agrees_after tier=thorough bounded="pool of 7 tables (4 path + 3 allocatable); tree-shaped sparse pre-state (target path, one neighbour word per path table, garbage in allocatable frames); page-table indices (256,0,510,511)"
    //@ obligation C09 C09.map_to_4kib.shape_p1_leaf.only_dictated_slots_change tier=thorough bounded="pool of 7 tables (4 path + 3 allocatable); tree-shaped sparse pre-state (target path, one neighbour word per path table, garbage in allocatable frames); page-table indices (256,0,510,511)"
    //@ obligation C09 C09.map_to_4kib.shape_p1_leaf.allocator_requests tier=thorough bounded="pool of 7 tables (4 path + 3 allocatable); tree-shaped sparse pre-state (target path, one neighbour word per path table, garbage in allocatable frames); page-table indices (256,0,510,511)"
    //@ obligation C09 C09.map_to_4kib.shape_p1_leaf.new_tables_zeroed_before_use tier=thorough bounded="pool of 7 tables (4 path + 3 allocatable); tree-shaped sparse pre-state (target path, one neighbour word per path table, garbage in allocatable frames); page-table indices (256,0,510,511)"
    //@ obligation C09 C09.map_to_4kib.shape_p1_leaf.no_dangling_table_pointer tier=thorough bounded="pool of 7 tables (4 path + 3 allocatable); tree-shaped sparse pre-state (target path, one neighbour word per path table, garbage in allocatable frames); page-table indices (256,0,510,511)"
    //@ obligation C09 C09.map_to_4kib.shape_p1_leaf.no_access_outside_page_tables tier=thorough bounded="pool of 7 tables (4 path + 3 allocatable); tree-shaped sparse pre-state (target path, one neighbour word per path table, garbage in allocatable frames); page-table indices (256,0,510,511)"
    #[kani::proof]
    #[kani::stub(PageTable::zero, zero_stub)]
    fn c01_map_to_4kib_p1_leaf_up() {
        map_to_step!(Size4KiB, "4kib", "p1_leaf", P1_LEAF, IDX_UP);
        kani::cover!(true, "c01_map_to_4kib_p1_leaf_up: reachable");
    }

    //@ obligation C01 C01.map_to_2mib.shape_p4_absent.target_translates_to_frame tier=thorough bounded="pool of 7 tables (4 path + 3 allocatable); tree-shaped sparse pre-state (target path, one neighbour word per path table, garbage in allocatable frames); page-table indices (0,1,511,2)"
    //@ obligation C11 C11.map_to_2mib.shape_p4_absent.target_translates_to_frame tier=thorough bounded="pool of 7 tables (4 path + 3 allocatable); tree-shaped sparse pre-state (target path, one neighbour word per path table, garbage in allocatable frames); page-table indices (0,1,511,2)"
    //@ obligation C01 C01.map_to_2mib.shape_p4_absent.target_leaf_flags tier=thorough bounded="pool of 7 tables (4 path + 3 allocatable); tree-shaped sparse pre-state (target path, one neighbour word per path table, garbage in allocatable frames); page-table indices (0,1,511,2)"
    //@ obligation C11 C11.map_to_2mib.shape_p4_absent.target_leaf_flags tier=thorough bounded="pool of 7 tables (4 path + 3 allocatable); tree-shaped sparse pre-state (target path, one neighbour word per path table, garbage in allocatable frames); page-table indices (0,1,511,2)"
    //@ obligation C01 C01.map_to_2mib.shape_p4_absent.parent_rights_include_requested tier=thorough bounded="pool of 7 tables (4 path + 3 allocatable); tree-shaped sparse pre-state (target path, one neighbour word per path table, garbage in allocatable frames); page-table indices (0,1,511,2)"
    //@ obligation C01 C01.map_to_2mib.shape_p4_absent.other_addresses_unchanged tier=thorough bounded="pool of 7 tables (4 path + 3 allocatable); tree-shaped sparse pre-state (target path, one neighbour word per path table, garbage in allocatable frames); page-table indices (0,1,511,2)"
    //@ obligation C11 C11.map_to_2mib.shape_p4_absent.other_addresses_unchanged tier=thorough bounded="pool of 7 tables (4 path + 3 allocatable); tree-shaped sparse pre-state (target path, one neighbour word per path table, garbage in allocatable frames); page-table indices (0,1,511,2)"
    //@ obligation C01 C01.map_to_2mib.shape_p4_absent.result_reports_page tier=thorough bounded="pool of 7 tables (4 path + 3 allocatable); tree-shaped sparse pre-state (target path, one neighbour word per path table, garbage in allocatable frames); page-table indices (0,1,511,2)"
    //@ obligation C11 C11.map_to_2mib.shape_p4_absent.token_names_page tier=thorough bounded="pool of 7 tables (4 path + 3 allocatable); tree-shaped sparse pre-state (target path, one neighbour word per path table, garbage in allocatable frames); page-table indices (0,1,511,2)"
    //@ obligation C02 C02.map_to_2mib.shape_p4_absent.error_leaves_every_mapping tier=thorough bounded="pool of 7 tables (4 path + 3 allocatable); tree-shaped sparse pre-state (target path, one neighbour word per path table, garbage in allocatable frames); page-table indices (0,1,511,2)"
    //@ obligation C02 C02.map_to_2mib.shape_p4_absent.error_adds_at_most_parent_flags tier=thorough bounded="pool of 7 tables (4 path + 3 allocatable); tree-shaped sparse pre-state (target path, one neighbour word per path table, garbage in allocatable frames); page-table indices (0,1,511,2)"
    //@ obligation C02 C02.map_to_2mib.shape_p4_absent.documented_outcome tier=thorough bounded="pool of 7 tables (4 path + 3 allocatable); tree-shaped sparse pre-state (target path, one neighbour word per path table, garbage in allocatable frames); page-table indices (0,1,511,2)"
    //@ obligation C01 C01.map_to_2mib.shape_p4_absent.translate_agrees_after tier=thorough bounded="pool of 7 tables (4 path + 3 allocatable); tree-shaped sparse pre-state (target path, one neighbour word per path table, garbage in allocatable frames); page-table indices (0,1,511,2)"
    //@ obligation C09 C09.map_to_2mib.shape_p4_absent.only_dictated_slots_change tier=thorough bounded="pool of 7 tables (4 path + 3 allocatable); tree-shaped sparse pre-state (target path, one neighbour word per path table, garbage in allocatable frames); page-table indices (0,1,511,2)"
    //@ obligation C09 C09.map_to_2mib.shape_p4_absent.allocator_requests tier=thorough bounded="pool of 7 tables (4 path + 3 allocatable); tree-shaped sparse pre-state (target path, one neighbour word per path table, garbage in allocatable frames); page-table indices (0,1,511,2)"
    //@ obligation C09 C09.map_to_2mib.shape_p4_absent.new_tables_zeroed_before_use tier=thorough bounded="pool of 7 tables (4 path + 3 allocatable); tree-shaped sparse pre-state (target path, one neighbour word per path table, garbage in allocatable frames); page-table indices (0,1,511,2)"
    //@ obligation C09 C09.map_to_2mib.shape_p4_absent.no_dangling_table_pointer tier=thorough bounded="pool of 7 tables (4 path + 3 allocatable); tree-shaped sparse pre-state (target path, one neighbour word per path table, garbage in allocatable frames); page-table indices (0,1,511,2)"
    //@ obligation C09 C09.map_to_2mib.shape_p4_absent.no_access_outside_page_tables tier=thorough bounded="pool of 7 tables (4 path + 3 allocatable); tree-shaped sparse pre-state (target path, one neighbour word per path table, garbage in allocatable frames); page-table indices (0,1,511,2)"
    #[kani::proof]
    #[kani::stub(PageTable::zero, zero_stub)]
    fn c01_map_to_2mib_p4_absent_lo() {
        map_to_step!(Size2MiB, "2mib", "p4_absent", P4_ABSENT, IDX_LO);
        kani::cover!(true, "c01_map_to_2mib_p4_absent_lo: reachable");
    }

    //@ obligation C01 C01.map_to_2mib.shape_p4_absent.target_translates_to_frame tier=thorough bounded="pool of 7 tables (4 path + 3 allocatable); tree-shaped sparse pre-state (target path, one neighbour word per path table, garbage in allocatable frames); page-table indices (511,510,1,0)"
    //@ obligation C11 C11.map_to_2mib.shape_p4_absent.target_translates_to_frame tier=thorough bounded="pool of 7 tables (4 path + 3 allocatable); tree-shaped sparse pre-state (target path, one neighbour word per path table, garbage in allocatable frames); page-table indices (511,510,1,0)"
    //@ obligation C01 C01.map_to_2mib.shape_p4_absent.target_leaf_flags tier=thorough bounded="pool of 7 tables (4 path + 3 allocatable); tree-shaped sparse pre-state (target path, one neighbour word per path table, garbage in allocatable frames); page-table indices (511,510,1,0)"
    //@ obligation C11 C11.map_to_2mib.shape_p4_absent.target_leaf_flags tier=thorough bounded="pool of 7 tables (4 path + 3 allocatable); tree-shaped sparse pre-state (target path, one neighbour word per path table, garbage in allocatable frames); page-table indices (511,510,1,0)"
    //@ obligation C01 C01.map_to_2mib.shape_p4_absent.parent_rights_include_requested tier=thorough bounded="pool of 7 tables (4 path + 3 allocatable); tree-shaped sparse pre-state (target path, one neighbour word per path table, garbage in allocatable frames); page-table indices (511,510,1,0)"
    //@ obligation C01 C01.map_to_2mib.shape_p4_absent.other_addresses_unchanged tier=thorough bounded="pool of 7 tables (4 path + 3 allocatable); tree-shaped sparse pre-state (target path, one neighbour word per path table, garbage in allocatable frames); page-table indices (511,510,1,0)"
    //@ obligation C11 C11.map_to_2mib.shape_p4_absent.other_addresses_unchanged tier=thorough bounded="pool of 7 tables (4 path + 3 allocatable); tree-shaped sparse pre-state (target path, one neighbour word per path table, garbage in allocatable frames); page-table indices (511,510,1,0)"
    //@ obligation C01 C01.map_to_2mib.shape_p4_absent.result_reports_page tier=thorough bounded="pool of 7 tables (4 path + 3 allocatable); tree-shaped sparse pre-state (target path, one neighbour word per path table, garbage in allocatable frames); page-table indices (511,510,1,0)"
    //@ obligation C11 C11.map_to_2mib.shape_p4_absent.token_names_page tier=thorough bounded="pool of 7 tables (4 path + 3 allocatable); tree-shaped sparse pre-state (target path, one neighbour word per path table, garbage in allocatable frames); page-table indices (511,510,1,0)"
    //@ obligation C02 C02.map_to_2mib.shape_p4_absent.error_leaves_every_mapping tier=thorough bounded="pool of 7 tables (4 path + 3 allocatable); tree-shaped sparse pre-state (target path, one neighbour word per path table, garbage in allocatable frames); page-table indices (511,510,1,0)"
    //@ obligation C02 C02.map_to_2mib.shape_p4_absent.error_adds_at_most_parent_flags tier=thorough bounded="pool of 7 tables (4 path + 3 allocatable); tree-shaped sparse pre-state (target path, one neighbour word per path table, garbage in allocatable frames); page-table indices (511,510,1,0)"
    //@ obligation C02 C02.map_to_2mib.shape_p4_absent.documented_outcome tier=thorough bounded="pool of 7 tables (4 path + 3 allocatable); tree-shaped sparse pre-state (target path, one neighbour word per path table, garbage in allocatable frames); page-table indices (511,510,1,0)"
    //@ obligation C01 C01.map_to_2mib.shape_p4_absent.translate_agrees_after tier=thorough bounded="pool of 7 tables (4 path + 3 allocatable); tree-shaped sparse pre-state (target path, one neighbour word per path table, garbage in allocatable frames); page-table indices (511,510,1,0)"
    //@ obligation C09 C09.map_to_2mib.shape_p4_absent.only_dictated_slots_change tier=thorough bounded="pool of 7 tables (4 path + 3 allocatable); tree-shaped sparse pre-state (target path, one neighbour word per path table, garbage in allocatable frames); page-table indices (511,510,1,0)"
    //@ obligation C09 C09.map_to_2mib.shape_p4_absent.allocator_requests tier=thorough bounded="pool of 7 tables (4 path + 3 allocatable); tree-shaped sparse pre-state (target path, one neighbour word per path table, garbage in allocatable frames); page-table indices (511,510,1,0)"
    //@ obligation C09 C09.map_to_2mib.shape_p4_absent.new_tables_zeroed_before_use tier=thorough bounded="pool of 7 tables (4 path + 3 allocatable); tree-shaped sparse pre-state (target path, one neighbour word per path table, garbage in allocatable frames); page-table indices (511,510,1,0)"
    //@ obligation C09 C09.map_to_2mib.shape_p4_absent.no_dangling_table_pointer tier=thorough bounded="pool of 7 tables (4 path + 3 allocatable); tree-shaped sparse pre-state (target path, one neighbour word per path table, garbage in allocatable frames); page-table indices (511,510,1,0)"
    //@ obligation C09 C09.map_to_2mib.shape_p4_absent.no_access_outside_page_tables tier=thorough bounded="pool of 7 tables (4 path + 3 allocatable); tree-shaped sparse pre-state (target path, one neighbour word per path table, garbage in allocatable frames); page-table indices (511,510,1,0)"
    #[kani::proof]
    #[kani::stub(PageTable::zero, zero_stub)]
    fn c01_map_to_2mib_p4_absent_hi() {
        map_to_step!(Size2MiB, "2mib", "p4_absent", P4_ABSENT, IDX_HI);
        kani::cover!(true, "c01_map_to_2mib_p4_absent_hi: reachable");
    }

    //@ obligation C01 C01.map_to_2mib.shape_p4_absent.target_translates_to_frame tier=thorough bounded="pool of 7 tables (4 path + 3 allocatable); tree-shaped sparse pre-state (target path, one neighbour word per path table, garbage in allocatable frames); page-table indices (255,511,0,256)"
    //@ obligation C11 C11.map_to_2mib.shape_p4_absent.target_translates_to_frame tier=thorough bounded="pool of 7 tables (4 path + 3 allocatable); tree-shaped sparse pre-state (target path, one neighbour word per path table, garbage in allocatable frames); page-table indices (255,511,0,256)"
    //@ obligation C01 C01.map_to_2mib.shape_p4_absent.target_leaf_flags tier=thorough bounded="pool of 7 tables (4 path + 3 allocatable); tree-shaped sparse pre-state (target path, one neighbour word per path table, garbage in allocatable frames); page-table indices (255,511,0,256)"
    //@ obligation C11 C11.map_to_2mib.shape_p4_absent.target_leaf_flags tier=thorough bounded="pool of 7 tables (4 path + 3 allocatable); tree-shaped sparse pre-state (target path, one neighbour word per path table, garbage in allocatable frames); page-table indices (255,511,0,256)"
    //@ obligation C01 C01.map_to_2mib.shape_p4_absent.parent_rights_include_requested tier=thorough bounded="pool of 7 tables (4 path + 3 allocatable); tree-shaped sparse pre-state (target path, one neighbour word per path table, garbage in allocatable frames); page-table indices (255,511,0,256)"
    //@ obligation C01 C01.map_to_2mib.shape_p4_absent.other_addresses_unchanged tier=thorough bounded="pool of 7 tables (4 path + 3 allocatable); tree-shaped sparse pre-state (target path, one neighbour word per path table, garbage in allocatable frames); page-table indices (255,511,0,256)"
    //@ obligation C11 C11.map_to_2mib.shape_p4_absent.other_addresses_unchanged tier=thorough bounded="pool of 7 tables (4 path + 3 allocatable); tree-shaped sparse pre-state (target path, one neighbour word per path table, garbage in allocatable frames); page-table indices (255,511,0,256)"
    //@ obligation C01 C01.map_to_2mib.shape_p4_absent.result_reports_page tier=thorough bounded="pool of 7 tables (4 path + 3 allocatable); tree-shaped sparse pre-state (target path, one neighbour word per path table, garbage in allocatable frames); page-table indices (255,511,0,256)"
    //@ obligation C11 C11.map_to_2mib.shape_p4_absent.token_names_page tier=thorough bounded="pool of 7 tables (4 path + 3 allocatable); tree-shaped sparse pre-state (target path, one neighbour word per path table, garbage in allocatable frames); page-table indices (255,511,0,256)"
    //@ obligation C02 C02.map_to_2mib.shape_p4_absent.error_leaves_every_mapping tier=thorough bounded="pool of 7 tables (4 path + 3 allocatable); tree-shaped sparse pre-state (target path, one neighbour word per path table, garbage in allocatable frames); page-table indices (255,511,0,256)"
    //@ obligation C02 C02.map_to_2mib.shape_p4_absent.error_adds_at_most_parent_flags tier=thorough bounded="pool of 7 tables (4 path + 3 allocatable); tree-shaped sparse pre-state (target path, one neighbour word per path table, garbage in allocatable frames); page-table indices (255,511,0,256)"
    //@ obligation C02 C02.map_to_2mib.shape_p4_absent.documented_outcome tier=thorough bounded="pool of 7 tables (4 path + 3 allocatable); tree-shaped sparse pre-state (target path, one neighbour word per path table, garbage in allocatable frames); page-table indices (255,511,0,256)"
    //@ obligation C01 C01.map_to_2mib.shape_p4_absent.translate_agrees_after tier=thorough bounded="pool of 7 tables (4 path + 3 allocatable); tree-shaped sparse pre-state (target path, one neighbour word per path table, garbage in allocatable frames); page-table indices (255,511,0,256)"
    //@ obligation C09 C09.map_to_2mib.shape_p4_absent.only_dictated_slots_change tier=thorough bounded="pool of 7 tables (4 path + 3 allocatable); tree-shaped sparse pre-state (target path, one neighbour word per path table, garbage in allocatable frames); page-table indices (255,511,0,256)"
    //@ obligation C09 C09.map_to_2mib.shape_p4_absent.allocator_requests tier=thorough bounded="pool of 7 tables (4 path + 3 allocatable); tree-shaped sparse pre-state (target path, one neighbour word per path table, garbage in allocatable frames); page-table indices (255,511,0,256)"
    //@ obligation C09 C09.map_to_2mib.shape_p4_absent.new_tables_zeroed_before_use tier=thorough bounded="pool of 7 tables (4 path + 3 allocatable); tree-shaped sparse pre-state (target path, one neighbour word per path table, garbage in allocatable frames); page-table indices (255,511,0,256)"
    //@ obligation C09 C09.map_to_2mib.shape_p4_absent.no_dangling_table_pointer tier=thorough bounded="pool of 7 tables (4 path + 3 allocatable); tree-shaped sparse pre-state (target path, one neighbour word per path table, garbage in allocatable frames); page-table indices (255,511,0,256)"
    //@ obligation C09 C09.map_to_2mib.shape_p4_absent.no_access_outside_page_tables tier=thorough bounded="pool of 7 tables (4 path + 3 allocatable); tree-shaped sparse pre-state (target path, one neighbour word per path table, garbage in allocatable frames); page-table indices (255,511,0,256)"
    #[kani::proof]
    #[kani::stub(PageTable::zero, zero_stub)]
    fn c01_map_to_2mib_p4_absent_mid() {
        map_to_step!(Size2MiB, "2mib", "p4_absent", P4_ABSENT, IDX_MID);
        kani::cover!(true, "c01_map_to_2mib_p4_absent_mid: reachable");
    }

    //@ obligation C01 C01.map_to_2mib.shape_p4_absent.target_translates_to_frame tier=thorough bounded="pool of 7 tables (4 path + 3 allocatable); tree-shaped sparse pre-state (target path, one neighbour word per path table, garbage in allocatable frames); page-table indices (256,0,510,511)"
    //@ obligation C11 C11.map_to_2mib.shape_p4_absent.target_translates_to_frame tier=thorough bounded="pool of 7 tables (4 path + 3 allocatable); tree-shaped sparse pre-state (target path, one neighbour word per path table, garbage in allocatable frames); page-table indices (256,0,510,511)"
    //@ obligation C01 C01.map_to_2mib.shape_p4_absent.target_leaf_flags tier=thorough bounded="pool of 7 tables (4 path + 3 allocatable); tree-shaped sparse pre-state (target path, one neighbour word per path table, garbage in allocatable frames); page-table indices (256,0,510,511)"
    //@ obligation C11 C11.map_to_2mib.shape_p4_absent.target_leaf_flags tier=thorough bounded="pool of 7 tables (4 path + 3 allocatable); tree-shaped sparse pre-state (target path, one neighbour word per path table, garbage in allocatable frames); page-table indices (256,0,510,511)"
    //@ obligation C01 C01.map_to_2mib.shape_p4_absent.parent_rights_include_requested tier=thorough bounded="pool of 7 tables (4 path + 3 allocatable); tree-shaped sparse pre-state (target path, one neighbour word per path table, garbage in allocatable frames); page-table indices (256,0,510,511)"
    //@ obligation C01 C01.map_to_2mib.shape_p4_absent.other_addresses_unchanged tier=thorough bounded="pool of 7 tables (4 path + 3 allocatable); tree-shaped sparse pre-state (target path, one neighbour word per path table, garbage in allocatable frames); page-table indices (256,0,510,511)"
    //@ obligation C11 C11.map_to_2mib.shape_p4_absent.other_addresses_unchanged tier=thorough bounded="pool of 7 tables (4 path + 3 allocatable); tree-shaped sparse pre-state (target path, one neighbour word per path table, garbage in allocatable frames); page-table indices (256,0,510,511)"
    //@ obligation C01 C01.map_to_2mib.shape_p4_absent.result_reports_page tier=thorough bounded="pool of 7 tables (4 path + 3 allocatable); tree-shaped sparse pre-state (target path, one neighbour word per path table, garbage in allocatable frames); page-table indices (256,0,510,511)"
    //@ obligation C11 C11.map_to_2mib.shape_p4_absent.token_names_page tier=thorough bounded="pool of 7 tables (4 path + 3 allocatable); tree-shaped sparse pre-state (target path, one neighbour word per path table, garbage in allocatable frames); page-table indices (256,0,510,511)"
    //@ obligation C02 C02.map_to_2mib.shape_p4_absent.error_leaves_every_mapping tier=thorough bounded="pool of 7 tables (4 path + 3 allocatable); tree-shaped sparse pre-state (target path, one neighbour word per path table, garbage in allocatable frames); page-table indices (256,0,510,511)"
    //@ obligation C02 C02.map_to_2mib.shape_p4_absent.error_adds_at_most_parent_flags tier=thorough bounded="pool of 7 tables (4 path + 3 allocatable); tree-shaped sparse pre-state (target path, one neighbour word per path table, garbage in allocatable frames); page-table indices (256,0,510,511)"
    //@ obligation C02 C02.map_to_2mib.shape_p4_absent.documented_outcome tier=thorough bounded="pool of 7 tables (4 path + 3 allocatable); tree-shaped sparse pre-state (target path, one neighbour word per path table, garbage in allocatable frames); page-table indices (256,0,510,511)"
    //@ obligation C01 C01.map_to_2mib.shape_p4_absent.translate_agrees_after tier=thorough bounded="pool of 7 tables (4 path + 3 allocatable); tree-shaped sparse pre-state (target path, one neighbour word per path table, garbage in allocatable frames); page-table indices (256,0,510,511)"
    //@ obligation C09 C09.map_to_2mib.shape_p4_absent.only_dictated_slots_change tier=thorough bounded="pool of 7 tables (4 path + 3 allocatable); tree-shaped sparse pre-state (target path, one neighbour word per path table, garbage in allocatable frames); page-table indices (256,0,510,511)"
    //@ obligation C09 C09.map_to_2mib.shape_p4_absent.allocator_requests tier=thorough bounded="pool of 7 tables (4 path + 3 allocatable); tree-shaped sparse pre-state (target path, one neighbour word per path table, garbage in allocatable frames); page-table indices (256,0,510,511)"
    //@ obligation C09 C09.map_to_2mib.shape_p4_absent.new_tables_zeroed_before_use tier=thorough bounded="pool of 7 tables (4 path + 3 allocatable); tree-shaped sparse pre-state (target path, one neighbour word per path table, garbage in allocatable frames); page-table indices (256,0,510,511)"
    //@ obligation C09 C09.map_to_2mib.shape_p4_absent.no_dangling_table_pointer tier=thorough bounded="pool of 7 tables (4 path + 3 allocatable); tree-shaped sparse pre-state (target path, one neighbour word per path table, garbage in allocatable frames); page-table indices (256,0,510,511)"
    //@ obligation C09 C09.map_to_2mib.shape_p4_absent.no_access_outside_page_tables tier=thorough bounded="pool of 7 tables (4 path + 3 allocatable); tree-shaped sparse pre-state (target path, one neighbour word per path table, garbage in allocatable frames); page-table indices (256,0,510,511)"
    #[kani::proof]
    #[kani::stub(PageTable::zero, zero_stub)]
    fn c01_map_to_2mib_p4_absent_up() {
        map_to_step!(Size2MiB, "2mib", "p4_absent", P4_ABSENT, IDX_UP);
        kani::cover!(true, "c01_map_to_2mib_p4_absent_up: reachable");
    }

    //@ obligation C01 C01.map_to_2mib.shape_p3_absent.target_translates_to_frame tier=thorough bounded="pool of 7 tables (4 path + 3 allocatable); tree-shaped sparse pre-state (target path, one neighbour word per path table, garbage in allocatable frames); page-table indices (0,1,511,2)"
    //@ obligation C11 C11.map_to_2mib.shape_p3_absent.target_translates_to_frame tier=thorough bounded="pool of 7 tables (4 path + 3 allocatable); tree-shaped sparse pre-state (target path, one neighbour word per path table, garbage in allocatable frames); page-table indices (0,1,511,2)"
    //@ obligation C01 C01.map_to_2mib.shape_p3_absent.target_leaf_flags tier=thorough bounded="pool of 7 tables (4 path + 3 allocatable); tree-shaped sparse pre-state (target path, one neighbour word per path table, garbage in allocatable frames); page-table indices (0,1,511,2)"
    //@ obligation C11 C11.map_to_2mib.shape_p3_absent.target_leaf_flags tier=thorough bounded="pool of 7 tables (4 path + 3 allocatable); tree-shaped sparse pre-state (target path, one neighbour word per path table, garbage in allocatable frames); page-table indices (0,1,511,2)"
    //@ obligation C01 C01.map_to_2mib.shape_p3_absent.parent_rights_include_requested tier=thorough bounded="pool of 7 tables (4 path + 3 allocatable); tree-shaped sparse pre-state (target path, one neighbour word per path table, garbage in allocatable frames); page-table indices (0,1,511,2)"
    //@ obligation C01 C01.map_to_2mib.shape_p3_absent.other_addresses_unchanged tier=thorough bounded="pool of 7 tables (4 path + 3 allocatable); tree-shaped sparse pre-state (target path, one neighbour word per path table, garbage in allocatable frames); page-table indices (0,1,511,2)"
    //@ obligation C11 C11.map_to_2mib.shape_p3_absent.other_addresses_unchanged tier=thorough bounded="pool of 7 tables (4 path + 3 allocatable); tree-shaped sparse pre-state (target path, one neighbour word per path table, garbage in allocatable frames); page-table indices (0,1,511,2)"
    //@ obligation C01 C01.map_to_2mib.shape_p3_absent.result_reports_page tier=thorough bounded="pool of 7 tables (4 path + 3 allocatable); tree-shaped sparse pre-state (target path, one neighbour word per path table, garbage in allocatable frames); page-table indices (0,1,511,2)"
    //@ obligation C11 C11.map_to_2mib.shape_p3_absent.token_names_page tier=thorough bounded="pool of 7 tables (4 path + 3 allocatable); tree-shaped sparse pre-state (target path, one neighbour word per path table, garbage in allocatable frames); page-table indices (0,1,511,2)"
    //@ obligation C02 C02.map_to_2mib.shape_p3_absent.error_leaves_every_mapping tier=thorough bounded="pool of 7 tables (4 path + 3 allocatable); tree-shaped sparse pre-state (target path, one neighbour word per path table, garbage in allocatable frames); page-table indices (0,1,511,2)"
    //@ obligation C02 C02.map_to_2mib.shape_p3_absent.error_adds_at_most_parent_flags tier=thorough bounded="pool of 7 tables (4 path + 3 allocatable); tree-shaped sparse pre-state (target path, one neighbour word per path table, garbage in allocatable frames); page-table indices (0,1,511,2)"
    //@ obligation C02 C02.map_to_2mib.shape_p3_absent.documented_outcome tier=thorough bounded="pool of 7 tables (4 path + 3 allocatable); tree-shaped sparse pre-state (target path, one neighbour word per path table, garbage in allocatable frames); page-table indices (0,1,511,2)"
    //@ obligation C01 C01.map_to_2mib.shape_p3_absent.translate_agrees_after tier=thorough bounded="pool of 7 tables (4 path + 3 allocatable); tree-shaped sparse pre-state (target path, one neighbour word per path table, garbage in allocatable frames); page-table indices (0,1,511,2)"
    //@ obligation C09 C09.map_to_2mib.shape_p3_absent.only_dictated_slots_change tier=thorough bounded="pool of 7 tables (4 path + 3 allocatable); tree-shaped sparse pre-state (target path, one neighbour word per path table, garbage in allocatable frames); page-table indices (0,1,511,2)"
    //@ obligation C09 C09.map_to_2mib.shape_p3_absent.allocator_requests tier=thorough bounded="pool of 7 tables (4 path + 3 allocatable); tree-shaped sparse pre-state (target path, one neighbour word per path table, garbage in allocatable frames); page-table indices (0,1,511,2)"
    //@ obligation C09 C09.map_to_2mib.shape_p3_absent.new_tables_zeroed_before_use tier=thorough bounded="pool of 7 tables (4 path + 3 allocatable); tree-shaped sparse pre-state (target path, one neighbour word per path table, garbage in allocatable frames); page-table indices (0,1,511,2)"
    //@ obligation C09 C09.map_to_2mib.shape_p3_absent.no_dangling_table_pointer tier=thorough bounded="pool of 7 tables (4 path + 3 allocatable); tree-shaped sparse pre-state (target path, one neighbour word per path table, garbage in allocatable frames); page-table indices (0,1,511,2)"
    //@ obligation C09 C09.map_to_2mib.shape_p3_absent.no_access_outside_page_tables tier=thorough bounded="pool of 7 tables (4 path + 3 allocatable); tree-shaped sparse pre-state (target path, one neighbour word per path table, garbage in allocatable frames); page-table indices (0,1,511,2)"
    #[kani::proof]
    #[kani::stub(PageTable::zero, zero_stub)]
    fn c01_map_to_2mib_p3_absent_lo() {
        map_to_step!(Size2MiB, "2mib", "p3_absent", P3_ABSENT, IDX_LO);
        kani::cover!(true, "c01_map_to_2mib_p3_absent_lo: reachable");
    }

    //@ obligation C01 C01.map_to_2mib.shape_p3_absent.target_translates_to_frame tier=thorough bounded="pool of 7 tables (4 path + 3 allocatable); tree-shaped sparse pre-state (target path, one neighbour word per path table, garbage in allocatable frames); page-table indices (511,510,1,0)"
    //@ obligation C11 C11.map_to_2mib.shape_p3_absent.target_translates_to_frame tier=thorough bounded="pool of 7 tables (4 path + 3 allocatable); tree-shaped sparse pre-state (target path, one neighbour word per path table, garbage in allocatable frames); page-table indices (511,510,1,0)"
    //@ obligation C01 C01.map_to_2mib.shape_p3_absent.target_leaf_flags tier=thorough bounded="pool of 7 tables (4 path + 3 allocatable); tree-shaped sparse pre-state (target path, one neighbour word per path table, garbage in allocatable frames); page-table indices (511,510,1,0)"
    //@ obligation C11 C11.map_to_2mib.shape_p3_absent.target_leaf_flags tier=thorough bounded="pool of 7 tables (4 path + 3 allocatable); tree-shaped sparse pre-state (target path, one neighbour word per path table, garbage in allocatable frames); page-table indices (511,510,1,0)"
    //@ obligation C01 C01.map_to_2mib.shape_p3_absent.parent_rights_include_requested tier=thorough bounded="pool of 7 tables (4 path + 3 allocatable); tree-shaped sparse pre-state (target path, one neighbour word per path table, garbage in allocatable frames); page-table indices (511,510,1,0)"
    //@ obligation C01 C01.map_to_2mib.shape_p3_absent.other_addresses_unchanged tier=thorough bounded="pool of 7 tables (4 path + 3 allocatable); tree-shaped sparse pre-state (target path, one neighbour word per path table, garbage in allocatable frames); page-table indices (511,510,1,0)"
    //@ obligation C11 C11.map_to_2mib.shape_p3_absent.other_addresses_unchanged tier=thorough bounded="pool of 7 tables (4 path + 3 allocatable); tree-shaped sparse pre-state (target path, one neighbour word per path table, garbage in allocatable frames); page-table indices (511,510,1,0)"
    //@ obligation C01 C01.map_to_2mib.shape_p3_absent.result_reports_page tier=thorough bounded="pool of 7 tables (4 path + 3 allocatable); tree-shaped sparse pre-state (target path, one neighbour word per path table, garbage in allocatable frames); page-table indices (511,510,1,0)"
    //@ obligation C11 C11.map_to_2mib.shape_p3_absent.token_names_page tier=thorough bounded="pool of 7 tables (4 path + 3 allocatable); tree-shaped sparse pre-state (target path, one neighbour word per path table, garbage in allocatable frames); page-table indices (511,510,1,0)"
    //@ obligation C02 C02.map_to_2mib.shape_p3_absent.error_leaves_every_mapping tier=thorough bounded="pool of 7 tables (4 path + 3 allocatable); tree-shaped sparse pre-state (target path, one neighbour word per path table, garbage in allocatable frames); page-table indices (511,510,1,0)"
    //@ obligation C02 C02.map_to_2mib.shape_p3_absent.error_adds_at_most_parent_flags tier=thorough bounded="pool of 7 tables (4 path + 3 allocatable); tree-shaped sparse pre-state (target path, one neighbour word per path table, garbage in allocatable frames); page-table indices (511,510,1,0)"
    //@ obligation C02 C02.map_to_2mib.shape_p3_absent.documented_outcome tier=thorough bounded="pool of 7 tables (4 path + 3 allocatable); tree-shaped sparse pre-state (target path, one neighbour word per path table, garbage in allocatable frames); page-table indices (511,510,1,0)"
    //@ obligation C01 C01.map_to_2mib.shape_p3_absent.translate_agrees_after tier=thorough bounded="pool of 7 tables (4 path + 3 allocatable); tree-shaped sparse pre-state (target path, one neighbour word per path table, garbage in allocatable frames); page-table indices (511,510,1,0)"
    //@ obligation C09 C09.map_to_2mib.shape_p3_absent.only_dictated_slots_change tier=thorough bounded="pool of 7 tables (4 path + 3 allocatable); tree-shaped sparse pre-state (target path, one neighbour word per path table, garbage in allocatable frames); page-table indices (511,510,1,0)"
    //@ obligation C09 C09.map_to_2mib.shape_p3_absent.allocator_requests tier=thorough bounded="pool of 7 tables (4 path + 3 allocatable); tree-shaped sparse pre-state (target path, one neighbour word per path table, garbage in allocatable frames); page-table indices (511,510,1,0)"
    //@ obligation C09 C09.map_to_2mib.shape_p3_absent.new_tables_zeroed_before_use tier=thorough bounded="pool of 7 tables (4 path + 3 allocatable); tree-shaped sparse pre-state (target path, one neighbour word per path table, garbage in allocatable frames); page-table indices (511,510,1,0)"
    //@ obligation C09 C09.map_to_2mib.shape_p3_absent.no_dangling_table_pointer tier=thorough bounded="pool of 7 tables (4 path + 3 allocatable); tree-shaped sparse pre-state (target path, one neighbour word per path table, garbage in allocatable frames); page-table indices (511,510,1,0)"
    //@ obligation C09 C09.map_to_2mib.shape_p3_absent.no_access_outside_page_tables tier=thorough bounded="pool of 7 tables (4 path + 3 allocatable); tree-shaped sparse pre-state (target path, one neighbour word per path table, garbage in allocatable frames); page-table indices (511,510,1,0)"
    #[kani::proof]
    #[kani::stub(PageTable::zero, zero_stub)]
    fn c01_map_to_2mib_p3_absent_hi() {
        map_to_step!(Size2MiB, "2mib", "p3_absent", P3_ABSENT, IDX_HI);
        kani::cover!(true, "c01_map_to_2mib_p3_absent_hi: reachable");
    }

    //@ obligation C01 C01.map_to_2mib.shape_p3_absent.target_translates_to_frame tier=thorough bounded="pool of 7 tables (4 path + 3 allocatable); tree-shaped sparse pre-state (target path, one neighbour word per path table, garbage in allocatable frames); page-table indices (255,511,0,256)"
    //@ obligation C11 C11.map_to_2mib.shape_p3_absent.target_translates_to_frame tier=thorough bounded="pool of 7 tables (4 path + 3 allocatable); tree-shaped sparse pre-state (target path, one neighbour word per path table, garbage in allocatable frames); page-table indices (255,511,0,256)"
    //@ obligation C01 C01.map_to_2mib.shape_p3_absent.target_leaf_flags tier=thorough bounded="pool of 7 tables (4 path + 3 allocatable); tree-shaped sparse pre-state (target path, one neighbour word per path table, garbage in allocatable frames); page-table indices (255,511,0,256)"
    //@ obligation C11 C11.map_to_2mib.shape_p3_absent.target_leaf_flags tier=thorough bounded="pool of 7 tables (4 path + 3 allocatable); tree-shaped sparse pre-state (target path, one neighbour word per path table, garbage in allocatable frames); page-table indices (255,511,0,256)"
    //@ obligation C01 C01.map_to_2mib.shape_p3_absent.parent_rights_include_requested tier=thorough bounded="pool of 7 tables (4 path + 3 allocatable); tree-shaped sparse pre-state (target path, one neighbour word per path table, garbage in allocatable frames); page-table indices (255,511,0,256)"
    //@ obligation C01 C01.map_to_2mib.shape_p3_absent.other_addresses_unchanged tier=thorough bounded="pool of 7 tables (4 path + 3 allocatable); tree-shaped sparse pre-state (target path, one neighbour word per path table, garbage in allocatable frames); page-table indices (255,511,0,256)"
    //@ obligation C11 C11.map_to_2mib.shape_p3_absent.other_addresses_unchanged tier=thorough bounded="pool of 7 tables (4 path + 3 allocatable); tree-shaped sparse pre-state (target path, one neighbour word per path table, garbage in allocatable frames); page-table indices (255,511,0,256)"
    //@ obligation C01 C01.map_to_2mib.shape_p3_absent.result_reports_page tier=thorough bounded="pool of 7 tables (4 path + 3 allocatable); tree-shaped sparse pre-state (target path, one neighbour word per path table, garbage in allocatable frames); page-table indices (255,511,0,256)"
    //@ obligation C11 C11.map_to_2mib.shape_p3_absent.token_names_page tier=thorough bounded="pool of 7 tables (4 path + 3 allocatable); tree-shaped sparse pre-state (target path, one neighbour word per path table, garbage in allocatable frames); page-table indices (255,511,0,256)"
    //@ obligation C02 C02.map_to_2mib.shape_p3_absent.error_leaves_every_mapping tier=thorough bounded="pool of 7 tables (4 path + 3 allocatable); tree-shaped sparse pre-state (target path, one neighbour word per path table, garbage in allocatable frames); page-table indices (255,511,0,256)"
    //@ obligation C02 C02.map_to_2mib.shape_p3_absent.error_adds_at_most_parent_flags tier=thorough bounded="pool of 7 tables (4 path + 3 allocatable); tree-shaped sparse pre-state (target path, one neighbour word per path table, garbage in allocatable frames); page-table indices (255,511,0,256)"
    //@ obligation C02 C02.map_to_2mib.shape_p3_absent.documented_outcome tier=thorough bounded="pool of 7 tables (4 path + 3 allocatable); tree-shaped sparse pre-state (target path, one neighbour word per path table, garbage in allocatable frames); page-table indices (255,511,0,256)"
    //@ obligation C01 C01.map_to_2mib.shape_p3_absent.translate_agrees_after tier=thorough bounded="pool of 7 tables (4 path + 3 allocatable); tree-shaped sparse pre-state (target path, one neighbour word per path table, garbage in allocatable frames); page-table indices (255,511,0,256)"
    //@ obligation C09 C09.map_to_2mib.shape_p3_absent.only_dictated_slots_change tier=thorough bounded="pool of 7 tables (4 path + 3 allocatable); tree-shaped sparse pre-state (target path, one neighbour word per path table, garbage in allocatable frames); page-table indices (255,511,0,256)"
    //@ obligation C09 C09.map_to_2mib.shape_p3_absent.allocator_requests tier=thorough bounded="pool of 7 tables (4 path + 3 allocatable); tree-shaped sparse pre-state (target path, one neighbour word per path table, garbage in allocatable frames); page-table indices (255,511,0,256)"
    //@ obligation C09 C09.map_to_2mib.shape_p3_absent.new_tables_zeroed_before_use tier=thorough bounded="pool of 7 tables (4 path + 3 allocatable); tree-shaped sparse pre-state (target path, one neighbour word per path table, garbage in allocatable frames); page-table indices (255,511,0,256)"
    //@ obligation C09 C09.map_to_2mib.shape_p3_absent.no_dangling_table_pointer tier=thorough bounded="pool of 7 tables (4 path + 3 allocatable); tree-shaped sparse pre-state (target path, one neighbour word per path table, garbage in allocatable frames); page-table indices (255,511,0,256)"
    //@ obligation C09 C09.map_to_2mib.shape_p3_absent.no_access_outside_page_tables tier=thorough bounded="pool of 7 tables (4 path + 3 allocatable); tree-shaped sparse pre-state (target path, one neighbour word per path table, garbage in allocatable frames); page-table indices (255,511,0,256)"
    #[kani::proof]
    #[kani::stub(PageTable::zero, zero_stub)]
    fn c01_map_to_2mib_p3_absent_mid() {
        map_to_step!(Size2MiB, "2mib", "p3_absent", P3_ABSENT, IDX_MID);
        kani::cover!(true, "c01_map_to_2mib_p3_absent_mid: reachable");
    }

    //@ obligation C01 C01.map_to_2mib.shape_p3_absent.target_translates_to_frame bounded="pool of 7 tables (4 path + 3 allocatable); tree-shaped sparse pre-state (target path, one neighbour word per path table, garbage in allocatable frames); page-table indices (256,0,510,511)"
    //@ obligation C11 C11.map_to_2mib.shape_p3_absent.target_translates_to_frame bounded="pool of 7 tables (4 path + 3 allocatable); tree-shaped sparse pre-state (target path, one neighbour word per path table, garbage in allocatable frames); page-table indices (256,0,510,511)"
    //@ obligation C01 C01.map_to_2mib.shape_p3_absent.target_leaf_flags bounded="pool of 7 tables (4 path + 3 allocatable); tree-shaped sparse pre-state (target path, one neighbour word per path table, garbage in allocatable frames); page-table indices (256,0,510,511)"
    //@ obligation C11 C11.map_to_2mib.shape_p3_absent.target_leaf_flags bounded="pool of 7 tables (4 path + 3 allocatable); tree-shaped sparse pre-state (target path, one neighbour word per path table, garbage in allocatable frames); page-table indices (256,0,510,511)"
    //@ obligation C01 C01.map_to_2mib.shape_p3_absent.parent_rights_include_requested bounded="pool of 7 tables (4 path + 3 allocatable); tree-shaped sparse pre-state (target path, one neighbour word per path table, garbage in allocatable frames); page-table indices (256,0,510,511)"
    //@ obligation C01 C01.map_to_2mib.shape_p3_absent.other_addresses_unchanged bounded="pool of 7 tables (4 path + 3 allocatable); tree-shaped sparse pre-state (target path, one neighbour word per path table, garbage in allocatable frames); page-table indices (256,0,510,511)"
    //@ obligation C11 C11.map_to_2mib.shape_p3_absent.other_addresses_unchanged bounded="pool of 7 tables (4 path + 3 allocatable); tree-shaped sparse pre-state (target path, one neighbour word per path table, garbage in allocatable frames); page-table indices (256,0,510,511)"
    //@ obligation C01 C01.map_to_2mib.shape_p3_absent.result_reports_page bounded="pool of 7 tables (4 path + 3 allocatable); tree-shaped sparse pre-state (target path, one neighbour word per path table, garbage in allocatable frames); page-table indices (256,0,510,511)"
    //@ obligation C11 C11.map_to_2mib.shape_p3_absent.token_names_page bounded="pool of 7 tables (4 path + 3 allocatable); tree-shaped sparse pre-state (target path, one neighbour word per path table, garbage in allocatable frames); page-table indices (256,0,510,511)"
    //@ obligation C02 C02.map_to_2mib.shape_p3_absent.error_leaves_every_mapping bounded="pool of 7 tables (4 path + 3 allocatable); tree-shaped sparse pre-state (target path, one neighbour word per path table, garbage in allocatable frames); page-table indices (256,0,510,511)"
    //@ obligation C02 C02.map_to_2mib.shape_p3_absent.error_adds_at_most_parent_flags bounded="pool of 7 tables (4 path + 3 allocatable); tree-shaped sparse pre-state (target path, one neighbour word per path table, garbage in allocatable frames); page-table indices (256,0,510,511)"
    //@ obligation C02 C02.map_to_2mib.shape_p3_absent.documented_outcome bounded="pool of 7 tables (4 path + 3 allocatable); tree-shaped sparse pre-state (target path, one neighbour word per path table, garbage in allocatable frames); page-table indices (256,0,510,511)"
    //@ obligation C01 C01.map_to_2mib.shape_p3_absent.translate_agrees_after bounded="pool of 7 tables (4 path + 3 allocatable); tree-shaped sparse pre-state (target path, one neighbour word per path table, garbage in allocatable frames); page-table indices (256,0,510,511)"
    //@ obligation C09 C09.map_to_2mib.shape_p3_absent.only_dictated_slots_change bounded="pool of 7 tables (4 path + 3 allocatable); tree-shaped sparse pre-state (target path, one neighbour word per path table, garbage in allocatable frames); page-table indices (256,0,510,511)"
    //@ obligation C09 C09.map_to_2mib.shape_p3_absent.allocator_requests bounded="pool of 7 tables (4 path + 3 allocatable); tree-shaped sparse pre-state (target path, one neighbour word per path table, garbage in allocatable frames); page-table indices (256,0,510,511)"
    //@ obligation C09 C09.map_to_2mib.shape_p3_absent.new_tables_zeroed_before_use bounded="pool of 7 tables (4 path + 3 allocatable); tree-shaped sparse pre-state (target path, one neighbour word per path table, garbage in allocatable frames); page-table indices (256,0,510,511)"
    //@ obligation C09 C09.map_to_2mib.shape_p3_absent.no_dangling_table_pointer bounded="pool of 7 tables (4 path + 3 allocatable); tree-shaped sparse pre-state (target path, one neighbour word per path table, garbage in allocatable frames); page-table indices (256,0,510,511)"
    //@ obligation C09 C09.map_to_2mib.shape_p3_absent.no_access_outside_page_tables bounded="pool of 7 tables (4 path + 3 allocatable); tree-shaped sparse pre-state (target path, one neighbour word per path table, garbage in allocatable frames); page-table indices (256,0,510,511)"
    #[kani::proof]
    #[kani::stub(PageTable::zero, zero_stub)]
    fn c01_map_to_2mib_p3_absent_up() {
        map_to_step!(Size2MiB, "2mib", "p3_absent", P3_ABSENT, IDX_UP);
        kani::cover!(true, "c01_map_to_2mib_p3_absent_up: reachable");
    }

    //@ obligation C01 C01.map_to_2mib.shape_p2_absent.target_translates_to_frame tier=thorough bounded="pool of 7 tables (4 path + 3 allocatable); tree-shaped sparse pre-state (target path, one neighbour word per path table, garbage in allocatable frames); page-table indices (0,1,511,2)"
    //@ obligation C11 C11.map_to_2mib.shape_p2_absent.target_translates_to_frame tier=thorough bounded="pool of 7 tables (4 path + 3 allocatable); tree-shaped sparse pre-state (target path, one neighbour word per path table, garbage in allocatable frames); page-table indices (0,1,511,2)"
    //@ obligation C01 C01.map_to_2mib.shape_p2_absent.target_leaf_flags tier=thorough bounded="pool of 7 tables (4 path + 3 allocatable); tree-shaped sparse pre-state (target path, one neighbour word per path table, garbage in allocatable frames); page-table indices (0,1,511,2)"
    //@ obligation C11 C11.map_to_2mib.shape_p2_absent.target_leaf_flags tier=thorough bounded="pool of 7 tables (4 path + 3 allocatable); tree-shaped sparse pre-state (target path, one neighbour word per path table, garbage in allocatable frames); page-table indices (0,1,511,2)"
    //@ obligation C01 C01.map_to_2mib.shape_p2_absent.parent_rights_include_requested tier=thorough bounded="pool of 7 tables (4 path + 3 allocatable); tree-shaped sparse pre-state (target path, one neighbour word per path table, garbage in allocatable frames); page-table indices (0,1,511,2)"
    //@ obligation C01 C01.map_to_2mib.shape_p2_absent.other_addresses_unchanged tier=thorough bounded="pool of 7 tables (4 path + 3 allocatable); tree-shaped sparse pre-state (target path, one neighbour word per path table, garbage in allocatable frames); page-table indices (0,1,511,2)"
    //@ obligation C11 C11.map_to_2mib.shape_p2_absent.other_addresses_unchanged tier=thorough bounded="pool of 7 tables (4 path + 3 allocatable); tree-shaped sparse pre-state (target path, one neighbour word per path table, garbage in allocatable frames); page-table indices (0,1,511,2)"
    //@ obligation C01 C01.map_to_2mib.shape_p2_absent.result_reports_page tier=thorough bounded="pool of 7 tables (4 path + 3 allocatable); tree-shaped sparse pre-state (target path, one neighbour word per path table, garbage in allocatable frames); page-table indices (0,1,511,2)"
    //@ obligation C11 C11.map_to_2mib.shape_p2_absent.token_names_page tier=thorough bounded="pool of 7 tables (4 path + 3 allocatable); tree-shaped sparse pre-state (target path, one neighbour word per path table, garbage in allocatable frames); page-table indices (0,1,511,2)"
    //@ obligation C02 C02.map_to_2mib.shape_p2_absent.documented_outcome tier=thorough bounded="pool of 7 tables (4 path + 3 allocatable); tree-shaped sparse pre-state (target path, one neighbour word per path table, garbage in allocatable frames); page-table indices (0,1,511,2)"
    //@ obligation C01 C01.map_to_2mib.shape_p2_absent.translate_agrees_after tier=thorough bounded="pool of 7 tables (4 path + 3 allocatable); tree-shaped sparse pre-state (target path, one neighbour word per path table, garbage in allocatable frames); page-table indices (0,1,511,2)"
    //@ obligation C09 C09.map_to_2mib.shape_p2_absent.only_dictated_slots_change tier=thorough bounded="pool of 7 tables (4 path + 3 allocatable); tree-shaped sparse pre-state (target path, one neighbour word per path table, garbage in allocatable frames); page-table indices (0,1,511,2)"
    //@ obligation C09 C09.map_to_2mib.shape_p2_absent.allocator_requests tier=thorough bounded="pool of 7 tables (4 path + 3 allocatable); tree-shaped sparse pre-state (target path, one neighbour word per path table, garbage in allocatable frames); page-table indices (0,1,511,2)"
    //@ obligation C09 C09.map_to_2mib.shape_p2_absent.new_tables_zeroed_before_use tier=thorough bounded="pool of 7 tables (4 path + 3 allocatable); tree-shaped sparse pre-state (target path, one neighbour word per path table, garbage in allocatable frames); page-table indices (0,1,511,2)"
    //@ obligation C09 C09.map_to_2mib.shape_p2_absent.no_dangling_table_pointer tier=thorough bounded="pool of 7 tables (4 path + 3 allocatable); tree-shaped sparse pre-state (target path, one neighbour word per path table, garbage in allocatable frames); page-table indices (0,1,511,2)"
    //@ obligation C09 C09.map_to_2mib.shape_p2_absent.no_access_outside_page_tables tier=thorough bounded="pool of 7 tables (4 path + 3 allocatable); tree-shaped sparse pre-state (target path, one neighbour word per path table, garbage in allocatable frames); page-table indices (0,1,511,2)"
    #[kani::proof]
    #[kani::stub(PageTable::zero, zero_stub)]
    fn c01_map_to_2mib_p2_absent_lo() {
        map_to_step!(Size2MiB, "2mib", "p2_absent", P2_ABSENT, IDX_LO);
        kani::cover!(true, "c01_map_to_2mib_p2_absent_lo: reachable");
    }

    //@ obligation C01 C01.map_to_2mib.shape_p2_absent.target_translates_to_frame tier=thorough bounded="pool of 7 tables (4 path + 3 allocatable); tree-shaped sparse pre-state (target path, one neighbour word per path table, garbage in allocatable frames); page-table indices (511,510,1,0)"
    //@ obligation C11 C11.map_to_2mib.shape_p2_absent.target_translates_to_frame tier=thorough bounded="pool of 7 tables (4 path + 3 allocatable); tree-shaped sparse pre-state (target path, one neighbour word per path table, garbage in allocatable frames); page-table indices (511,510,1,0)"
    //@ obligation C01 C01.map_to_2mib.shape_p2_absent.target_leaf_flags tier=thorough bounded="pool of 7 tables (4 path + 3 allocatable); tree-shaped sparse pre-state (target path, one neighbour word per path table, garbage in allocatable frames); page-table indices (511,510,1,0)"
    //@ obligation C11 C11.map_to_2mib.shape_p2_absent.target_leaf_flags tier=thorough bounded="pool of 7 tables (4 path + 3 allocatable); tree-shaped sparse pre-state (target path, one neighbour word per path table, garbage in allocatable frames); page-table indices (511,510,1,0)"
    //@ obligation C01 C01.map_to_2mib.shape_p2_absent.parent_rights_include_requested tier=thorough bounded="pool of 7 tables (4 path + 3 allocatable); tree-shaped sparse pre-state (target path, one neighbour word per path table, garbage in allocatable frames); page-table indices (511,510,1,0)"
    //@ obligation C01 C01.map_to_2mib.shape_p2_absent.other_addresses_unchanged tier=thorough bounded="pool of 7 tables (4 path + 3 allocatable); tree-shaped sparse pre-state (target path, one neighbour word per path table, garbage in allocatable frames); page-table indices (511,510,1,0)"
    //@ obligation C11 C11.map_to_2mib.shape_p2_absent.other_addresses_unchanged tier=thorough bounded="pool of 7 tables (4 path + 3 allocatable); tree-shaped sparse pre-state (target path, one neighbour word per path table, garbage in allocatable frames); page-table indices (511,510,1,0)"
    //@ obligation C01 C01.map_to_2mib.shape_p2_absent.result_reports_page tier=thorough bounded="pool of 7 tables (4 path + 3 allocatable); tree-shaped sparse pre-state (target path, one neighbour word per path table, garbage in allocatable frames); page-table indices (511,510,1,0)"
    //@ obligation C11 C11.map_to_2mib.shape_p2_absent.token_names_page tier=thorough bounded="pool of 7 tables (4 path + 3 allocatable); tree-shaped sparse pre-state (target path, one neighbour word per path table, garbage in allocatable frames); page-table indices (511,510,1,0)"
    //@ obligation C02 C02.map_to_2mib.shape_p2_absent.documented_outcome tier=thorough bounded="pool of 7 tables (4 path + 3 allocatable); tree-shaped sparse pre-state (target path, one neighbour word per path table, garbage in allocatable frames); page-table indices (511,510,1,0)"
    //@ obligation C01 C01.map_to_2mib.shape_p2_absent.translate_agrees_after tier=thorough bounded="pool of 7 tables (4 path + 3 allocatable); tree-shaped sparse pre-state (target path, one neighbour word per path table, garbage in allocatable frames); page-table indices (511,510,1,0)"
    //@ obligation C09 C09.map_to_2mib.shape_p2_absent.only_dictated_slots_change tier=thorough bounded="pool of 7 tables (4 path + 3 allocatable); tree-shaped sparse pre-state (target path, one neighbour word per path table, garbage in allocatable frames); page-table indices (511,510,1,0)"
    //@ obligation C09 C09.map_to_2mib.shape_p2_absent.allocator_requests tier=thorough bounded="pool of 7 tables (4 path + 3 allocatable); tree-shaped sparse pre-state (target path, one neighbour word per path table, garbage in allocatable frames); page-table indices (511,510,1,0)"
    //@ obligation C09 C09.map_to_2mib.shape_p2_absent.new_tables_zeroed_before_use tier=thorough bounded="pool of 7 tables (4 path + 3 allocatable); tree-shaped sparse pre-state (target path, one neighbour word per path table, garbage in allocatable frames); page-table indices (511,510,1,0)"
    //@ obligation C09 C09.map_to_2mib.shape_p2_absent.no_dangling_table_pointer tier=thorough bounded="pool of 7 tables (4 path + 3 allocatable); tree-shaped sparse pre-state (target path, one neighbour word per path table, garbage in allocatable frames); page-table indices (511,510,1,0)"
    //@ obligation C09 C09.map_to_2mib.shape_p2_absent.no_access_outside_page_tables tier=thorough bounded="pool of 7 tables (4 path + 3 allocatable); tree-shaped sparse pre-state (target path, one neighbour word per path table, garbage in allocatable frames); page-table indices (511,510,1,0)"
    #[kani::proof]
    #[kani::stub(PageTable::zero, zero_stub)]
    fn c01_map_to_2mib_p2_absent_hi() {
        map_to_step!(Size2MiB, "2mib", "p2_absent", P2_ABSENT, IDX_HI);
        kani::cover!(true, "c01_map_to_2mib_p2_absent_hi: reachable");
    }

    //@ obligation C01 C01.map_to_2mib.shape_p2_absent.target_translates_to_frame tier=thorough bounded="pool of 7 tables (4 path + 3 allocatable); tree-shaped sparse pre-state (target path, one neighbour word per path table, garbage in allocatable frames); page-table indices (255,511,0,256)"
    //@ obligation C11 C11.map_to_2mib.shape_p2_absent.target_translates_to_frame tier=thorough bounded="pool of 7 tables (4 path + 3 allocatable); tree-shaped sparse pre-state (target path, one neighbour word per path table, garbage in allocatable frames); page-table indices (255,511,0,256)"
    //@ obligation C01 C01.map_to_2mib.shape_p2_absent.target_leaf_flags tier=thorough bounded="pool of 7 tables (4 path + 3 allocatable); tree-shaped sparse pre-state (target path, one neighbour word per path table, garbage in allocatable frames); page-table indices (255,511,0,256)"
    //@ obligation C11 C11.map_to_2mib.shape_p2_absent.target_leaf_flags tier=thorough bounded="pool of 7 tables (4 path + 3 allocatable); tree-shaped sparse pre-state (target path, one neighbour word per path table, garbage in allocatable frames); page-table indices (255,511,0,256)"
    //@ obligation C01 C01.map_to_2mib.shape_p2_absent.parent_rights_include_requested tier=thorough bounded="pool of 7 tables (4 path + 3 allocatable); tree-shaped sparse pre-state (target path, one neighbour word per path table, garbage in allocatable frames); page-table indices (255,511,0,256)"
    //@ obligation C01 C01.map_to_2mib.shape_p2_absent.other_addresses_unchanged tier=thorough bounded="pool of 7 tables (4 path + 3 allocatable); tree-shaped sparse pre-state (target path, one neighbour word per path table, garbage in allocatable frames); page-table indices (255,511,0,256)"
    //@ obligation C11 C11.map_to_2mib.shape_p2_absent.other_addresses_unchanged tier=thorough bounded="pool of 7 tables (4 path + 3 allocatable); tree-shaped sparse pre-state (target path, one neighbour word per path table, garbage in allocatable frames); page-table indices (255,511,0,256)"
    //@ obligation C01 C01.map_to_2mib.shape_p2_absent.result_reports_page tier=thorough bounded="pool of 7 tables (4 path + 3 allocatable); tree-shaped sparse pre-state (target path, one neighbour word per path table, garbage in allocatable frames); page-table indices (255,511,0,256)"
    //@ obligation C11 C11.map_to_2mib.shape_p2_absent.token_names_page tier=thorough bounded="pool of 7 tables (4 path + 3 allocatable); tree-shaped sparse pre-state (target path, one neighbour word per path table, garbage in allocatable frames); page-table indices (255,511,0,256)"
    //@ obligation C02 C02.map_to_2mib.shape_p2_absent.documented_outcome tier=thorough bounded="pool of 7 tables (4 path + 3 allocatable); tree-shaped sparse pre-state (target path, one neighbour word per path table, garbage in allocatable frames); page-table indices (255,511,0,256)"
    //@ obligation C01 C01.map_to_2mib.shape_p2_absent.translate_agrees_after tier=thorough bounded="pool of 7 tables (4 path + 3 allocatable); tree-shaped sparse pre-state (target path, one neighbour word per path table, garbage in allocatable frames); page-table indices (255,511,0,256)"
    //@ obligation C09 C09.map_to_2mib.shape_p2_absent.only_dictated_slots_change tier=thorough bounded="pool of 7 tables (4 path + 3 allocatable); tree-shaped sparse pre-state (target path, one neighbour word per path table, garbage in allocatable frames); page-table indices (255,511,0,256)"
    //@ obligation C09 C09.map_to_2mib.shape_p2_absent.allocator_requests tier=thorough bounded="pool of 7 tables (4 path + 3 allocatable); tree-shaped sparse pre-state (target path, one neighbour word per path table, garbage in allocatable frames); page-table indices (255,511,0,256)"
    //@ obligation C09 C09.map_to_2mib.shape_p2_absent.new_tables_zeroed_before_use tier=thorough bounded="pool of 7 tables (4 path + 3 allocatable); tree-shaped sparse pre-state (target path, one neighbour word per path table, garbage in allocatable frames); page-table indices (255,511,0,256)"
    //@ obligation C09 C09.map_to_2mib.shape_p2_absent.no_dangling_table_pointer tier=thorough bounded="pool of 7 tables (4 path + 3 allocatable); tree-shaped sparse pre-state (target path, one neighbour word per path table, garbage in allocatable frames); page-table indices (255,511,0,256)"
    //@ obligation C09 C09.map_to_2mib.shape_p2_absent.no_access_outside_page_tables tier=thorough bounded="pool of 7 tables (4 path + 3 allocatable); tree-shaped sparse pre-state (target path, one neighbour word per path table, garbage in allocatable frames); page-table indices (255,511,0,256)"
    #[kani::proof]
    #[kani::stub(PageTable::zero, zero_stub)]
    fn c01_map_to_2mib_p2_absent_mid() {
        map_to_step!(Size2MiB, "2mib", "p2_absent", P2_ABSENT, IDX_MID);
        kani::cover!(true, "c01_map_to_2mib_p2_absent_mid: reachable");
    }

    //@ obligation C01 C01.map_to_2mib.shape_p2_absent.target_translates_to_frame tier=thorough bounded="pool of 7 tables (4 path + 3 allocatable); tree-shaped sparse pre-state (target path, one neighbour word per path table, garbage in allocatable frames); page-table indices (256,0,510,511)"
    //@ obligation C11 C11.map_to_2mib.shape_p2_absent.target_translates_to_frame tier=thorough bounded="pool of 7 tables (4 path + 3 allocatable); tree-shaped sparse pre-state (target path, one neighbour word per path table, garbage in allocatable frames); page-table indices (256,0,510,511)"
    //@ obligation C01 C01.map_to_2mib.shape_p2_absent.target_leaf_flags tier=thorough bounded="pool of 7 tables (4 path + 3 allocatable); tree-shaped sparse pre-state (target path, one neighbour word per path table, garbage in allocatable frames); page-table indices (256,0,510,511)"
    //@ obligation C11 C11.map_to_2mib.shape_p2_absent.target_leaf_flags tier=thorough bounded="pool of 7 tables (4 path + 3 allocatable); tree-shaped sparse pre-state (target path, one neighbour word per path table, garbage in allocatable frames); page-table indices (256,0,510,511)"
    //@ obligation C01 C01.map_to_2mib.shape_p2_absent.parent_rights_include_requested tier=thorough bounded="pool of 7 tables (4 path + 3 allocatable); tree-shaped sparse pre-state (target path, one neighbour word per path table, garbage in allocatable frames); page-table indices (256,0,510,511)"
    //@ obligation C01 C01.map_to_2mib.shape_p2_absent.other_addresses_unchanged tier=thorough bounded="pool of 7 tables (4 path + 3 allocatable); tree-shaped sparse pre-state (target path, one neighbour word per path table, garbage in allocatable frames); page-table indices (256,0,510,511)"
    //@ obligation C11 C11.map_to_2mib.shape_p2_absent.other_addresses_unchanged tier=thorough bounded="pool of 7 tables (4 path + 3 allocatable); tree-shaped sparse pre-state (target path, one neighbour word per path table, garbage in allocatable frames); page-table indices (256,0,510,511)"
    //@ obligation C01 C01.map_to_2mib.shape_p2_absent.result_reports_page tier=thorough bounded="pool of 7 tables (4 path + 3 allocatable); tree-shaped sparse pre-state (target path, one neighbour word per path table, garbage in allocatable frames); page-table indices (256,0,510,511)"
    //@ obligation C11 C11.map_to_2mib.shape_p2_absent.token_names_page tier=thorough bounded="pool of 7 tables (4 path + 3 allocatable); tree-shaped sparse pre-state (target path, one neighbour word per path table, garbage in allocatable frames); page-table indices (256,0,510,511)"
    //@ obligation C02 C02.map_to_2mib.shape_p2_absent.documented_outcome tier=thorough bounded="pool of 7 tables (4 path + 3 allocatable); tree-shaped sparse pre-state (target path, one neighbour word per path table, garbage in allocatable frames); page-table indices (256,0,510,511)"
    //@ obligation C01 C01.map_to_2mib.shape_p2_absent.translate_agrees_after tier=thorough bounded="pool of 7 tables (4 path + 3 allocatable); tree-shaped sparse pre-state (target path, one neighbour word per path table, garbage in allocatable frames); page-table indices (256,0,510,511)"
    //@ obligation C09 C09.map_to_2mib.shape_p2_absent.only_dictated_slots_change tier=thorough bounded="pool of 7 tables (4 path + 3 allocatable); tree-shaped sparse pre-state (target path, one neighbour word per path table, garbage in allocatable frames); page-table indices (256,0,510,511)"
    //@ obligation C09 C09.map_to_2mib.shape_p2_absent.allocator_requests tier=thorough bounded="pool of 7 tables (4 path + 3 allocatable); tree-shaped sparse pre-state (target path, one neighbour word per path table, garbage in allocatable frames); page-table indices (256,0,510,511)"
    //@ obligation C09 C09.map_to_2mib.shape_p2_absent.new_tables_zeroed_before_use tier=thorough bounded="pool of 7 tables (4 path + 3 allocatable); tree-shaped sparse pre-state (target path, one neighbour word per path table, garbage in allocatable frames); page-table indices (256,0,510,511)"
    //@ obligation C09 C09.map_to_2mib.shape_p2_absent.no_dangling_table_pointer tier=thorough bounded="pool of 7 tables (4 path + 3 allocatable); tree-shaped sparse pre-state (target path, one neighbour word per path table, garbage in allocatable frames); page-table indices (256,0,510,511)"
    //@ obligation C09 C09.map_to_2mib.shape_p2_absent.no_access_outside_page_tables tier=thorough bounded="pool of 7 tables (4 path + 3 allocatable); tree-shaped sparse pre-state (target path, one neighbour word per path table, garbage in allocatable frames); page-table indices (256,0,510,511)"
    #[kani::proof]
    #[kani::stub(PageTable::zero, zero_stub)]
    fn c01_map_to_2mib_p2_absent_up() {
        map_to_step!(Size2MiB, "2mib", "p2_absent", P2_ABSENT, IDX_UP);
        kani::cover!(true, "c01_map_to_2mib_p2_absent_up: reachable");
    }

    //@ obligation C02 C02.map_to_2mib.shape_p3_huge.error_leaves_every_mapping tier=thorough bounded="pool of 7 tables (4 path + 3 allocatable); tree-shaped sparse pre-state (target path, one neighbour word per path table, garbage in allocatable frames); page-table indices (0,1,511,2)"
    //@ obligation C02 C02.map_to_2mib.shape_p3_huge.error_adds_at_most_parent_flags tier=thorough bounded="pool of 7 tables (4 path + 3 allocatable); tree-shaped sparse pre-state (target path, one neighbour word per path table, garbage in allocatable frames); page-table indices (0,1,511,2)"
    //@ obligation C02 C02.map_to_2mib.shape_p3_huge.huge_leaf_unchanged_on_error tier=thorough bounded="pool of 7 tables (4 path + 3 allocatable); tree-shaped sparse pre-state (target path, one neighbour word per path table, garbage in allocatable frames); page-table indices (0,1,511,2)"
    //@ obligation C02 C02.map_to_2mib.shape_p3_huge.documented_outcome tier=thorough bounded="pool of 7 tables (4 path + 3 allocatable); tree-shaped sparse pre-state (target path, one neighbour word per path table, garbage in allocatable frames); page-table indices (0,1,511,2)"
    //@ obligation C01 C01.map_to_2mib.shape_p3_huge.translate_agrees_after tier=thorough bounded="pool of 7 tables (4 path + 3 allocatable); tree-shaped sparse pre-state (target path, one neighbour word per path table, garbage in allocatable frames); page-table indices (0,1,511,2)"
    //@ obligation C09 C09.map_to_2mib.shape_p3_huge.only_dictated_slots_change tier=thorough bounded="pool of 7 tables (4 path + 3 allocatable); tree-shaped sparse pre-state (target path, one neighbour word per path table, garbage in allocatable frames); page-table indices (0,1,511,2)"
    //@ obligation C09 C09.map_to_2mib.shape_p3_huge.allocator_requests tier=thorough bounded="pool of 7 tables (4 path + 3 allocatable); tree-shaped sparse pre-state (target path, one neighbour word per path table, garbage in allocatable frames); page-table indices (0,1,511,2)"
    //@ obligation C09 C09.map_to_2mib.shape_p3_huge.new_tables_zeroed_before_use tier=thorough bounded="pool of 7 tables (4 path + 3 allocatable); tree-shaped sparse pre-state (target path, one neighbour word per path table, garbage in allocatable frames); page-table indices (0,1,511,2)"
    //@ obligation C09 C09.map_to_2mib.shape_p3_huge.no_dangling_table_pointer tier=thorough bounded="pool of 7 tables (4 path + 3 allocatable); tree-shaped sparse pre-state (target path, one neighbour word per path table, garbage in allocatable frames); page-table indices (0,1,511,2)"
    //@ obligation C09 C09.map_to_2mib.shape_p3_huge.no_access_outside_page_tables tier=thorough bounded="pool of 7 tables (4 path + 3 allocatable); tree-shaped sparse pre-state (target path, one neighbour word per path table, garbage in allocatable frames); page-table indices (0,1,511,2)"
    #[kani::proof]
    #[kani::stub(PageTable::zero, zero_stub)]
    fn c01_map_to_2mib_p3_huge_lo() {
        map_to_step!(Size2MiB, "2mib", "p3_huge", P3_HUGE, IDX_LO);
        kani::cover!(true, "c01_map_to_2mib_p3_huge_lo: reachable");
    }

    //@ obligation C02 C02.map_to_2mib.shape_p3_huge.error_leaves_every_mapping tier=thorough bounded="pool of 7 tables (4 path + 3 allocatable); tree-shaped sparse pre-state (target path, one neighbour word per path table, garbage in allocatable frames); page-table indices (511,510,1,0)"
    //@ obligation C02 C02.map_to_2mib.shape_p3_huge.error_adds_at_most_parent_flags tier=thorough bounded="pool of 7 tables (4 path + 3 allocatable); tree-shaped sparse pre-state (target path, one neighbour word per path table, garbage in allocatable frames); page-table indices (511,510,1,0)"
    //@ obligation C02 C02.map_to_2mib.shape_p3_huge.huge_leaf_unchanged_on_error tier=thorough bounded="pool of 7 tables (4 path + 3 allocatable); tree-shaped sparse pre-state (target path, one neighbour word per path table, garbage in allocatable frames); page-table indices (511,510,1,0)"
    //@ obligation C02 C02.map_to_2mib.shape_p3_huge.documented_outcome tier=thorough bounded="pool of 7 tables (4 path + 3 allocatable); tree-shaped sparse pre-state (target path, one neighbour word per path table, garbage in allocatable frames); page-table indices (511,510,1,0)"
    //@ obligation C01 C01.map_to_2mib.shape_p3_huge.translate_agrees_after tier=thorough bounded="pool of 7 tables (4 path + 3 allocatable); tree-shaped sparse pre-state (target path, one neighbour word per path table, garbage in allocatable frames); page-table indices (511,510,1,0)"
    //@ obligation C09 C09.map_to_2mib.shape_p3_huge.only_dictated_slots_change tier=thorough bounded="pool of 7 tables (4 path + 3 allocatable); tree-shaped sparse pre-state (target path, one neighbour word per path table, garbage in allocatable frames); page-table indices (511,510,1,0)"
    //@ obligation C09 C09.map_to_2mib.shape_p3_huge.allocator_requests tier=thorough bounded="pool of 7 tables (4 path + 3 allocatable); tree-shaped sparse pre-state (target path, one neighbour word per path table, garbage in allocatable frames); page-table indices (511,510,1,0)"
    //@ obligation C09 C09.map_to_2mib.shape_p3_huge.new_tables_zeroed_before_use tier=thorough bounded="pool of 7 tables (4 path + 3 allocatable); tree-shaped sparse pre-state (target path, one neighbour word per path table, garbage in allocatable frames); page-table indices (511,510,1,0)"
    //@ obligation C09 C09.map_to_2mib.shape_p3_huge.no_dangling_table_pointer tier=thorough bounded="pool of 7 tables (4 path + 3 allocatable); tree-shaped sparse pre-state (target path, one neighbour word per path table, garbage in allocatable frames); page-table indices (511,510,1,0)"
    //@ obligation C09 C09.map_to_2mib.shape_p3_huge.no_access_outside_page_tables tier=thorough bounded="pool of 7 tables (4 path + 3 allocatable); tree-shaped sparse pre-state (target path, one neighbour word per path table, garbage in allocatable frames); page-table indices (511,510,1,0)"
    #[kani::proof]
    #[kani::stub(PageTable::zero, zero_stub)]
    fn c01_map_to_2mib_p3_huge_hi() {
        map_to_step!(Size2MiB, "2mib", "p3_huge", P3_HUGE, IDX_HI);
        kani::cover!(true, "c01_map_to_2mib_p3_huge_hi: reachable");
    }

    //@ obligation C02 C02.map_to_2mib.shape_p3_huge.error_leaves_every_mapping tier=thorough bounded="pool of 7 tables (4 path + 3 allocatable); tree-shaped sparse pre-state (target path, one neighbour word per path table, garbage in allocatable frames); page-table indices (255,511,0,256)"
    //@ obligation C02 C02.map_to_2mib.shape_p3_huge.error_adds_at_most_parent_flags tier=thorough bounded="pool of 7 tables (4 path + 3 allocatable); tree-shaped sparse pre-state (target path, one neighbour word per path table, garbage in allocatable frames); page-table indices (255,511,0,256)"
    //@ obligation C02 C02.map_to_2mib.shape_p3_huge.huge_leaf_unchanged_on_error tier=thorough bounded="pool of 7 tables (4 path + 3 allocatable); tree-shaped sparse pre-state (target path, one neighbour word per path table, garbage in allocatable frames); page-table indices (255,511,0,256)"
    //@ obligation C02 C02.map_to_2mib.shape_p3_huge.documented_outcome tier=thorough bounded="pool of 7 tables (4 path + 3 allocatable); tree-shaped sparse pre-state (target path, one neighbour word per path table, garbage in allocatable frames); page-table indices (255,511,0,256)"
    //@ obligation C01 C01.map_to_2mib.shape_p3_huge.translate_agrees_after tier=thorough bounded="pool of 7 tables (4 path + 3 allocatable); tree-shaped sparse pre-state (target path, one neighbour word per path table, garbage in allocatable frames); page-table indices (255,511,0,256)"
    //@ obligation C09 C09.map_to_2mib.shape_p3_huge.only_dictated_slots_change tier=thorough bounded="pool of 7 tables (4 path + 3 allocatable); tree-shaped sparse pre-state (target path, one neighbour word per path table, garbage in allocatable frames); page-table indices (255,511,0,256)"
    //@ obligation C09 C09.map_to_2mib.shape_p3_huge.allocator_requests tier=thorough bounded="pool of 7 tables (4 path + 3 allocatable); tree-shaped sparse pre-state (target path, one neighbour word per path table, garbage in allocatable frames); page-table indices (255,511,0,256)"
    //@ obligation C09 C09.map_to_2mib.shape_p3_huge.new_tables_zeroed_before_use tier=thorough bounded="pool of 7 tables (4 path + 3 allocatable); tree-shaped sparse pre-state (target path, one neighbour word per path table, garbage in allocatable frames); page-table indices (255,511,0,256)"
    //@ obligation C09 C09.map_to_2mib.shape_p3_huge.no_dangling_table_pointer tier=thorough bounded="pool of 7 tables (4 path + 3 allocatable); tree-shaped sparse pre-state (target path, one neighbour word per path table, garbage in allocatable frames); page-table indices (255,511,0,256)"
    //@ obligation C09 C09.map_to_2mib.shape_p3_huge.no_access_outside_page_tables tier=thorough bounded="pool of 7 tables (4 path + 3 allocatable); tree-shaped sparse pre-state (target path, one neighbour word per path table, garbage in allocatable frames); page-table indices (255,511,0,256)"
    #[kani::proof]
    #[kani::stub(PageTable::zero, zero_stub)]
    fn c01_map_to_2mib_p3_huge_mid() {
        map_to_step!(Size2MiB, "2mib", "p3_huge", P3_HUGE, IDX_MID);
        kani::cover!(true, "c01_map_to_2mib_p3_huge_mid: reachable");
    }

    //@ obligation C02 C02.map_to_2mib.shape_p3_huge.error_leaves_every_mapping tier=thorough bounded="pool of 7 tables (4 path + 3 allocatable); tree-shaped sparse pre-state (target path, one neighbour word per path table, garbage in allocatable frames); page-table indices (256,0,510,511)"
    //@ obligation C02 C02.map_to_2mib.shape_p3_huge.error_adds_at_most_parent_flags tier=thorough bounded="pool of 7 tables (4 path + 3 allocatable); tree-shaped sparse pre-state (target path, one neighbour word per path table, garbage in allocatable frames); page-table indices (256,0,510,511)"
    //@ obligation C02 C02.map_to_2mib.shape_p3_huge.huge_leaf_unchanged_on_error tier=thorough bounded="pool of 7 tables (4 path + 3 allocatable); tree-shaped sparse pre-state (target path, one neighbour word per path table, garbage in allocatable frames); page-table indices (256,0,510,511)"
    //@ obligation C02 C02.map_to_2mib.shape_p3_huge.documented_outcome tier=thorough bounded="pool of 7 tables (4 path + 3 allocatable); tree-shaped sparse pre-state (target path, one neighbour word per path table, garbage in allocatable frames); page-table indices (256,0,510,511)"
    //@ obligation C01 C01.map_to_2mib.shape_p3_huge.translate_agrees_after tier=thorough bounded="pool of 7 tables (4 path + 3 allocatable); tree-shaped sparse pre-state (target path, one neighbour word per path table, garbage in allocatable frames); page-table indices (256,0,510,511)"
    //@ obligation C09 C09.map_to_2mib.shape_p3_huge.only_dictated_slots_change tier=thorough bounded="pool of 7 tables (4 path + 3 allocatable); tree-shaped sparse pre-state (target path, one neighbour word per path table, garbage in allocatable frames); page-table indices (256,0,510,511)"
    //@ obligation C09 C09.map_to_2mib.shape_p3_huge.allocator_requests tier=thorough bounded="pool of 7 tables (4 path + 3 allocatable); tree-shaped sparse pre-state (target path, one neighbour word per path table, garbage in allocatable frames); page-table indices (256,0,510,511)"
    //@ obligation C09 C09.map_to_2mib.shape_p3_huge.new_tables_zeroed_before_use tier=thorough bounded="pool of 7 tables (4 path + 3 allocatable); tree-shaped sparse pre-state (target path, one neighbour word per path table, garbage in allocatable frames); page-table indices (256,0,510,511)"
    //@ obligation C09 C09.map_to_2mib.shape_p3_huge.no_dangling_table_pointer tier=thorough bounded="pool of 7 tables (4 path + 3 allocatable); tree-shaped sparse pre-state (target path, one neighbour word per path table, garbage in allocatable frames); page-table indices (256,0,510,511)"
    //@ obligation C09 C09.map_to_2mib.shape_p3_huge.no_access_outside_page_tables tier=thorough bounded="pool of 7 tables (4 path + 3 allocatable); tree-shaped sparse pre-state (target path, one neighbour word per path table, garbage in allocatable frames); page-table indices (256,0,510,511)"
    #[kani::proof]
    #[kani::stub(PageTable::zero, zero_stub)]
    fn c01_map_to_2mib_p3_huge_up() {
        map_to_step!(Size2MiB, "2mib", "p3_huge", P3_HUGE, IDX_UP);
        kani::cover!(true, "c01_map_to_2mib_p3_huge_up: reachable");
    }

    //@ obligation C02 C02.map_to_2mib.shape_p2_huge.error_leaves_every_mapping tier=thorough bounded="pool of 7 tables (4 path + 3 allocatable); tree-shaped sparse pre-state (target path, one neighbour word per path table, garbage in allocatable frames); page-table indices (0,1,511,2)"
    //@ obligation C02 C02.map_to_2mib.shape_p2_huge.error_adds_at_most_parent_flags tier=thorough bounded="pool of 7 tables (4 path + 3 allocatable); tree-shaped sparse pre-state (target path, one neighbour word per path table, garbage in allocatable frames); page-table indices (0,1,511,2)"
    //@ obligation C01 C01.map_to_2mib.shape_p2_huge.result_reports_frame tier=thorough bounded="pool of 7 tables (4 path + 3 allocatable); tree-shaped sparse pre-state (target path, one neighbour word per path table, garbage in allocatable frames); page-table indices (0,1,511,2)"
    //@ obligation C02 C02.map_to_2mib.shape_p2_huge.documented_outcome tier=thorough bounded="pool of 7 tables (4 path + 3 allocatable); tree-shaped sparse pre-state (target path, one neighbour word per path table, garbage in allocatable frames); page-table indices (0,1,511,2)"
    //@ obligation C01 C01.map_to_2mib.shape_p2_huge.translate_agrees_after tier=thorough bounded="pool of 7 tables (4 path + 3 allocatable); tree-shaped sparse pre-state (target path, one neighbour word per path table, garbage in allocatable frames); page-table indices (0,1,511,2)"
    //@ obligation C09 C09.map_to_2mib.shape_p2_huge.only_dictated_slots_change tier=thorough bounded="pool of 7 tables (4 path + 3 allocatable); tree-shaped sparse pre-state (target path, one neighbour word per path table, garbage in allocatable frames); page-table indices (0,1,511,2)"
    //@ obligation C09 C09.map_to_2mib.shape_p2_huge.allocator_requests tier=thorough bounded="pool of 7 tables (4 path + 3 allocatable); tree-shaped sparse pre-state (target path, one neighbour word per path table, garbage in allocatable frames); page-table indices (0,1,511,2)"
    //@ obligation C09 C09.map_to_2mib.shape_p2_huge.new_tables_zeroed_before_use tier=thorough bounded="pool of 7 tables (4 path + 3 allocatable); tree-shaped sparse pre-state (target path, one neighbour word per path table, garbage in allocatable frames); page-table indices (0,1,511,2)"
    //@ obligation C09 C09.map_to_2mib.shape_p2_huge.no_dangling_table_pointer tier=thorough bounded="pool of 7 tables (4 path + 3 allocatable); tree-shaped sparse pre-state (target path, one neighbour word per path table, garbage in allocatable frames); page-table indices (0,1,511,2)"
    //@ obligation C09 C09.map_to_2mib.shape_p2_huge.no_access_outside_page_tables tier=thorough bounded="pool of 7 tables (4 path + 3 allocatable); tree-shaped sparse pre-state (target path, one neighbour word per path table, garbage in allocatable frames); page-table indices (0,1,511,2)"
    #[kani::proof]
    #[kani::stub(PageTable::zero, zero_stub)]
    fn c01_map_to_2mib_p2_huge_lo() {
        map_to_step!(Size2MiB, "2mib", "p2_huge", P2_HUGE, IDX_LO);
        kani::cover!(true, "c01_map_to_2mib_p2_huge_lo: reachable");
    }

    //@ obligation C02 C02.map_to_2mib.shape_p2_huge.error_leaves_every_mapping tier=thorough bounded="pool of 7 tables (4 path + 3 allocatable); tree-shaped sparse pre-state (target path, one neighbour word per path table, garbage in allocatable frames); page-table indices (511,510,1,0)"
    //@ obligation C02 C02.map_to_2mib.shape_p2_huge.error_adds_at_most_parent_flags tier=thorough bounded="pool of 7 tables (4 path + 3 allocatable); tree-shaped sparse pre-state (target path, one neighbour word per path table, garbage in allocatable frames); page-table indices (511,510,1,0)"
    //@ obligation C01 C01.map_to_2mib.shape_p2_huge.result_reports_frame tier=thorough bounded="pool of 7 tables (4 path + 3 allocatable); tree-shaped sparse pre-state (target path, one neighbour word per path table, garbage in allocatable frames); page-table indices (511,510,1,0)"
    //@ obligation C02 C02.map_to_2mib.shape_p2_huge.documented_outcome tier=thorough bounded="pool of 7 tables (4 path + 3 allocatable); tree-shaped sparse pre-state (target path, one neighbour word per path table, garbage in allocatable frames); page-table indices (511,510,1,0)"
    //@ obligation C01 C01.map_to_2mib.shape_p2_huge.translate_agrees_after tier=thorough bounded="pool of 7 tables (4 path + 3 allocatable); tree-shaped sparse pre-state (target path, one neighbour word per path table, garbage in allocatable frames); page-table indices (511,510,1,0)"
    //@ obligation C09 C09.map_to_2mib.shape_p2_huge.only_dictated_slots_change tier=thorough bounded="pool of 7 tables (4 path + 3 allocatable); tree-shaped sparse pre-state (target path, one neighbour word per path table, garbage in allocatable frames); page-table indices (511,510,1,0)"
    //@ obligation C09 C09.map_to_2mib.shape_p2_huge.allocator_requests tier=thorough bounded="pool of 7 tables (4 path + 3 allocatable); tree-shaped sparse pre-state (target path, one neighbour word per path table, garbage in allocatable frames); page-table indices (511,510,1,0)"
    //@ obligation C09 C09.map_to_2mib.shape_p2_huge.new_tables_zeroed_before_use tier=thorough bounded="pool of 7 tables (4 path + 3 allocatable); tree-shaped sparse pre-state (target path, one neighbour word per path table, garbage in allocatable frames); page-table indices (511,510,1,0)"
    //@ obligation C09 C09.map_to_2mib.shape_p2_huge.no_dangling_table_pointer tier=thorough bounded="pool of 7 tables (4 path + 3 allocatable); tree-shaped sparse pre-state (target path, one neighbour word per path table, garbage in allocatable frames); page-table indices (511,510,1,0)"
    //@ obligation C09 C09.map_to_2mib.shape_p2_huge.no_access_outside_page_tables tier=thorough bounded="pool of 7 tables (4 path + 3 allocatable); tree-shaped sparse pre-state (target path, one neighbour word per path table, garbage in allocatable frames); page-table indices (511,510,1,0)"
    #[kani::proof]
    #[kani::stub(PageTable::zero, zero_stub)]
    fn c01_map_to_2mib_p2_huge_hi() {
        map_to_step!(Size2MiB, "2mib", "p2_huge", P2_HUGE, IDX_HI);
        kani::cover!(true, "c01_map_to_2mib_p2_huge_hi: reachable");
    }

    //@ obligation C02 C02.map_to_2mib.shape_p2_huge.error_leaves_every_mapping tier=thorough bounded="pool of 7 tables (4 path + 3 allocatable); tree-shaped sparse pre-state (target path, one neighbour word per path table, garbage in allocatable frames); page-table indices (255,511,0,256)"
    //@ obligation C02 C02.map_to_2mib.shape_p2_huge.error_adds_at_most_parent_flags tier=thorough bounded="pool of 7 tables (4 path + 3 allocatable); tree-shaped sparse pre-state (target path, one neighbour word per path table, garbage in allocatable frames); page-table indices (255,511,0,256)"
    //@ obligation C01 C01.map_to_2mib.shape_p2_huge.result_reports_frame tier=thorough bounded="pool of 7 tables (4 path + 3 allocatable); tree-shaped sparse pre-state (target path, one neighbour word per path table, garbage in allocatable frames); page-table indices (255,511,0,256)"
    //@ obligation C02 C02.map_to_2mib.shape_p2_huge.documented_outcome tier=thorough bounded="pool of 7 tables (4 path + 3 allocatable); tree-shaped sparse pre-state (target path, one neighbour word per path table, garbage in allocatable frames); page-table indices (255,511,0,256)"
    //@ obligation C01 C01.map_to_2mib.shape_p2_huge.translate_agrees_after tier=thorough bounded="pool of 7 tables (4 path + 3 allocatable); tree-shaped sparse pre-state (target path, one neighbour word per path table, garbage in allocatable frames); page-table indices (255,511,0,256)"
    //@ obligation C09 C09.map_to_2mib.shape_p2_huge.only_dictated_slots_change tier=thorough bounded="pool of 7 tables (4 path + 3 allocatable); tree-shaped sparse pre-state (target path, one neighbour word per path table, garbage in allocatable frames); page-table indices (255,511,0,256)"
    //@ obligation C09 C09.map_to_2mib.shape_p2_huge.allocator_requests tier=thorough bounded="pool of 7 tables (4 path + 3 allocatable); tree-shaped sparse pre-state (target path, one neighbour word per path table, garbage in allocatable frames); page-table indices (255,511,0,256)"
    //@ obligation C09 C09.map_to_2mib.shape_p2_huge.new_tables_zeroed_before_use tier=thorough bounded="pool of 7 tables (4 path + 3 allocatable); tree-shaped sparse pre-state (target path, one neighbour word per path table, garbage in allocatable frames); page-table indices (255,511,0,256)"
    //@ obligation C09 C09.map_to_2mib.shape_p2_huge.no_dangling_table_pointer tier=thorough bounded="pool of 7 tables (4 path + 3 allocatable); tree-shaped sparse pre-state (target path, one neighbour word per path table, garbage in allocatable frames); page-table indices (255,511,0,256)"
    //@ obligation C09 C09.map_to_2mib.shape_p2_huge.no_access_outside_page_tables tier=thorough bounded="pool of 7 tables (4 path + 3 allocatable); tree-shaped sparse pre-state (target path, one neighbour word per path table, garbage in allocatable frames); page-table indices (255,511,0,256)"
    #[kani::proof]
    #[kani::stub(PageTable::zero, zero_stub)]
    fn c01_map_to_2mib_p2_huge_mid() {
        map_to_step!(Size2MiB, "2mib", "p2_huge", P2_HUGE, IDX_MID);
        kani::cover!(true, "c01_map_to_2mib_p2_huge_mid: reachable");
    }

    //@ obligation C02 C02.map_to_2mib.shape_p2_huge.error_leaves_every_mapping tier=thorough bounded="pool of 7 tables (4 path + 3 allocatable); tree-shaped sparse pre-state (target path, one neighbour word per path table, garbage in allocatable frames); page-table indices (256,0,510,511)"
    //@ obligation C02 C02.map_to_2mib.shape_p2_huge.error_adds_at_most_parent_flags tier=thorough bounded="pool of 7 tables (4 path + 3 allocatable); tree-shaped sparse pre-state (target path, one neighbour word per path table, garbage in allocatable frames); page-table indices (256,0,510,511)"
    //@ obligation C01 C01.map_to_2mib.shape_p2_huge.result_reports_frame tier=thorough bounded="pool of 7 tables (4 path + 3 allocatable); tree-shaped sparse pre-state (target path, one neighbour word per path table, garbage in allocatable frames); page-table indices (256,0,510,511)"
    //@ obligation C02 C02.map_to_2mib.shape_p2_huge.documented_outcome tier=thorough bounded="pool of 7 tables (4 path + 3 allocatable); tree-shaped sparse pre-state (target path, one neighbour word per path table, garbage in allocatable frames); page-table indices (256,0,510,511)"
    //@ obligation C01 C01.map_to_2mib.shape_p2_huge.translate_agrees_after tier=thorough bounded="pool of 7 tables (4 path + 3 allocatable); tree-shaped sparse pre-state (target path, one neighbour word per path table, garbage in allocatable frames); page-table indices (256,0,510,511)"
    //@ obligation C09 C09.map_to_2mib.shape_p2_huge.only_dictated_slots_change tier=thorough bounded="pool of 7 tables (4 path + 3 allocatable); tree-shaped sparse pre-state (target path, one neighbour word per path table, garbage in allocatable frames); page-table indices (256,0,510,511)"
    //@ obligation C09 C09.map_to_2mib.shape_p2_huge.allocator_requests tier=thorough bounded="pool of 7 tables (4 path + 3 allocatable); tree-shaped sparse pre-state (target path, one neighbour word per path table, garbage in allocatable frames); page-table indices (256,0,510,511)"
    //@ obligation C09 C09.map_to_2mib.shape_p2_huge.new_tables_zeroed_before_use tier=thorough bounded="pool of 7 tables (4 path + 3 allocatable); tree-shaped sparse pre-state (target path, one neighbour word per path table, garbage in allocatable frames); page-table indices (256,0,510,511)"
    //@ obligation C09 C09.map_to_2mib.shape_p2_huge.no_dangling_table_pointer tier=thorough bounded="pool of 7 tables (4 path + 3 allocatable); tree-shaped sparse pre-state (target path, one neighbour word per path table, garbage in allocatable frames); page-table indices (256,0,510,511)"
    //@ obligation C09 C09.map_to_2mib.shape_p2_huge.no_access_outside_page_tables tier=thorough bounded="pool of 7 tables (4 path + 3 allocatable); tree-shaped sparse pre-state (target path, one neighbour word per path table, garbage in allocatable frames); page-table indices (256,0,510,511)"
    #[kani::proof]
    #[kani::stub(PageTable::zero, zero_stub)]
    fn c01_map_to_2mib_p2_huge_up() {
        map_to_step!(Size2MiB, "2mib", "p2_huge", P2_HUGE, IDX_UP);
        kani::cover!(true, "c01_map_to_2mib_p2_huge_up: reachable");
    }

    //@ obligation C02 C02.map_to_2mib.shape_p2_table.error_leaves_every_mapping tier=thorough bounded="pool of 7 tables (4 path + 3 allocatable); tree-shaped sparse pre-state (target path, one neighbour word per path table, garbage in allocatable frames); page-table indices (0,1,511,2)"
    //@ obligation C02 C02.map_to_2mib.shape_p2_table.error_adds_at_most_parent_flags tier=thorough bounded="pool of 7 tables (4 path + 3 allocatable); tree-shaped sparse pre-state (target path, one neighbour word per path table, garbage in allocatable frames); page-table indices (0,1,511,2)"
    //@ obligation C01 C01.map_to_2mib.shape_p2_table.result_reports_frame tier=thorough bounded="pool of 7 tables (4 path + 3 allocatable); tree-shaped sparse pre-state (target path, one neighbour word per path table, garbage in allocatable frames); page-table indices (0,1,511,2)"
    //@ obligation C02 C02.map_to_2mib.shape_p2_table.documented_outcome tier=thorough bounded="pool of 7 tables (4 path + 3 allocatable); tree-shaped sparse pre-state (target path, one neighbour word per path table, garbage in allocatable frames); page-table indices (0,1,511,2)"
    //@ obligation C01 C01.map_to_2mib.shape_p2_table.translate_agrees_after tier=thorough bounded="pool of 7 tables (4 path + 3 allocatable); tree-shaped sparse pre-state (target path, one neighbour word per path table, garbage in allocatable frames); page-table indices (0,1,511,2)"
    //@ obligation C09 C09.map_to_2mib.shape_p2_table.only_dictated_slots_change tier=thorough bounded="pool of 7 tables (4 path + 3 allocatable); tree-shaped sparse pre-state (target path, one neighbour word per path table, garbage in allocatable frames); page-table indices (0,1,511,2)"
    //@ obligation C09 C09.map_to_2mib.shape_p2_table.allocator_requests tier=thorough bounded="pool of 7 tables (4 path + 3 allocatable); tree-shaped sparse pre-state (target path, one neighbour word per path table, garbage in allocatable frames); page-table indices (0,1,511,2)"
    //@ obligation C09 C09.map_to_2mib.shape_p2_table.new_tables_zeroed_before_use tier=thorough bounded="pool of 7 tables (4 path + 3 allocatable); tree-shaped sparse pre-state (target path, one neighbour word per path table, garbage in allocatable frames); page-table indices (0,1,511,2)"
    //@ obligation C09 C09.map_to_2mib.shape_p2_table.no_dangling_table_pointer tier=thorough bounded="pool of 7 tables (4 path + 3 allocatable); tree-shaped sparse pre-state (target path, one neighbour word per path table, garbage in allocatable frames); page-table indices (0,1,511,2)"
    //@ obligation C09 C09.map_to_2mib.shape_p2_table.no_access_outside_page_tables tier=thorough bounded="pool of 7 tables (4 path + 3 allocatable); tree-shaped sparse pre-state (target path, one neighbour word per path table, garbage in allocatable frames); page-table indices (0,1,511,2)"
    #[kani::proof]
    #[kani::stub(PageTable::zero, zero_stub)]
    fn c01_map_to_2mib_p2_table_lo() {
        map_to_step!(Size2MiB, "2mib", "p2_table", P2_TABLE, IDX_LO);
        kani::cover!(true, "c01_map_to_2mib_p2_table_lo: reachable");
    }

    //@ obligation C02 C02.map_to_2mib.shape_p2_table.error_leaves_every_mapping tier=thorough bounded="pool of 7 tables (4 path + 3 allocatable); tree-shaped sparse pre-state (target path, one neighbour word per path table, garbage in allocatable frames); page-table indices (511,510,1,0)"
    //@ obligation C02 C02.map_to_2mib.shape_p2_table.error_adds_at_most_parent_flags tier=thorough bounded="pool of 7 tables (4 path + 3 allocatable); tree-shaped sparse pre-state (target path, one neighbour word per path table, garbage in allocatable frames); page-table indices (511,510,1,0)"
    //@ obligation C01 C01.map_to_2mib.shape_p2_table.result_reports_frame tier=thorough bounded="pool of 7 tables (4 path + 3 allocatable); tree-shaped sparse pre-state (target path, one neighbour word per path table, garbage in allocatable frames); page-table indices (511,510,1,0)"
    //@ obligation C02 C02.map_to_2mib.shape_p2_table.documented_outcome tier=thorough bounded="pool of 7 tables (4 path + 3 allocatable); tree-shaped sparse pre-state (target path, one neighbour word per path table, garbage in allocatable frames); page-table indices (511,510,1,0)"
    //@ obligation C01 C01.map_to_2mib.shape_p2_table.translate_agrees_after tier=thorough bounded="pool of 7 tables (4 path + 3 allocatable); tree-shaped sparse pre-state (target path, one neighbour word per path table, garbage in allocatable frames); page-table indices (511,510,1,0)"
    //@ obligation C09 C09.map_to_2mib.shape_p2_table.only_dictated_slots_change tier=thorough bounded="pool of 7 tables (4 path + 3 allocatable); tree-shaped sparse pre-state (target path, one neighbour word per path table, garbage in allocatable frames); page-table indices (511,510,1,0)"
    //@ obligation C09 C09.map_to_2mib.shape_p2_table.allocator_requests tier=thorough bounded="pool of 7 tables (4 path + 3 allocatable); tree-shaped sparse pre-state (target path, one neighbour word per path table, garbage in allocatable frames); page-table indices (511,510,1,0)"
    //@ obligation C09 C09.map_to_2mib.shape_p2_table.new_tables_zeroed_before_use tier=thorough bounded="pool of 7 tables (4 path + 3 allocatable); tree-shaped sparse pre-state (target path, one neighbour word per path table, garbage in allocatable frames); page-table indices (511,510,1,0)"
    //@ obligation C09 C09.map_to_2mib.shape_p2_table.no_dangling_table_pointer tier=thorough bounded="pool of 7 tables (4 path + 3 allocatable); tree-shaped sparse pre-state (target path, one neighbour word per path table, garbage in allocatable frames); page-table indices (511,510,1,0)"
    //@ obligation C09 C09.map_to_2mib.shape_p2_table.no_access_outside_page_tables tier=thorough bounded="pool of 7 tables (4 path + 3 allocatable); tree-shaped sparse pre-state (target path, one neighbour word per path table, garbage in allocatable frames); page-table indices (511,510,1,0)"
    #[kani::proof]
    #[kani::stub(PageTable::zero, zero_stub)]
    fn c01_map_to_2mib_p2_table_hi() {
        map_to_step!(Size2MiB, "2mib", "p2_table", P2_TABLE, IDX_HI);
        kani::cover!(true, "c01_map_to_2mib_p2_table_hi: reachable");
    }

    //@ obligation C02 C02.map_to_2mib.shape_p2_table.error_leaves_every_mapping bounded="pool of 7 tables (4 path + 3 allocatable); tree-shaped sparse pre-state (target path, one neighbour word per path table, garbage in allocatable frames); page-table indices (255,511,0,256)"
    //@ obligation C02 C02.map_to_2mib.shape_p2_table.error_adds_at_most_parent_flags bounded="pool of 7 tables (4 path + 3 allocatable); tree-shaped sparse pre-state (target path, one neighbour word per path table, garbage in allocatable frames); page-table indices (255,511,0,256)"
    //@ obligation C01 C01.map_to_2mib.shape_p2_table.result_reports_frame bounded="pool of 7 tables (4 path + 3 allocatable); tree-shaped sparse pre-state (target path, one neighbour word per path table, garbage in allocatable frames); page-table indices (255,511,0,256)"
    //@ obligation C02 C02.map_to_2mib.shape_p2_table.documented_outcome bounded="pool of 7 tables (4 path + 3 allocatable); tree-shaped sparse pre-state (target path, one neighbour word per path table, garbage in allocatable frames); page-table indices (255,511,0,256)"
    //@ obligation C01 C01.map_to_2mib.shape_p2_table.translate_agrees_after bounded="pool of 7 tables (4 path + 3 allocatable); tree-shaped sparse pre-state (target path, one neighbour word per path table, garbage in allocatable frames); page-table indices (255,511,0,256)"
    //@ obligation C09 C09.map_to_2mib.shape_p2_table.only_dictated_slots_change bounded="pool of 7 tables (4 path + 3 allocatable); tree-shaped sparse pre-state (target path, one neighbour word per path table, garbage in allocatable frames); page-table indices (255,511,0,256)"
    //@ obligation C09 C09.map_to_2mib.shape_p2_table.allocator_requests bounded="pool of 7 tables (4 path + 3 allocatable); tree-shaped sparse pre-state (target path, one neighbour word per path table, garbage in allocatable frames); page-table indices (255,511,0,256)"
    //@ obligation C09 C09.map_to_2mib.shape_p2_table.new_tables_zeroed_before_use bounded="pool of 7 tables (4 path + 3 allocatable); tree-shaped sparse pre-state (target path, one neighbour word per path table, garbage in allocatable frames); page-table indices (255,511,0,256)"
    //@ obligation C09 C09.map_to_2mib.shape_p2_table.no_dangling_table_pointer bounded="pool of 7 tables (4 path + 3 allocatable); tree-shaped sparse pre-state (target path, one neighbour word per path table, garbage in allocatable frames); page-table indices (255,511,0,256)"
    //@ obligation C09 C09.map_to_2mib.shape_p2_table.no_access_outside_page_tables bounded="pool of 7 tables (4 path + 3 allocatable); tree-shaped sparse pre-state (target path, one neighbour word per path table, garbage in allocatable frames); page-table indices (255,511,0,256)"
    #[kani::proof]
    #[kani::stub(PageTable::zero, zero_stub)]
    fn c01_map_to_2mib_p2_table_mid() {
        map_to_step!(Size2MiB, "2mib", "p2_table", P2_TABLE, IDX_MID);
        kani::cover!(true, "c01_map_to_2mib_p2_table_mid: reachable");
    }

    //@ obligation C02 C02.map_to_2mib.shape_p2_table.error_leaves_every_mapping tier=thorough bounded="pool of 7 tables (4 path + 3 allocatable); tree-shaped sparse pre-state (target path, one neighbour word per path table, garbage in allocatable frames); page-table indices (256,0,510,511)"
    //@ obligation C02 C02.map_to_2mib.shape_p2_table.error_adds_at_most_parent_flags tier=thorough bounded="pool of 7 tables (4 path + 3 allocatable); tree-shaped sparse pre-state (target path, one neighbour word per path table, garbage in allocatable frames); page-table indices (256,0,510,511)"
    //@ obligation C01 C01.map_to_2mib.shape_p2_table.result_reports_frame tier=thorough bounded="pool of 7 tables (4 path + 3 allocatable); tree-shaped sparse pre-state (target path, one neighbour word per path table, garbage in allocatable frames); page-table indices (256,0,510,511)"
    //@ obligation C02 C02.map_to_2mib.shape_p2_table.documented_outcome tier=thorough bounded="pool of 7 tables (4 path + 3 allocatable); tree-shaped sparse pre-state (target path, one neighbour word per path table, garbage in allocatable frames); page-table indices (256,0,510,511)"
    //@ obligation C01 C01.map_to_2mib.shape_p2_table.translate_agrees_after tier=thorough bounded="pool of 7 tables (4 path + 3 allocatable); tree-shaped sparse pre-state (target path, one neighbour word per path table, garbage in allocatable frames); page-table indices (256,0,510,511)"
    //@ obligation C09 C09.map_to_2mib.shape_p2_table.only_dictated_slots_change tier=thorough bounded="pool of 7 tables (4 path + 3 allocatable); tree-shaped sparse pre-state (target path, one neighbour word per path table, garbage in allocatable frames); page-table indices (256,0,510,511)"
    //@ obligation C09 C09.map_to_2mib.shape_p2_table.allocator_requests tier=thorough bounded="pool of 7 tables (4 path + 3 allocatable); tree-shaped sparse pre-state (target path, one neighbour word per path table, garbage in allocatable frames); page-table indices (256,0,510,511)"
    //@ obligation C09 C09.map_to_2mib.shape_p2_table.new_tables_zeroed_before_use tier=thorough bounded="pool of 7 tables (4 path + 3 allocatable); tree-shaped sparse pre-state (target path, one neighbour word per path table, garbage in allocatable frames); page-table indices (256,0,510,511)"
    //@ obligation C09 C09.map_to_2mib.shape_p2_table.no_dangling_table_pointer tier=thorough bounded="pool of 7 tables (4 path + 3 allocatable); tree-shaped sparse pre-state (target path, one neighbour word per path table, garbage in allocatable frames); page-table indices (256,0,510,511)"
    //@ obligation C09 C09.map_to_2mib.shape_p2_table.no_access_outside_page_tables tier=thorough bounded="pool of 7 tables (4 path + 3 allocatable); tree-shaped sparse pre-state (target path, one neighbour word per path table, garbage in allocatable frames); page-table indices (256,0,510,511)"
    #[kani::proof]
    #[kani::stub(PageTable::zero, zero_stub)]
    fn c01_map_to_2mib_p2_table_up() {
        map_to_step!(Size2MiB, "2mib", "p2_table", P2_TABLE, IDX_UP);
        kani::cover!(true, "c01_map_to_2mib_p2_table_up: reachable");
    }

    //@ obligation C01 C01.map_to_1gib.shape_p4_absent.target_translates_to_frame tier=thorough bounded="pool of 7 tables (4 path + 3 allocatable); tree-shaped sparse pre-state (target path, one neighbour word per path table, garbage in allocatable frames); page-table indices (0,1,511,2)"
    //@ obligation C11 C11.map_to_1gib.shape_p4_absent.target_translates_to_frame tier=thorough bounded="pool of 7 tables (4 path + 3 allocatable); tree-shaped sparse pre-state (target path, one neighbour word per path table, garbage in allocatable frames); page-table indices (0,1,511,2)"
    //@ obligation C01 C01.map_to_1gib.shape_p4_absent.target_leaf_flags tier=thorough bounded="pool of 7 tables (4 path + 3 allocatable); tree-shaped sparse pre-state (target path, one neighbour word per path table, garbage in allocatable frames); page-table indices (0,1,511,2)"
    //@ obligation C11 C11.map_to_1gib.shape_p4_absent.target_leaf_flags tier=thorough bounded="pool of 7 tables (4 path + 3 allocatable); tree-shaped sparse pre-state (target path, one neighbour word per path table, garbage in allocatable frames); page-table indices (0,1,511,2)"
    //@ obligation C01 C01.map_to_1gib.shape_p4_absent.parent_rights_include_requested tier=thorough bounded="pool of 7 tables (4 path + 3 allocatable); tree-shaped sparse pre-state (target path, one neighbour word per path table, garbage in allocatable frames); page-table indices (0,1,511,2)"
    //@ obligation C01 C01.map_to_1gib.shape_p4_absent.other_addresses_unchanged tier=thorough bounded="pool of 7 tables (4 path + 3 allocatable); tree-shaped sparse pre-state (target path, one neighbour word per path table, garbage in allocatable frames); page-table indices (0,1,511,2)"
    //@ obligation C11 C11.map_to_1gib.shape_p4_absent.other_addresses_unchanged tier=thorough bounded="pool of 7 tables (4 path + 3 allocatable); tree-shaped sparse pre-state (target path, one neighbour word per path table, garbage in allocatable frames); page-table indices (0,1,511,2)"
    //@ obligation C01 C01.map_to_1gib.shape_p4_absent.result_reports_page tier=thorough bounded="pool of 7 tables (4 path + 3 allocatable); tree-shaped sparse pre-state (target path, one neighbour word per path table, garbage in allocatable frames); page-table indices (0,1,511,2)"
    //@ obligation C11 C11.map_to_1gib.shape_p4_absent.token_names_page tier=thorough bounded="pool of 7 tables (4 path + 3 allocatable); tree-shaped sparse pre-state (target path, one neighbour word per path table, garbage in allocatable frames); page-table indices (0,1,511,2)"
    //@ obligation C02 C02.map_to_1gib.shape_p4_absent.error_leaves_every_mapping tier=thorough bounded="pool of 7 tables (4 path + 3 allocatable); tree-shaped sparse pre-state (target path, one neighbour word per path table, garbage in allocatable frames); page-table indices (0,1,511,2)"
    //@ obligation C02 C02.map_to_1gib.shape_p4_absent.error_adds_at_most_parent_flags tier=thorough bounded="pool of 7 tables (4 path + 3 allocatable); tree-shaped sparse pre-state (target path, one neighbour word per path table, garbage in allocatable frames); page-table indices (0,1,511,2)"
    //@ obligation C02 C02.map_to_1gib.shape_p4_absent.documented_outcome tier=thorough bounded="pool of 7 tables (4 path + 3 allocatable); tree-shaped sparse pre-state (target path, one neighbour word per path table, garbage in allocatable frames); page-table indices (0,1,511,2)"
    //@ obligation C01 C01.map_to_1gib.shape_p4_absent.translate_agrees_after tier=thorough bounded="pool of 7 tables (4 path + 3 allocatable); tree-shaped sparse pre-state (target path, one neighbour word per path table, garbage in allocatable frames); page-table indices (0,1,511,2)"
    //@ obligation C09 C09.map_to_1gib.shape_p4_absent.only_dictated_slots_change tier=thorough bounded="pool of 7 tables (4 path + 3 allocatable); tree-shaped sparse pre-state (target path, one neighbour word per path table, garbage in allocatable frames); page-table indices (0,1,511,2)"
    //@ obligation C09 C09.map_to_1gib.shape_p4_absent.allocator_requests tier=thorough bounded="pool of 7 tables (4 path + 3 allocatable); tree-shaped sparse pre-state (target path, one neighbour word per path table, garbage in allocatable frames); page-table indices (0,1,511,2)"
    //@ obligation C09 C09.map_to_1gib.shape_p4_absent.new_tables_zeroed_before_use tier=thorough bounded="pool of 7 tables (4 path + 3 allocatable); tree-shaped sparse pre-state (target path, one neighbour word per path table, garbage in allocatable frames); page-table indices (0,1,511,2)"
    //@ obligation C09 C09.map_to_1gib.shape_p4_absent.no_dangling_table_pointer tier=thorough bounded="pool of 7 tables (4 path + 3 allocatable); tree-shaped sparse pre-state (target path, one neighbour word per path table, garbage in allocatable frames); page-table indices (0,1,511,2)"
    //@ obligation C09 C09.map_to_1gib.shape_p4_absent.no_access_outside_page_tables tier=thorough bounded="pool of 7 tables (4 path + 3 allocatable); tree-shaped sparse pre-state (target path, one neighbour word per path table, garbage in allocatable frames); page-table indices (0,1,511,2)"
    #[kani::proof]
    #[kani::stub(PageTable::zero, zero_stub)]
    fn c01_map_to_1gib_p4_absent_lo() {
        map_to_step!(Size1GiB, "1gib", "p4_absent", P4_ABSENT, IDX_LO);
        kani::cover!(true, "c01_map_to_1gib_p4_absent_lo: reachable");
    }

    //@ obligation C01 C01.map_to_1gib.shape_p4_absent.target_translates_to_frame tier=thorough bounded="pool of 7 tables (4 path + 3 allocatable); tree-shaped sparse pre-state (target path, one neighbour word per path table, garbage in allocatable frames); page-table indices (511,510,1,0)"
    //@ obligation C11 C11.map_to_1gib.shape_p4_absent.target_translates_to_frame tier=thorough bounded="pool of 7 tables (4 path + 3 allocatable); tree-shaped sparse pre-state (target path, one neighbour word per path table, garbage in allocatable frames); page-table indices (511,510,1,0)"
    //@ obligation C01 C01.map_to_1gib.shape_p4_absent.target_leaf_flags tier=thorough bounded="pool of 7 tables (4 path + 3 allocatable); tree-shaped sparse pre-state (target path, one neighbour word per path table, garbage in allocatable frames); page-table indices (511,510,1,0)"
    //@ obligation C11 C11.map_to_1gib.shape_p4_absent.target_leaf_flags tier=thorough bounded="pool of 7 tables (4 path + 3 allocatable); tree-shaped sparse pre-state (target path, one neighbour word per path table, garbage in allocatable frames); page-table indices (511,510,1,0)"
    //@ obligation C01 C01.map_to_1gib.shape_p4_absent.parent_rights_include_requested tier=thorough bounded="pool of 7 tables (4 path + 3 allocatable); tree-shaped sparse pre-state (target path, one neighbour word per path table, garbage in allocatable frames); page-table indices (511,510,1,0)"
    //@ obligation C01 C01.map_to_1gib.shape_p4_absent.other_addresses_unchanged tier=thorough bounded="pool of 7 tables (4 path + 3 allocatable); tree-shaped sparse pre-state (target path, one neighbour word per path table, garbage in allocatable frames); page-table indices (511,510,1,0)"
    //@ obligation C11 C11.map_to_1gib.shape_p4_absent.other_addresses_unchanged tier=thorough bounded="pool of 7 tables (4 path + 3 allocatable); tree-shaped sparse pre-state (target path, one neighbour word per path table, garbage in allocatable frames); page-table indices (511,510,1,0)"
    //@ obligation C01 C01.map_to_1gib.shape_p4_absent.result_reports_page tier=thorough bounded="pool of 7 tables (4 path + 3 allocatable); tree-shaped sparse pre-state (target path, one neighbour word per path table, garbage in allocatable frames); page-table indices (511,510,1,0)"
    //@ obligation C11 C11.map_to_1gib.shape_p4_absent.token_names_page tier=thorough bounded="pool of 7 tables (4 path + 3 allocatable); tree-shaped sparse pre-state (target path, one neighbour word per path table, garbage in allocatable frames); page-table indices (511,510,1,0)"
    //@ obligation C02 C02.map_to_1gib.shape_p4_absent.error_leaves_every_mapping tier=thorough bounded="pool of 7 tables (4 path + 3 allocatable); tree-shaped sparse pre-state (target path, one neighbour word per path table, garbage in allocatable frames); page-table indices (511,510,1,0)"
    //@ obligation C02 C02.map_to_1gib.shape_p4_absent.error_adds_at_most_parent_flags tier=thorough bounded="pool of 7 tables (4 path + 3 allocatable); tree-shaped sparse pre-state (target path, one neighbour word per path table, garbage in allocatable frames); page-table indices (511,510,1,0)"
    //@ obligation C02 C02.map_to_1gib.shape_p4_absent.documented_outcome tier=thorough bounded="pool of 7 tables (4 path + 3 allocatable); tree-shaped sparse pre-state (target path, one neighbour word per path table, garbage in allocatable frames); page-table indices (511,510,1,0)"
    //@ obligation C01 C01.map_to_1gib.shape_p4_absent.translate_agrees_after tier=thorough bounded="pool of 7 tables (4 path + 3 allocatable); tree-shaped sparse pre-state (target path, one neighbour word per path table, garbage in allocatable frames); page-table indices (511,510,1,0)"
    //@ obligation C09 C09.map_to_1gib.shape_p4_absent.only_dictated_slots_change tier=thorough bounded="pool of 7 tables (4 path + 3 allocatable); tree-shaped sparse pre-state (target path, one neighbour word per path table, garbage in allocatable frames); page-table indices (511,510,1,0)"
    //@ obligation C09 C09.map_to_1gib.shape_p4_absent.allocator_requests tier=thorough bounded="pool of 7 tables (4 path + 3 allocatable); tree-shaped sparse pre-state (target path, one neighbour word per path table, garbage in allocatable frames); page-table indices (511,510,1,0)"
    //@ obligation C09 C09.map_to_1gib.shape_p4_absent.new_tables_zeroed_before_use tier=thorough bounded="pool of 7 tables (4 path + 3 allocatable); tree-shaped sparse pre-state (target path, one neighbour word per path table, garbage in allocatable frames); page-table indices (511,510,1,0)"
    //@ obligation C09 C09.map_to_1gib.shape_p4_absent.no_dangling_table_pointer tier=thorough bounded="pool of 7 tables (4 path + 3 allocatable); tree-shaped sparse pre-state (target path, one neighbour word per path table, garbage in allocatable frames); page-table indices (511,510,1,0)"
    //@ obligation C09 C09.map_to_1gib.shape_p4_absent.no_access_outside_page_tables tier=thorough bounded="pool of 7 tables (4 path + 3 allocatable); tree-shaped sparse pre-state (target path, one neighbour word per path table, garbage in allocatable frames); page-table indices (511,510,1,0)"
    #[kani::proof]
    #[kani::stub(PageTable::zero, zero_stub)]
    fn c01_map_to_1gib_p4_absent_hi() {
        map_to_step!(Size1GiB, "1gib", "p4_absent", P4_ABSENT, IDX_HI);
        kani::cover!(true, "c01_map_to_1gib_p4_absent_hi: reachable");
    }

    //@ obligation C01 C01.map_to_1gib.shape_p4_absent.target_translates_to_frame tier=thorough bounded="pool of 7 tables (4 path + 3 allocatable); tree-shaped sparse pre-state (target path, one neighbour word per path table, garbage in allocatable frames); page-table indices (255,511,0,256)"
    //@ obligation C11 C11.map_to_1gib.shape_p4_absent.target_translates_to_frame tier=thorough bounded="pool of 7 tables (4 path + 3 allocatable); tree-shaped sparse pre-state (target path, one neighbour word per path table, garbage in allocatable frames); page-table indices (255,511,0,256)"
    //@ obligation C01 C01.map_to_1gib.shape_p4_absent.target_leaf_flags tier=thorough bounded="pool of 7 tables (4 path + 3 allocatable); tree-shaped sparse pre-state (target path, one neighbour word per path table, garbage in allocatable frames); page-table indices (255,511,0,256)"
    //@ obligation C11 C11.map_to_1gib.shape_p4_absent.target_leaf_flags tier=thorough bounded="pool of 7 tables (4 path + 3 allocatable); tree-shaped sparse pre-state (target path, one neighbour word per path table, garbage in allocatable frames); page-table indices (255,511,0,256)"
    //@ obligation C01 C01.map_to_1gib.shape_p4_absent.parent_rights_include_requested tier=thorough bounded="pool of 7 tables (4 path + 3 allocatable); tree-shaped sparse pre-state (target path, one neighbour word per path table, garbage in allocatable frames); page-table indices (255,511,0,256)"
    //@ obligation C01 C01.map_to_1gib.shape_p4_absent.other_addresses_unchanged tier=thorough bounded="pool of 7 tables (4 path + 3 allocatable); tree-shaped sparse pre-state (target path, one neighbour word per path table, garbage in allocatable frames); page-table indices (255,511,0,256)"
    //@ obligation C11 C11.map_to_1gib.shape_p4_absent.other_addresses_unchanged tier=thorough bounded="pool of 7 tables (4 path + 3 allocatable); tree-shaped sparse pre-state (target path, one neighbour word per path table, garbage in allocatable frames); page-table indices (255,511,0,256)"
    //@ obligation C01 C01.map_to_1gib.shape_p4_absent.result_reports_page tier=thorough bounded="pool of 7 tables (4 path + 3 allocatable); tree-shaped sparse pre-state (target path, one neighbour word per path table, garbage in allocatable frames); page-table indices (255,511,0,256)"
    //@ obligation C11 C11.map_to_1gib.shape_p4_absent.token_names_page tier=thorough bounded="pool of 7 tables (4 path + 3 allocatable); tree-shaped sparse pre-state (target path, one neighbour word per path table, garbage in allocatable frames); page-table indices (255,511,0,256)"
    //@ obligation C02 C02.map_to_1gib.shape_p4_absent.error_leaves_every_mapping tier=thorough bounded="pool of 7 tables (4 path + 3 allocatable); tree-shaped sparse pre-state (target path, one neighbour word per path table, garbage in allocatable frames); page-table indices (255,511,0,256)"
    //@ obligation C02 C02.map_to_1gib.shape_p4_absent.error_adds_at_most_parent_flags tier=thorough bounded="pool of 7 tables (4 path + 3 allocatable); tree-shaped sparse pre-state (target path, one neighbour word per path table, garbage in allocatable frames); page-table indices (255,511,0,256)"
    //@ obligation C02 C02.map_to_1gib.shape_p4_absent.documented_outcome tier=thorough bounded="pool of 7 tables (4 path + 3 allocatable); tree-shaped sparse pre-state (target path, one neighbour word per path table, garbage in allocatable frames); page-table indices (255,511,0,256)"
    //@ obligation C01 C01.map_to_1gib.shape_p4_absent.translate_agrees_after tier=thorough bounded="pool of 7 tables (4 path + 3 allocatable); tree-shaped sparse pre-state (target path, one neighbour word per path table, garbage in allocatable frames); page-table indices (255,511,0,256)"
    //@ obligation C09 C09.map_to_1gib.shape_p4_absent.only_dictated_slots_change tier=thorough bounded="pool of 7 tables (4 path + 3 allocatable); tree-shaped sparse pre-state (target path, one neighbour word per path table, garbage in allocatable frames); page-table indices (255,511,0,256)"
    //@ obligation C09 C09.map_to_1gib.shape_p4_absent.allocator_requests tier=thorough bounded="pool of 7 tables (4 path + 3 allocatable); tree-shaped sparse pre-state (target path, one neighbour word per path table, garbage in allocatable frames); page-table indices (255,511,0,256)"
    //@ obligation C09 C09.map_to_1gib.shape_p4_absent.new_tables_zeroed_before_use tier=thorough bounded="pool of 7 tables (4 path + 3 allocatable); tree-shaped sparse pre-state (target path, one neighbour word per path table, garbage in allocatable frames); page-table indices (255,511,0,256)"
    //@ obligation C09 C09.map_to_1gib.shape_p4_absent.no_dangling_table_pointer tier=thorough bounded="pool of 7 tables (4 path + 3 allocatable); tree-shaped sparse pre-state (target path, one neighbour word per path table, garbage in allocatable frames); page-table indices (255,511,0,256)"
    //@ obligation C09 C09.map_to_1gib.shape_p4_absent.no_access_outside_page_tables tier=thorough bounded="pool of 7 tables (4 path + 3 allocatable); tree-shaped sparse pre-state (target path, one neighbour word per path table, garbage in allocatable frames); page-table indices (255,511,0,256)"
    #[kani::proof]
    #[kani::stub(PageTable::zero, zero_stub)]
    fn c01_map_to_1gib_p4_absent_mid() {
        map_to_step!(Size1GiB, "1gib", "p4_absent", P4_ABSENT, IDX_MID);
        kani::cover!(true, "c01_map_to_1gib_p4_absent_mid: reachable");
    }

    //@ obligation C01 C01.map_to_1gib.shape_p4_absent.target_translates_to_frame tier=thorough bounded="pool of 7 tables (4 path + 3 allocatable); tree-shaped sparse pre-state (target path, one neighbour word per path table, garbage in allocatable frames); page-table indices (256,0,510,511)"
    //@ obligation C11 C11.map_to_1gib.shape_p4_absent.target_translates_to_frame tier=thorough bounded="pool of 7 tables (4 path + 3 allocatable); tree-shaped sparse pre-state (target path, one neighbour word per path table, garbage in allocatable frames); page-table indices (256,0,510,511)"
    //@ obligation C01 C01.map_to_1gib.shape_p4_absent.target_leaf_flags tier=thorough bounded="pool of 7 tables (4 path + 3 allocatable); tree-shaped sparse pre-state (target path, one neighbour word per path table, garbage in allocatable frames); page-table indices (256,0,510,511)"
    //@ obligation C11 C11.map_to_1gib.shape_p4_absent.target_leaf_flags tier=thorough bounded="pool of 7 tables (4 path + 3 allocatable); tree-shaped sparse pre-state (target path, one neighbour word per path table, garbage in allocatable frames); page-table indices (256,0,510,511)"
    //@ obligation C01 C01.map_to_1gib.shape_p4_absent.parent_rights_include_requested tier=thorough bounded="pool of 7 tables (4 path + 3 allocatable); tree-shaped sparse pre-state (target path, one neighbour word per path table, garbage in allocatable frames); page-table indices (256,0,510,511)"
    //@ obligation C01 C01.map_to_1gib.shape_p4_absent.other_addresses_unchanged tier=thorough bounded="pool of 7 tables (4 path + 3 allocatable); tree-shaped sparse pre-state (target path, one neighbour word per path table, garbage in allocatable frames); page-table indices (256,0,510,511)"
    //@ obligation C11 C11.map_to_1gib.shape_p4_absent.other_addresses_unchanged tier=thorough bounded="pool of 7 tables (4 path + 3 allocatable); tree-shaped sparse pre-state (target path, one neighbour word per path table, garbage in allocatable frames); page-table indices (256,0,510,511)"
    //@ obligation C01 C01.map_to_1gib.shape_p4_absent.result_reports_page tier=thorough bounded="pool of 7 tables (4 path + 3 allocatable); tree-shaped sparse pre-state (target path, one neighbour word per path table, garbage in allocatable frames); page-table indices (256,0,510,511)"
    //@ obligation C11 C11.map_to_1gib.shape_p4_absent.token_names_page tier=thorough bounded="pool of 7 tables (4 path + 3 allocatable); tree-shaped sparse pre-state (target path, one neighbour word per path table, garbage in allocatable frames); page-table indices (256,0,510,511)"
    //@ obligation C02 C02.map_to_1gib.shape_p4_absent.error_leaves_every_mapping tier=thorough bounded="pool of 7 tables (4 path + 3 allocatable); tree-shaped sparse pre-state (target path, one neighbour word per path table, garbage in allocatable frames); page-table indices (256,0,510,511)"
    //@ obligation C02 C02.map_to_1gib.shape_p4_absent.error_adds_at_most_parent_flags tier=thorough bounded="pool of 7 tables (4 path + 3 allocatable); tree-shaped sparse pre-state (target path, one neighbour word per path table, garbage in allocatable frames); page-table indices (256,0,510,511)"
    //@ obligation C02 C02.map_to_1gib.shape_p4_absent.documented_outcome tier=thorough bounded="pool of 7 tables (4 path + 3 allocatable); tree-shaped sparse pre-state (target path, one neighbour word per path table, garbage in allocatable frames); page-table indices (256,0,510,511)"
    //@ obligation C01 C01.map_to_1gib.shape_p4_absent.translate_agrees_after tier=thorough bounded="pool of 7 tables (4 path + 3 allocatable); tree-shaped sparse pre-state (target path, one neighbour word per path table, garbage in allocatable frames); page-table indices (256,0,510,511)"
    //@ obligation C09 C09.map_to_1gib.shape_p4_absent.only_dictated_slots_change tier=thorough bounded="pool of 7 tables (4 path + 3 allocatable); tree-shaped sparse pre-state (target path, one neighbour word per path table, garbage in allocatable frames); page-table indices (256,0,510,511)"
    //@ obligation C09 C09.map_to_1gib.shape_p4_absent.allocator_requests tier=thorough bounded="pool of 7 tables (4 path + 3 allocatable); tree-shaped sparse pre-state (target path, one neighbour word per path table, garbage in allocatable frames); page-table indices (256,0,510,511)"
    //@ obligation C09 C09.map_to_1gib.shape_p4_absent.new_tables_zeroed_before_use tier=thorough bounded="pool of 7 tables (4 path + 3 allocatable); tree-shaped sparse pre-state (target path, one neighbour word per path table, garbage in allocatable frames); page-table indices (256,0,510,511)"
    //@ obligation C09 C09.map_to_1gib.shape_p4_absent.no_dangling_table_pointer tier=thorough bounded="pool of 7 tables (4 path + 3 allocatable); tree-shaped sparse pre-state (target path, one neighbour word per path table, garbage in allocatable frames); page-table indices (256,0,510,511)"
    //@ obligation C09 C09.map_to_1gib.shape_p4_absent.no_access_outside_page_tables tier=thorough bounded="pool of 7 tables (4 path + 3 allocatable); tree-shaped sparse pre-state (target path, one neighbour word per path table, garbage in allocatable frames); page-table indices (256,0,510,511)"
    #[kani::proof]
    #[kani::stub(PageTable::zero, zero_stub)]
    fn c01_map_to_1gib_p4_absent_up() {
        map_to_step!(Size1GiB, "1gib", "p4_absent", P4_ABSENT, IDX_UP);
        kani::cover!(true, "c01_map_to_1gib_p4_absent_up: reachable");
    }

    //@ obligation C01 C01.map_to_1gib.shape_p3_absent.target_translates_to_frame tier=thorough bounded="pool of 7 tables (4 path + 3 allocatable); tree-shaped sparse pre-state (target path, one neighbour word per path table, garbage in allocatable frames); page-table indices (0,1,511,2)"
    //@ obligation C11 C11.map_to_1gib.shape_p3_absent.target_translates_to_frame tier=thorough bounded="pool of 7 tables (4 path + 3 allocatable); tree-shaped sparse pre-state (target path, one neighbour word per path table, garbage in allocatable frames); page-table indices (0,1,511,2)"
    //@ obligation C01 C01.map_to_1gib.shape_p3_absent.target_leaf_flags tier=thorough bounded="pool of 7 tables (4 path + 3 allocatable); tree-shaped sparse pre-state (target path, one neighbour word per path table, garbage in allocatable frames); page-table indices (0,1,511,2)"
    //@ obligation C11 C11.map_to_1gib.shape_p3_absent.target_leaf_flags tier=thorough bounded="pool of 7 tables (4 path + 3 allocatable); tree-shaped sparse pre-state (target path, one neighbour word per path table, garbage in allocatable frames); page-table indices (0,1,511,2)"
    //@ obligation C01 C01.map_to_1gib.shape_p3_absent.parent_rights_include_requested tier=thorough bounded="pool of 7 tables (4 path + 3 allocatable); tree-shaped sparse pre-state (target path, one neighbour word per path table, garbage in allocatable frames); page-table indices (0,1,511,2)"
    //@ obligation C01 C01.map_to_1gib.shape_p3_absent.other_addresses_unchanged tier=thorough bounded="pool of 7 tables (4 path + 3 allocatable); tree-shaped sparse pre-state (target path, one neighbour word per path table, garbage in allocatable frames); page-table indices (0,1,511,2)"
    //@ obligation C11 C11.map_to_1gib.shape_p3_absent.other_addresses_unchanged tier=thorough bounded="pool of 7 tables (4 path + 3 allocatable); tree-shaped sparse pre-state (target path, one neighbour word per path table, garbage in allocatable frames); page-table indices (0,1,511,2)"
    //@ obligation C01 C01.map_to_1gib.shape_p3_absent.result_reports_page tier=thorough bounded="pool of 7 tables (4 path + 3 allocatable); tree-shaped sparse pre-state (target path, one neighbour word per path table, garbage in allocatable frames); page-table indices (0,1,511,2)"
    //@ obligation C11 C11.map_to_1gib.shape_p3_absent.token_names_page tier=thorough bounded="pool of 7 tables (4 path + 3 allocatable); tree-shaped sparse pre-state (target path, one neighbour word per path table, garbage in allocatable frames); page-table indices (0,1,511,2)"
    //@ obligation C02 C02.map_to_1gib.shape_p3_absent.documented_outcome tier=thorough bounded="pool of 7 tables (4 path + 3 allocatable); tree-shaped sparse pre-state (target path, one neighbour word per path table, garbage in allocatable frames); page-table indices (0,1,511,2)"
    //@ obligation C01 C01.map_to_1gib.shape_p3_absent.translate_agrees_after tier=thorough bounded="pool of 7 tables (4 path + 3 allocatable); tree-shaped sparse pre-state (target path, one neighbour word per path table, garbage in allocatable frames); page-table indices (0,1,511,2)"
    //@ obligation C09 C09.map_to_1gib.shape_p3_absent.only_dictated_slots_change tier=thorough bounded="pool of 7 tables (4 path + 3 allocatable); tree-shaped sparse pre-state (target path, one neighbour word per path table, garbage in allocatable frames); page-table indices (0,1,511,2)"
    //@ obligation C09 C09.map_to_1gib.shape_p3_absent.allocator_requests tier=thorough bounded="pool of 7 tables (4 path + 3 allocatable); tree-shaped sparse pre-state (target path, one neighbour word per path table, garbage in allocatable frames); page-table indices (0,1,511,2)"
    //@ obligation C09 C09.map_to_1gib.shape_p3_absent.new_tables_zeroed_before_use tier=thorough bounded="pool of 7 tables (4 path + 3 allocatable); tree-shaped sparse pre-state (target path, one neighbour word per path table, garbage in allocatable frames); page-table indices (0,1,511,2)"
    //@ obligation C09 C09.map_to_1gib.shape_p3_absent.no_dangling_table_pointer tier=thorough bounded="pool of 7 tables (4 path + 3 allocatable); tree-shaped sparse pre-state (target path, one neighbour word per path table, garbage in allocatable frames); page-table indices (0,1,511,2)"
    //@ obligation C09 C09.map_to_1gib.shape_p3_absent.no_access_outside_page_tables tier=thorough bounded="pool of 7 tables (4 path + 3 allocatable); tree-shaped sparse pre-state (target path, one neighbour word per path table, garbage in allocatable frames); page-table indices (0,1,511,2)"
    #[kani::proof]
    #[kani::stub(PageTable::zero, zero_stub)]
    fn c01_map_to_1gib_p3_absent_lo() {
        map_to_step!(Size1GiB, "1gib", "p3_absent", P3_ABSENT, IDX_LO);
        kani::cover!(true, "c01_map_to_1gib_p3_absent_lo: reachable");
    }

    //@ obligation C01 C01.map_to_1gib.shape_p3_absent.target_translates_to_frame tier=thorough bounded="pool of 7 tables (4 path + 3 allocatable); tree-shaped sparse pre-state (target path, one neighbour word per path table, garbage in allocatable frames); page-table indices (511,510,1,0)"
    //@ obligation C11 C11.map_to_1gib.shape_p3_absent.target_translates_to_frame tier=thorough bounded="pool of 7 tables (4 path + 3 allocatable); tree-shaped sparse pre-state (target path, one neighbour word per path table, garbage in allocatable frames); page-table indices (511,510,1,0)"
    //@ obligation C01 C01.map_to_1gib.shape_p3_absent.target_leaf_flags tier=thorough bounded="pool of 7 tables (4 path + 3 allocatable); tree-shaped sparse pre-state (target path, one neighbour word per path table, garbage in allocatable frames); page-table indices (511,510,1,0)"
    //@ obligation C11 C11.map_to_1gib.shape_p3_absent.target_leaf_flags tier=thorough bounded="pool of 7 tables (4 path + 3 allocatable); tree-shaped sparse pre-state (target path, one neighbour word per path table, garbage in allocatable frames); page-table indices (511,510,1,0)"
    //@ obligation C01 C01.map_to_1gib.shape_p3_absent.parent_rights_include_requested tier=thorough bounded="pool of 7 tables (4 path + 3 allocatable); tree-shaped sparse pre-state (target path, one neighbour word per path table, garbage in allocatable frames); page-table indices (511,510,1,0)"
    //@ obligation C01 C01.map_to_1gib.shape_p3_absent.other_addresses_unchanged tier=thorough bounded="pool of 7 tables (4 path + 3 allocatable); tree-shaped sparse pre-state (target path, one neighbour word per path table, garbage in allocatable frames); page-table indices (511,510,1,0)"
    //@ obligation C11 C11.map_to_1gib.shape_p3_absent.other_addresses_unchanged tier=thorough bounded="pool of 7 tables (4 path + 3 allocatable); tree-shaped sparse pre-state (target path, one neighbour word per path table, garbage in allocatable frames); page-table indices (511,510,1,0)"
    //@ obligation C01 C01.map_to_1gib.shape_p3_absent.result_reports_page tier=thorough bounded="pool of 7 tables (4 path + 3 allocatable); tree-shaped sparse pre-state (target path, one neighbour word per path table, garbage in allocatable frames); page-table indices (511,510,1,0)"
    //@ obligation C11 C11.map_to_1gib.shape_p3_absent.token_names_page tier=thorough bounded="pool of 7 tables (4 path + 3 allocatable); tree-shaped sparse pre-state (target path, one neighbour word per path table, garbage in allocatable frames); page-table indices (511,510,1,0)"
    //@ obligation C02 C02.map_to_1gib.shape_p3_absent.documented_outcome tier=thorough bounded="pool of 7 tables (4 path + 3 allocatable); tree-shaped sparse pre-state (target path, one neighbour word per path table, garbage in allocatable frames); page-table indices (511,510,1,0)"
    //@ obligation C01 C01.map_to_1gib.shape_p3_absent.translate_agrees_after tier=thorough bounded="pool of 7 tables (4 path + 3 allocatable); tree-shaped sparse pre-state (target path, one neighbour word per path table, garbage in allocatable frames); page-table indices (511,510,1,0)"
    //@ obligation C09 C09.map_to_1gib.shape_p3_absent.only_dictated_slots_change tier=thorough bounded="pool of 7 tables (4 path + 3 allocatable); tree-shaped sparse pre-state (target path, one neighbour word per path table, garbage in allocatable frames); page-table indices (511,510,1,0)"
    //@ obligation C09 C09.map_to_1gib.shape_p3_absent.allocator_requests tier=thorough bounded="pool of 7 tables (4 path + 3 allocatable); tree-shaped sparse pre-state (target path, one neighbour word per path table, garbage in allocatable frames); page-table indices (511,510,1,0)"
    //@ obligation C09 C09.map_to_1gib.shape_p3_absent.new_tables_zeroed_before_use tier=thorough bounded="pool of 7 tables (4 path + 3 allocatable); tree-shaped sparse pre-state (target path, one neighbour word per path table, garbage in allocatable frames); page-table indices (511,510,1,0)"
    //@ obligation C09 C09.map_to_1gib.shape_p3_absent.no_dangling_table_pointer tier=thorough bounded="pool of 7 tables (4 path + 3 allocatable); tree-shaped sparse pre-state (target path, one neighbour word per path table, garbage in allocatable frames); page-table indices (511,510,1,0)"
    //@ obligation C09 C09.map_to_1gib.shape_p3_absent.no_access_outside_page_tables tier=thorough bounded="pool of 7 tables (4 path + 3 allocatable); tree-shaped sparse pre-state (target path, one neighbour word per path table, garbage in allocatable frames); page-table indices (511,510,1,0)"
    #[kani::proof]
    #[kani::stub(PageTable::zero, zero_stub)]
    fn c01_map_to_1gib_p3_absent_hi() {
        map_to_step!(Size1GiB, "1gib", "p3_absent", P3_ABSENT, IDX_HI);
        kani::cover!(true, "c01_map_to_1gib_p3_absent_hi: reachable");
    }

    //@ obligation C01 C01.map_to_1gib.shape_p3_absent.target_translates_to_frame tier=thorough bounded="pool of 7 tables (4 path + 3 allocatable); tree-shaped sparse pre-state (target path, one neighbour word per path table, garbage in allocatable frames); page-table indices (255,511,0,256)"
    //@ obligation C11 C11.map_to_1gib.shape_p3_absent.target_translates_to_frame tier=thorough bounded="pool of 7 tables (4 path + 3 allocatable); tree-shaped sparse pre-state (target path, one neighbour word per path table, garbage in allocatable frames); page-table indices (255,511,0,256)"
    //@ obligation C01 C01.map_to_1gib.shape_p3_absent.target_leaf_flags tier=thorough bounded="pool of 7 tables (4 path + 3 allocatable); tree-shaped sparse pre-state (target path, one neighbour word per path table, garbage in allocatable frames); page-table indices (255,511,0,256)"
    //@ obligation C11 C11.map_to_1gib.shape_p3_absent.target_leaf_flags tier=thorough bounded="pool of 7 tables (4 path + 3 allocatable); tree-shaped sparse pre-state (target path, one neighbour word per path table, garbage in allocatable frames); page-table indices (255,511,0,256)"
    //@ obligation C01 C01.map_to_1gib.shape_p3_absent.parent_rights_include_requested tier=thorough bounded="pool of 7 tables (4 path + 3 allocatable); tree-shaped sparse pre-state (target path, one neighbour word per path table, garbage in allocatable frames); page-table indices (255,511,0,256)"
    //@ obligation C01 C01.map_to_1gib.shape_p3_absent.other_addresses_unchanged tier=thorough bounded="pool of 7 tables (4 path + 3 allocatable); tree-shaped sparse pre-state (target path, one neighbour word per path table, garbage in allocatable frames); page-table indices (255,511,0,256)"
    //@ obligation C11 C11.map_to_1gib.shape_p3_absent.other_addresses_unchanged tier=thorough bounded="pool of 7 tables (4 path + 3 allocatable); tree-shaped sparse pre-state (target path, one neighbour word per path table, garbage in allocatable frames); page-table indices (255,511,0,256)"
    //@ obligation C01 C01.map_to_1gib.shape_p3_absent.result_reports_page tier=thorough bounded="pool of 7 tables (4 path + 3 allocatable); tree-shaped sparse pre-state (target path, one neighbour word per path table, garbage in allocatable frames); page-table indices (255,511,0,256)"
    //@ obligation C11 C11.map_to_1gib.shape_p3_absent.token_names_page tier=thorough bounded="pool of 7 tables (4 path + 3 allocatable); tree-shaped sparse pre-state (target path, one neighbour word per path table, garbage in allocatable frames); page-table indices (255,511,0,256)"
    //@ obligation C02 C02.map_to_1gib.shape_p3_absent.documented_outcome tier=thorough bounded="pool of 7 tables (4 path + 3 allocatable); tree-shaped sparse pre-state (target path, one neighbour word per path table, garbage in allocatable frames); page-table indices (255,511,0,256)"
    //@ obligation C01 C01.map_to_1gib.shape_p3_absent.translate_agrees_after tier=thorough bounded="pool of 7 tables (4 path + 3 allocatable); tree-shaped sparse pre-state (target path, one neighbour word per path table, garbage in allocatable frames); page-table indices (255,511,0,256)"
    //@ obligation C09 C09.map_to_1gib.shape_p3_absent.only_dictated_slots_change tier=thorough bounded="pool of 7 tables (4 path + 3 allocatable); tree-shaped sparse pre-state (target path, one neighbour word per path table, garbage in allocatable frames); page-table indices (255,511,0,256)"
    //@ obligation C09 C09.map_to_1gib.shape_p3_absent.allocator_requests tier=thorough bounded="pool of 7 tables (4 path + 3 allocatable); tree-shaped sparse pre-state (target path, one neighbour word per path table, garbage in allocatable frames); page-table indices (255,511,0,256)"
    //@ obligation C09 C09.map_to_1gib.shape_p3_absent.new_tables_zeroed_before_use tier=thorough bounded="pool of 7 tables (4 path + 3 allocatable); tree-shaped sparse pre-state (target path, one neighbour word per path table, garbage in allocatable frames); page-table indices (255,511,0,256)"
    //@ obligation C09 C09.map_to_1gib.shape_p3_absent.no_dangling_table_pointer tier=thorough bounded="pool of 7 tables (4 path + 3 allocatable); tree-shaped sparse pre-state (target path, one neighbour word per path table, garbage in allocatable frames); page-table indices (255,511,0,256)"
    //@ obligation C09 C09.map_to_1gib.shape_p3_absent.no_access_outside_page_tables tier=thorough bounded="pool of 7 tables (4 path + 3 allocatable); tree-shaped sparse pre-state (target path, one neighbour word per path table, garbage in allocatable frames); page-table indices (255,511,0,256)"
    #[kani::proof]
    #[kani::stub(PageTable::zero, zero_stub)]
    fn c01_map_to_1gib_p3_absent_mid() {
        map_to_step!(Size1GiB, "1gib", "p3_absent", P3_ABSENT, IDX_MID);
        kani::cover!(true, "c01_map_to_1gib_p3_absent_mid: reachable");
    }

    //@ obligation C01 C01.map_to_1gib.shape_p3_absent.target_translates_to_frame bounded="pool of 7 tables (4 path + 3 allocatable); tree-shaped sparse pre-state (target path, one neighbour word per path table, garbage in allocatable frames); page-table indices (256,0,510,511)"
    //@ obligation C11 C11.map_to_1gib.shape_p3_absent.target_translates_to_frame bounded="pool of 7 tables (4 path + 3 allocatable); tree-shaped sparse pre-state (target path, one neighbour word per path table, garbage in allocatable frames); page-table indices (256,0,510,511)"
    //@ obligation C01 C01.map_to_1gib.shape_p3_absent.target_leaf_flags bounded="pool of 7 tables (4 path + 3 allocatable); tree-shaped sparse pre-state (target path, one neighbour word per path table, garbage in allocatable frames); page-table indices (256,0,510,511)"
    //@ obligation C11 C11.map_to_1gib.shape_p3_absent.target_leaf_flags bounded="pool of 7 tables (4 path + 3 allocatable); tree-shaped sparse pre-state (target path, one neighbour word per path table, garbage in allocatable frames); page-table indices (256,0,510,511)"
    //@ obligation C01 C01.map_to_1gib.shape_p3_absent.parent_rights_include_requested bounded="pool of 7 tables (4 path + 3 allocatable); tree-shaped sparse pre-state (target path, one neighbour word per path table, garbage in allocatable frames); page-table indices (256,0,510,511)"
    //@ obligation C01 C01.map_to_1gib.shape_p3_absent.other_addresses_unchanged bounded="pool of 7 tables (4 path + 3 allocatable); tree-shaped sparse pre-state (target path, one neighbour word per path table, garbage in allocatable frames); page-table indices (256,0,510,511)"
    //@ obligation C11 C11.map_to_1gib.shape_p3_absent.other_addresses_unchanged bounded="pool of 7 tables (4 path + 3 allocatable); tree-shaped sparse pre-state (target path, one neighbour word per path table, garbage in allocatable frames); page-table indices (256,0,510,511)"
    //@ obligation C01 C01.map_to_1gib.shape_p3_absent.result_reports_page bounded="pool of 7 tables (4 path + 3 allocatable); tree-shaped sparse pre-state (target path, one neighbour word per path table, garbage in allocatable frames); page-table indices (256,0,510,511)"
    //@ obligation C11 C11.map_to_1gib.shape_p3_absent.token_names_page bounded="pool of 7 tables (4 path + 3 allocatable); tree-shaped sparse pre-state (target path, one neighbour word per path table, garbage in allocatable frames); page-table indices (256,0,510,511)"
    //@ obligation C02 C02.map_to_1gib.shape_p3_absent.documented_outcome bounded="pool of 7 tables (4 path + 3 allocatable); tree-shaped sparse pre-state (target path, one neighbour word per path table, garbage in allocatable frames); page-table indices (256,0,510,511)"
    //@ obligation C01 C01.map_to_1gib.shape_p3_absent.translate_agrees_after bounded="pool of 7 tables (4 path + 3 allocatable); tree-shaped sparse pre-state (target path, one neighbour word per path table, garbage in allocatable frames); page-table indices (256,0,510,511)"
    //@ obligation C09 C09.map_to_1gib.shape_p3_absent.only_dictated_slots_change bounded="pool of 7 tables (4 path + 3 allocatable); tree-shaped sparse pre-state (target path, one neighbour word per path table, garbage in allocatable frames); page-table indices (256,0,510,511)"
    //@ obligation C09 C09.map_to_1gib.shape_p3_absent.allocator_requests bounded="pool of 7 tables (4 path + 3 allocatable); tree-shaped sparse pre-state (target path, one neighbour word per path table, garbage in allocatable frames); page-table indices (256,0,510,511)"
    //@ obligation C09 C09.map_to_1gib.shape_p3_absent.new_tables_zeroed_before_use bounded="pool of 7 tables (4 path + 3 allocatable); tree-shaped sparse pre-state (target path, one neighbour word per path table, garbage in allocatable frames); page-table indices (256,0,510,511)"
    //@ obligation C09 C09.map_to_1gib.shape_p3_absent.no_dangling_table_pointer bounded="pool of 7 tables (4 path + 3 allocatable); tree-shaped sparse pre-state (target path, one neighbour word per path table, garbage in allocatable frames); page-table indices (256,0,510,511)"
    //@ obligation C09 C09.map_to_1gib.shape_p3_absent.no_access_outside_page_tables bounded="pool of 7 tables (4 path + 3 allocatable); tree-shaped sparse pre-state (target path, one neighbour word per path table, garbage in allocatable frames); page-table indices (256,0,510,511)"
    #[kani::proof]
    #[kani::stub(PageTable::zero, zero_stub)]
    fn c01_map_to_1gib_p3_absent_up() {
        map_to_step!(Size1GiB, "1gib", "p3_absent", P3_ABSENT, IDX_UP);
        kani::cover!(true, "c01_map_to_1gib_p3_absent_up: reachable");
    }

    //@ obligation C02 C02.map_to_1gib.shape_p3_huge.error_leaves_every_mapping tier=thorough bounded="pool of 7 tables (4 path + 3 allocatable); tree-shaped sparse pre-state (target path, one neighbour word per path table, garbage in allocatable frames); page-table indices (0,1,511,2)"
    //@ obligation C02 C02.map_to_1gib.shape_p3_huge.error_adds_at_most_parent_flags tier=thorough bounded="pool of 7 tables (4 path + 3 allocatable); tree-shaped sparse pre-state (target path, one neighbour word per path table, garbage in allocatable frames); page-table indices (0,1,511,2)"
    //@ obligation C01 C01.map_to_1gib.shape_p3_huge.result_reports_frame tier=thorough bounded="pool of 7 tables (4 path + 3 allocatable); tree-shaped sparse pre-state (target path, one neighbour word per path table, garbage in allocatable frames); page-table indices (0,1,511,2)"
    //@ obligation C02 C02.map_to_1gib.shape_p3_huge.documented_outcome tier=thorough bounded="pool of 7 tables (4 path + 3 allocatable); tree-shaped sparse pre-state (target path, one neighbour word per path table, garbage in allocatable frames); page-table indices (0,1,511,2)"
    //@ obligation C01 C01.map_to_1gib.shape_p3_huge.translate_agrees_after tier=thorough bounded="pool of 7 tables (4 path + 3 allocatable); tree-shaped sparse pre-state (target path, one neighbour word per path table, garbage in allocatable frames); page-table indices (0,1,511,2)"
    //@ obligation C09 C09.map_to_1gib.shape_p3_huge.only_dictated_slots_change tier=thorough bounded="pool of 7 tables (4 path + 3 allocatable); tree-shaped sparse pre-state (target path, one neighbour word per path table, garbage in allocatable frames); page-table indices (0,1,511,2)"
    //@ obligation C09 C09.map_to_1gib.shape_p3_huge.allocator_requests tier=thorough bounded="pool of 7 tables (4 path + 3 allocatable); tree-shaped sparse pre-state (target path, one neighbour word per path table, garbage in allocatable frames); page-table indices (0,1,511,2)"
    //@ obligation C09 C09.map_to_1gib.shape_p3_huge.new_tables_zeroed_before_use tier=thorough bounded="pool of 7 tables (4 path + 3 allocatable); tree-shaped sparse pre-state (target path, one neighbour word per path table, garbage in allocatable frames); page-table indices (0,1,511,2)"
    //@ obligation C09 C09.map_to_1gib.shape_p3_huge.no_dangling_table_pointer tier=thorough bounded="pool of 7 tables (4 path + 3 allocatable); tree-shaped sparse pre-state (target path, one neighbour word per path table, garbage in allocatable frames); page-table indices (0,1,511,2)"
    //@ obligation C09 C09.map_to_1gib.shape_p3_huge.no_access_outside_page_tables tier=thorough bounded="pool of 7 tables (4 path + 3 allocatable); tree-shaped sparse pre-state (target path, one neighbour word per path table, garbage in allocatable frames); page-table indices (0,1,511,2)"
    #[kani::proof]
    #[kani::stub(PageTable::zero, zero_stub)]
    fn c01_map_to_1gib_p3_huge_lo() {
        map_to_step!(Size1GiB, "1gib", "p3_huge", P3_HUGE, IDX_LO);
        kani::cover!(true, "c01_map_to_1gib_p3_huge_lo: reachable");
    }

    //@ obligation C02 C02.map_to_1gib.shape_p3_huge.error_leaves_every_mapping tier=thorough bounded="pool of 7 tables (4 path + 3 allocatable); tree-shaped sparse pre-state (target path, one neighbour word per path table, garbage in allocatable frames); page-table indices (511,510,1,0)"
    //@ obligation C02 C02.map_to_1gib.shape_p3_huge.error_adds_at_most_parent_flags tier=thorough bounded="pool of 7 tables (4 path + 3 allocatable); tree-shaped sparse pre-state (target path, one neighbour word per path table, garbage in allocatable frames); page-table indices (511,510,1,0)"
    //@ obligation C01 C01.map_to_1gib.shape_p3_huge.result_reports_frame tier=thorough bounded="pool of 7 tables (4 path + 3 allocatable); tree-shaped sparse pre-state (target path, one neighbour word per path table, garbage in allocatable frames); page-table indices (511,510,1,0)"
    //@ obligation C02 C02.map_to_1gib.shape_p3_huge.documented_outcome tier=thorough bounded="pool of 7 tables (4 path + 3 allocatable); tree-shaped sparse pre-state (target path, one neighbour word per path table, garbage in allocatable frames); page-table indices (511,510,1,0)"
    //@ obligation C01 C01.map_to_1gib.shape_p3_huge.translate_agrees_after tier=thorough bounded="pool of 7 tables (4 path + 3 allocatable); tree-shaped sparse pre-state (target path, one neighbour word per path table, garbage in allocatable frames); page-table indices (511,510,1,0)"
    //@ obligation C09 C09.map_to_1gib.shape_p3_huge.only_dictated_slots_change tier=thorough bounded="pool of 7 tables (4 path + 3 allocatable); tree-shaped sparse pre-state (target path, one neighbour word per path table, garbage in allocatable frames); page-table indices (511,510,1,0)"
    //@ obligation C09 C09.map_to_1gib.shape_p3_huge.allocator_requests tier=thorough bounded="pool of 7 tables (4 path + 3 allocatable); tree-shaped sparse pre-state (target path, one neighbour word per path table, garbage in allocatable frames); page-table indices (511,510,1,0)"
    //@ obligation C09 C09.map_to_1gib.shape_p3_huge.new_tables_zeroed_before_use tier=thorough bounded="pool of 7 tables (4 path + 3 allocatable); tree-shaped sparse pre-state (target path, one neighbour word per path table, garbage in allocatable frames); page-table indices (511,510,1,0)"
    //@ obligation C09 C09.map_to_1gib.shape_p3_huge.no_dangling_table_pointer tier=thorough bounded="pool of 7 tables (4 path + 3 allocatable); tree-shaped sparse pre-state (target path, one neighbour word per path table, garbage in allocatable frames); page-table indices (511,510,1,0)"
    //@ obligation C09 C09.map_to_1gib.shape_p3_huge.no_access_outside_page_tables tier=thorough bounded="pool of 7 tables (4 path + 3 allocatable); tree-shaped sparse pre-state (target path, one neighbour word per path table, garbage in allocatable frames); page-table indices (511,510,1,0)"
    #[kani::proof]
    #[kani::stub(PageTable::zero, zero_stub)]
    fn c01_map_to_1gib_p3_huge_hi() {
        map_to_step!(Size1GiB, "1gib", "p3_huge", P3_HUGE, IDX_HI);
        kani::cover!(true, "c01_map_to_1gib_p3_huge_hi: reachable");
    }

    //@ obligation C02 C02.map_to_1gib.shape_p3_huge.error_leaves_every_mapping tier=thorough bounded="pool of 7 tables (4 path + 3 allocatable); tree-shaped sparse pre-state (target path, one neighbour word per path table, garbage in allocatable frames); page-table indices (255,511,0,256)"
    //@ obligation C02 C02.map_to_1gib.shape_p3_huge.error_adds_at_most_parent_flags tier=thorough bounded="pool of 7 tables (4 path + 3 allocatable); tree-shaped sparse pre-state (target path, one neighbour word per path table, garbage in allocatable frames); page-table indices (255,511,0,256)"
    //@ obligation C01 C01.map_to_1gib.shape_p3_huge.result_reports_frame tier=thorough bounded="pool of 7 tables (4 path + 3 allocatable); tree-shaped sparse pre-state (target path, one neighbour word per path table, garbage in allocatable frames); page-table indices (255,511,0,256)"
    //@ obligation C02 C02.map_to_1gib.shape_p3_huge.documented_outcome tier=thorough bounded="pool of 7 tables (4 path + 3 allocatable); tree-shaped sparse pre-state (target path, one neighbour word per path table, garbage in allocatable frames); page-table indices (255,511,0,256)"
    //@ obligation C01 C01.map_to_1gib.shape_p3_huge.translate_agrees_after tier=thorough bounded="pool of 7 tables (4 path + 3 allocatable); tree-shaped sparse pre-state (target path, one neighbour word per path table, garbage in allocatable frames); page-table indices (255,511,0,256)"
    //@ obligation C09 C09.map_to_1gib.shape_p3_huge.only_dictated_slots_change tier=thorough bounded="pool of 7 tables (4 path + 3 allocatable); tree-shaped sparse pre-state (target path, one neighbour word per path table, garbage in allocatable frames); page-table indices (255,511,0,256)"
    //@ obligation C09 C09.map_to_1gib.shape_p3_huge.allocator_requests tier=thorough bounded="pool of 7 tables (4 path + 3 allocatable); tree-shaped sparse pre-state (target path, one neighbour word per path table, garbage in allocatable frames); page-table indices (255,511,0,256)"
    //@ obligation C09 C09.map_to_1gib.shape_p3_huge.new_tables_zeroed_before_use tier=thorough bounded="pool of 7 tables (4 path + 3 allocatable); tree-shaped sparse pre-state (target path, one neighbour word per path table, garbage in allocatable frames); page-table indices (255,511,0,256)"
    //@ obligation C09 C09.map_to_1gib.shape_p3_huge.no_dangling_table_pointer tier=thorough bounded="pool of 7 tables (4 path + 3 allocatable); tree-shaped sparse pre-state (target path, one neighbour word per path table, garbage in allocatable frames); page-table indices (255,511,0,256)"
    //@ obligation C09 C09.map_to_1gib.shape_p3_huge.no_access_outside_page_tables tier=thorough bounded="pool of 7 tables (4 path + 3 allocatable); tree-shaped sparse pre-state (target path, one neighbour word per path table, garbage in allocatable frames); page-table indices (255,511,0,256)"
    #[kani::proof]
    #[kani::stub(PageTable::zero, zero_stub)]
    fn c01_map_to_1gib_p3_huge_mid() {
        map_to_step!(Size1GiB, "1gib", "p3_huge", P3_HUGE, IDX_MID);
        kani::cover!(true, "c01_map_to_1gib_p3_huge_mid: reachable");
    }

    //@ obligation C02 C02.map_to_1gib.shape_p3_huge.error_leaves_every_mapping tier=thorough bounded="pool of 7 tables (4 path + 3 allocatable); tree-shaped sparse pre-state (target path, one neighbour word per path table, garbage in allocatable frames); page-table indices (256,0,510,511)"
    //@ obligation C02 C02.map_to_1gib.shape_p3_huge.error_adds_at_most_parent_flags tier=thorough bounded="pool of 7 tables (4 path + 3 allocatable); tree-shaped sparse pre-state (target path, one neighbour word per path table, garbage in allocatable frames); page-table indices (256,0,510,511)"
    //@ obligation C01 C01.map_to_1gib.shape_p3_huge.result_reports_frame tier=thorough bounded="pool of 7 tables (4 path + 3 allocatable); tree-shaped sparse pre-state (target path, one neighbour word per path table, garbage in allocatable frames); page-table indices (256,0,510,511)"
    //@ obligation C02 C02.map_to_1gib.shape_p3_huge.documented_outcome tier=thorough bounded="pool of 7 tables (4 path + 3 allocatable); tree-shaped sparse pre-state (target path, one neighbour word per path table, garbage in allocatable frames); page-table indices (256,0,510,511)"
    //@ obligation C01 C01.map_to_1gib.shape_p3_huge.translate_agrees_after tier=thorough bounded="pool of 7 tables (4 path + 3 allocatable); tree-shaped sparse pre-state (target path, one neighbour word per path table, garbage in allocatable frames); page-table indices (256,0,510,511)"
    //@ obligation C09 C09.map_to_1gib.shape_p3_huge.only_dictated_slots_change tier=thorough bounded="pool of 7 tables (4 path + 3 allocatable); tree-shaped sparse pre-state (target path, one neighbour word per path table, garbage in allocatable frames); page-table indices (256,0,510,511)"
    //@ obligation C09 C09.map_to_1gib.shape_p3_huge.allocator_requests tier=thorough bounded="pool of 7 tables (4 path + 3 allocatable); tree-shaped sparse pre-state (target path, one neighbour word per path table, garbage in allocatable frames); page-table indices (256,0,510,511)"
    //@ obligation C09 C09.map_to_1gib.shape_p3_huge.new_tables_zeroed_before_use tier=thorough bounded="pool of 7 tables (4 path + 3 allocatable); tree-shaped sparse pre-state (target path, one neighbour word per path table, garbage in allocatable frames); page-table indices (256,0,510,511)"
    //@ obligation C09 C09.map_to_1gib.shape_p3_huge.no_dangling_table_pointer tier=thorough bounded="pool of 7 tables (4 path + 3 allocatable); tree-shaped sparse pre-state (target path, one neighbour word per path table, garbage in allocatable frames); page-table indices (256,0,510,511)"
    //@ obligation C09 C09.map_to_1gib.shape_p3_huge.no_access_outside_page_tables tier=thorough bounded="pool of 7 tables (4 path + 3 allocatable); tree-shaped sparse pre-state (target path, one neighbour word per path table, garbage in allocatable frames); page-table indices (256,0,510,511)"
    #[kani::proof]
    #[kani::stub(PageTable::zero, zero_stub)]
    fn c01_map_to_1gib_p3_huge_up() {
        map_to_step!(Size1GiB, "1gib", "p3_huge", P3_HUGE, IDX_UP);
        kani::cover!(true, "c01_map_to_1gib_p3_huge_up: reachable");
    }

    //@ obligation C02 C02.map_to_1gib.shape_p3_table.error_leaves_every_mapping tier=thorough bounded="pool of 7 tables (4 path + 3 allocatable); tree-shaped sparse pre-state (target path, one neighbour word per path table, garbage in allocatable frames); page-table indices (0,1,511,2)"
    //@ obligation C02 C02.map_to_1gib.shape_p3_table.error_adds_at_most_parent_flags tier=thorough bounded="pool of 7 tables (4 path + 3 allocatable); tree-shaped sparse pre-state (target path, one neighbour word per path table, garbage in allocatable frames); page-table indices (0,1,511,2)"
    //@ obligation C01 C01.map_to_1gib.shape_p3_table.result_reports_frame tier=thorough bounded="pool of 7 tables (4 path + 3 allocatable); tree-shaped sparse pre-state (target path, one neighbour word per path table, garbage in allocatable frames); page-table indices (0,1,511,2)"
    //@ obligation C02 C02.map_to_1gib.shape_p3_table.documented_outcome tier=thorough bounded="pool of 7 tables (4 path + 3 allocatable); tree-shaped sparse pre-state (target path, one neighbour word per path table, garbage in allocatable frames); page-table indices (0,1,511,2)"
    //@ obligation C01 C01.map_to_1gib.shape_p3_table.translate_agrees_after tier=thorough bounded="pool of 7 tables (4 path + 3 allocatable); tree-shaped sparse pre-state (target path, one neighbour word per path table, garbage in allocatable frames); page-table indices (0,1,511,2)"
    //@ obligation C09 C09.map_to_1gib.shape_p3_table.only_dictated_slots_change tier=thorough bounded="pool of 7 tables (4 path + 3 allocatable); tree-shaped sparse pre-state (target path, one neighbour word per path table, garbage in allocatable frames); page-table indices (0,1,511,2)"
    //@ obligation C09 C09.map_to_1gib.shape_p3_table.allocator_requests tier=thorough bounded="pool of 7 tables (4 path + 3 allocatable); tree-shaped sparse pre-state (target path, one neighbour word per path table, garbage in allocatable frames); page-table indices (0,1,511,2)"
    //@ obligation C09 C09.map_to_1gib.shape_p3_table.new_tables_zeroed_before_use tier=thorough bounded="pool of 7 tables (4 path + 3 allocatable); tree-shaped sparse pre-state (target path, one neighbour word per path table, garbage in allocatable frames); page-table indices (0,1,511,2)"
    //@ obligation C09 C09.map_to_1gib.shape_p3_table.no_dangling_table_pointer tier=thorough bounded="pool of 7 tables (4 path + 3 allocatable); tree-shaped sparse pre-state (target path, one neighbour word per path table, garbage in allocatable frames); page-table indices (0,1,511,2)"
    //@ obligation C09 C09.map_to_1gib.shape_p3_table.no_access_outside_page_tables tier=thorough bounded="pool of 7 tables (4 path + 3 allocatable); tree-shaped sparse pre-state (target path, one neighbour word per path table, garbage in allocatable frames); page-table indices (0,1,511,2)"
    #[kani::proof]
    #[kani::stub(PageTable::zero, zero_stub)]
    fn c01_map_to_1gib_p3_table_lo() {
        map_to_step!(Size1GiB, "1gib", "p3_table", P3_TABLE, IDX_LO);
        kani::cover!(true, "c01_map_to_1gib_p3_table_lo: reachable");
    }

    //@ obligation C02 C02.map_to_1gib.shape_p3_table.error_leaves_every_mapping tier=thorough bounded="pool of 7 tables (4 path + 3 allocatable); tree-shaped sparse pre-state (target path, one neighbour word per path table, garbage in allocatable frames); page-table indices (511,510,1,0)"
    //@ obligation C02 C02.map_to_1gib.shape_p3_table.error_adds_at_most_parent_flags tier=thorough bounded="pool of 7 tables (4 path + 3 allocatable); tree-shaped sparse pre-state (target path, one neighbour word per path table, garbage in allocatable frames); page-table indices (511,510,1,0)"
    //@ obligation C01 C01.map_to_1gib.shape_p3_table.result_reports_frame tier=thorough bounded="pool of 7 tables (4 path + 3 allocatable); tree-shaped sparse pre-state (target path, one neighbour word per path table, garbage in allocatable frames); page-table indices (511,510,1,0)"
    //@ obligation C02 C02.map_to_1gib.shape_p3_table.documented_outcome tier=thorough bounded="pool of 7 tables (4 path + 3 allocatable); tree-shaped sparse pre-state (target path, one neighbour word per path table, garbage in allocatable frames); page-table indices (511,510,1,0)"
    //@ obligation C01 C01.map_to_1gib.shape_p3_table.translate_agrees_after tier=thorough bounded="pool of 7 tables (4 path + 3 allocatable); tree-shaped sparse pre-state (target path, one neighbour word per path table, garbage in allocatable frames); page-table indices (511,510,1,0)"
    //@ obligation C09 C09.map_to_1gib.shape_p3_table.only_dictated_slots_change tier=thorough bounded="pool of 7 tables (4 path + 3 allocatable); tree-shaped sparse pre-state (target path, one neighbour word per path table, garbage in allocatable frames); page-table indices (511,510,1,0)"
    //@ obligation C09 C09.map_to_1gib.shape_p3_table.allocator_requests tier=thorough bounded="pool of 7 tables (4 path + 3 allocatable); tree-shaped sparse pre-state (target path, one neighbour word per path table, garbage in allocatable frames); page-table indices (511,510,1,0)"
    //@ obligation C09 C09.map_to_1gib.shape_p3_table.new_tables_zeroed_before_use tier=thorough bounded="pool of 7 tables (4 path + 3 allocatable); tree-shaped sparse pre-state (target path, one neighbour word per path table, garbage in allocatable frames); page-table indices (511,510,1,0)"
    //@ obligation C09 C09.map_to_1gib.shape_p3_table.no_dangling_table_pointer tier=thorough bounded="pool of 7 tables (4 path + 3 allocatable); tree-shaped sparse pre-state (target path, one neighbour word per path table, garbage in allocatable frames); page-table indices (511,510,1,0)"
    //@ obligation C09 C09.map_to_1gib.shape_p3_table.no_access_outside_page_tables tier=thorough bounded="pool of 7 tables (4 path + 3 allocatable); tree-shaped sparse pre-state (target path, one neighbour word per path table, garbage in allocatable frames); page-table indices (511,510,1,0)"
    #[kani::proof]
    #[kani::stub(PageTable::zero, zero_stub)]
    fn c01_map_to_1gib_p3_table_hi() {
        map_to_step!(Size1GiB, "1gib", "p3_table", P3_TABLE, IDX_HI);
        kani::cover!(true, "c01_map_to_1gib_p3_table_hi: reachable");
    }

    //@ obligation C02 C02.map_to_1gib.shape_p3_table.error_leaves_every_mapping tier=thorough bounded="pool of 7 tables (4 path + 3 allocatable); tree-shaped sparse pre-state (target path, one neighbour word per path table, garbage in allocatable frames); page-table indices (255,511,0,256)"
    //@ obligation C02 C02.map_to_1gib.shape_p3_table.error_adds_at_most_parent_flags tier=thorough bounded="pool of 7 tables (4 path + 3 allocatable); tree-shaped sparse pre-state (target path, one neighbour word per path table, garbage in allocatable frames); page-table indices (255,511,0,256)"
    //@ obligation C01 C01.map_to_1gib.shape_p3_table.result_reports_frame tier=thorough bounded="pool of 7 tables (4 path + 3 allocatable); tree-shaped sparse pre-state (target path, one neighbour word per path table, garbage in allocatable frames); page-table indices (255,511,0,256)"
    //@ obligation C02 C02.map_to_1gib.shape_p3_table.documented_outcome tier=thorough bounded="pool of 7 tables (4 path + 3 allocatable); tree-shaped sparse pre-state (target path, one neighbour word per path table, garbage in allocatable frames); page-table indices (255,511,0,256)"
    //@ obligation C01 C01.map_to_1gib.shape_p3_table.translate_agrees_after tier=thorough bounded="pool of 7 tables (4 path + 3 allocatable); tree-shaped sparse pre-state (target path, one neighbour word per path table, garbage in allocatable frames); page-table indices (255,511,0,256)"
    //@ obligation C09 C09.map_to_1gib.shape_p3_table.only_dictated_slots_change tier=thorough bounded="pool of 7 tables (4 path + 3 allocatable); tree-shaped sparse pre-state (target path, one neighbour word per path table, garbage in allocatable frames); page-table indices (255,511,0,256)"
    //@ obligation C09 C09.map_to_1gib.shape_p3_table.allocator_requests tier=thorough bounded="pool of 7 tables (4 path + 3 allocatable); tree-shaped sparse pre-state (target path, one neighbour word per path table, garbage in allocatable frames); page-table indices (255,511,0,256)"
    //@ obligation C09 C09.map_to_1gib.shape_p3_table.new_tables_zeroed_before_use tier=thorough bounded="pool of 7 tables (4 path + 3 allocatable); tree-shaped sparse pre-state (target path, one neighbour word per path table, garbage in allocatable frames); page-table indices (255,511,0,256)"
    //@ obligation C09 C09.map_to_1gib.shape_p3_table.no_dangling_table_pointer tier=thorough bounded="pool of 7 tables (4 path + 3 allocatable); tree-shaped sparse pre-state (target path, one neighbour word per path table, garbage in allocatable frames); page-table indices (255,511,0,256)"
    //@ obligation C09 C09.map_to_1gib.shape_p3_table.no_access_outside_page_tables tier=thorough bounded="pool of 7 tables (4 path + 3 allocatable); tree-shaped sparse pre-state (target path, one neighbour word per path table, garbage in allocatable frames); page-table indices (255,511,0,256)"
    #[kani::proof]
    #[kani::stub(PageTable::zero, zero_stub)]
    fn c01_map_to_1gib_p3_table_mid() {
        map_to_step!(Size1GiB, "1gib", "p3_table", P3_TABLE, IDX_MID);
        kani::cover!(true, "c01_map_to_1gib_p3_table_mid: reachable");
    }

    //@ obligation C02 C02.map_to_1gib.shape_p3_table.error_leaves_every_mapping tier=thorough bounded="pool of 7 tables (4 path + 3 allocatable); tree-shaped sparse pre-state (target path, one neighbour word per path table, garbage in allocatable frames); page-table indices (256,0,510,511)"
    //@ obligation C02 C02.map_to_1gib.shape_p3_table.error_adds_at_most_parent_flags tier=thorough bounded="pool of 7 tables (4 path + 3 allocatable); tree-shaped sparse pre-state (target path, one neighbour word per path table, garbage in allocatable frames); page-table indices (256,0,510,511)"
    //@ obligation C01 C01.map_to_1gib.shape_p3_table.result_reports_frame tier=thorough bounded="pool of 7 tables (4 path + 3 allocatable); tree-shaped sparse pre-state (target path, one neighbour word per path table, garbage in allocatable frames); page-table indices (256,0,510,511)"
    //@ obligation C02 C02.map_to_1gib.shape_p3_table.documented_outcome tier=thorough bounded="pool of 7 tables (4 path + 3 allocatable); tree-shaped sparse pre-state (target path, one neighbour word per path table, garbage in allocatable frames); page-table indices (256,0,510,511)"
    //@ obligation C01 C01.map_to_1gib.shape_p3_table.translate_agrees_after tier=thorough bounded="pool of 7 tables (4 path + 3 allocatable); tree-shaped sparse pre-state (target path, one neighbour word per path table, garbage in allocatable frames); page-table indices (256,0,510,511)"
    //@ obligation C09 C09.map_to_1gib.shape_p3_table.only_dictated_slots_change tier=thorough bounded="pool of 7 tables (4 path + 3 allocatable); tree-shaped sparse pre-state (target path, one neighbour word per path table, garbage in allocatable frames); page-table indices (256,0,510,511)"
    //@ obligation C09 C09.map_to_1gib.shape_p3_table.allocator_requests tier=thorough bounded="pool of 7 tables (4 path + 3 allocatable); tree-shaped sparse pre-state (target path, one neighbour word per path table, garbage in allocatable frames); page-table indices (256,0,510,511)"
    //@ obligation C09 C09.map_to_1gib.shape_p3_table.new_tables_zeroed_before_use tier=thorough bounded="pool of 7 tables (4 path + 3 allocatable); tree-shaped sparse pre-state (target path, one neighbour word per path table, garbage in allocatable frames); page-table indices (256,0,510,511)"
    //@ obligation C09 C09.map_to_1gib.shape_p3_table.no_dangling_table_pointer tier=thorough bounded="pool of 7 tables (4 path + 3 allocatable); tree-shaped sparse pre-state (target path, one neighbour word per path table, garbage in allocatable frames); page-table indices (256,0,510,511)"
    //@ obligation C09 C09.map_to_1gib.shape_p3_table.no_access_outside_page_tables tier=thorough bounded="pool of 7 tables (4 path + 3 allocatable); tree-shaped sparse pre-state (target path, one neighbour word per path table, garbage in allocatable frames); page-table indices (256,0,510,511)"
    #[kani::proof]
    #[kani::stub(PageTable::zero, zero_stub)]
    fn c01_map_to_1gib_p3_table_up() {
        map_to_step!(Size1GiB, "1gib", "p3_table", P3_TABLE, IDX_UP);
        kani::cover!(true, "c01_map_to_1gib_p3_table_up: reachable");
    }
}
