//@ include-into src/structures/paging/mapper/mapped_page_table.rs
//
// C01 / C02 / C09 / C11 step harnesses for `map_to_with_table_flags` of MappedPageTable<P>,
// P = the 7-table pool of c01_pool.rs (an arbitrary injective frame-to-pointer mapping).
//
// ONE call from an ARBITRARY well-formed pre-state of the given shape; all histories follow by
// induction over steps within the bounds stated on every directive line. Symbolic: every word on
// the target path (within its shape), the 7 pool frame addresses, the frame to map, leaf flags
// (containing PRESENT), parent flags (containing PRESENT, not HUGE_PAGE), the allocator schedule
// (each of up to 3 requests succeeds with a garbage-filled pool frame or fails), one background
// word in a symbolic slot, a probe address, and the (table, slot) pair of the frame check.
//
// Flag domains (DESIGN.md C08: bit 12 is PAT only in an entry that maps a huge page; in every
// other entry it is an address bit): 4 KiB leaf flags and parent flags never contain bit 12.

#[cfg(kani)]
mod verif_c01_step_map {
    use super::verif_c01_pool::*;
    use super::*;

    pub(super) trait Sz: PageSize {
        /// number of parent levels above the leaf entry (P4 .. ): 3 / 2 / 1
        const L: usize;
        const BYTES: u64;
        /// bit the mapper must add to the leaf entry: PS for huge pages
        const LEAF_EXTRA: u64;
    }
    impl Sz for Size4KiB {
        const L: usize = 3;
        const BYTES: u64 = SZ_4K;
        const LEAF_EXTRA: u64 = 0;
    }
    impl Sz for Size2MiB {
        const L: usize = 2;
        const BYTES: u64 = SZ_2M;
        const LEAF_EXTRA: u64 = PS;
    }
    impl Sz for Size1GiB {
        const L: usize = 1;
        const BYTES: u64 = SZ_1G;
        const LEAF_EXTRA: u64 = PS;
    }

    pub(super) fn any_leaf_flags<S: Sz>() -> PageTableFlags {
        let f = PageTableFlags::from_bits_truncate(kani::any());
        kani::assume(f.bits() & P != 0);
        if S::L == 3 {
            kani::assume(f.bits() & PAT_HUGE == 0);
        }
        f
    }
    pub(super) fn any_parent_flags() -> PageTableFlags {
        let f = PageTableFlags::from_bits_truncate(kani::any());
        kani::assume(f.bits() & P != 0 && f.bits() & PS == 0 && f.bits() & PAT_HUGE == 0);
        f
    }
    pub(super) fn any_frame<S: Sz>() -> PhysFrame<S> {
        let a: u64 = kani::any();
        kani::assume(a & !ADDR == 0 && a & (S::BYTES - 1) == 0);
        PhysFrame::from_start_address(PhysAddr::new(a)).unwrap()
    }
    pub(super) fn page_of<S: Sz>(ix: &Idx) -> Page<S> {
        Page::from_start_address(VirtAddr::new(va_of(ix, 0) & !(S::BYTES - 1))).unwrap()
    }

    pub(super) const OK: u8 = 0;
    pub(super) const ERR_ALLOC: u8 = 1;
    pub(super) const ERR_HUGE: u8 = 2;
    pub(super) const ERR_ALREADY: u8 = 3;

    pub(super) struct Model {
        pub outcome: u8,
        pub requests: usize,
        pub created: usize,
        pub dict: Dict,
        /// slot of the huge leaf that stopped the call (ERR_HUGE), else NONE
        pub huge_k: usize,
        pub huge_s: usize,
    }

    /// What the documentation of `map_to_with_table_flags` dictates for this pre-state: walk the
    /// `levels` parent entries from P4; an existing table entry gets the parent flags added; an
    /// absent one is filled with a fresh zeroed frame (one allocator request each, failing the
    /// call if refused); a huge leaf on the way fails the call; then the leaf slot must be unused
    /// and receives frame | flags.
    pub(super) fn model_map_to(pool: &Pool, ix: &Idx, sh: Shape, pre: &Pre, levels: usize, leaf_word: u64, pf: u64, ok: &[bool; 3]) -> Model {
        let mut m = Model { outcome: OK, requests: 0, created: 0, dict: Dict::new(), huge_k: NONE, huge_s: 0 };
        let mut cur = 0usize;
        let mut lvl = 0usize;
        while lvl < levels {
            if lvl < sh.d {
                // existing table entry: flags added, never replaced
                m.dict.set(cur, ix.0[lvl], pre.e[lvl] | pf, 0);
                cur = lvl + 1;
            } else if lvl == sh.d && pre.e[lvl] != 0 {
                // a leaf of a larger page (shape HUGE, or ANY that chose one)
                m.outcome = ERR_HUGE;
                m.huge_k = cur;
                m.huge_s = ix.0[lvl];
                return m;
            } else {
                m.requests += 1;
                if !ok[m.created] {
                    m.outcome = ERR_ALLOC;
                    return m;
                }
                let new = 4 + m.created;
                m.dict.set(cur, ix.0[lvl], pool.f[new] | pf, 0);
                m.dict.zeroed[new] = true;
                cur = new;
                m.created += 1;
            }
            lvl += 1;
        }
        let old = if levels <= sh.d { pre.e[levels] } else { 0 };
        if old != 0 {
            m.outcome = ERR_ALREADY;
            return m;
        }
        m.dict.set(cur, ix.0[levels], leaf_word, 0);
        m
    }

    /// On an error, an existing parent entry may or may not have received the parent flags.
    pub(super) fn relax_for_error(d: &mut Dict, pre: &Pre, sh: Shape, pf: u64) {
        let mut j = 0;
        while j < 5 {
            if j < d.n && j < sh.d {
                // the first sh.d dictated slots are the existing table entries, in order
                d.v[j] = pre.e[j];
                d.may[j] = pf & !pre.e[j];
            }
            j += 1;
        }
    }

    pub(super) fn translate_agrees(r: &TranslateResult, w: &Walk, v: u64) -> bool {
        match r {
            TranslateResult::NotMapped => w.kind == NOT_MAPPED,
            TranslateResult::InvalidFrameAddress(_) => false,
            TranslateResult::Mapped { frame, offset, flags } => {
                let strip = if frame.size() == SZ_4K { PAT_HUGE } else { 0 };
                w.kind == MAPPED
                    && frame.size() == w.size
                    && *offset == v & (w.size - 1)
                    && frame.start_address().as_u64() == w.phys & !(w.size - 1)
                    && flags.bits() & !strip == w.leaf & NAMEABLE
            }
        }
    }

    /// The step. `$sz` and `$shape` are the name parts of the obligations.
    macro_rules! map_to_step {
        ($S:ty, $sz:literal, $shape:literal, $SH:expr, $ix:expr) => {{
            let ix: Idx = $ix;
            let sh: Shape = $SH;
            mk_pool!(pool);
            let pre = build_path(&pool, &ix, sh);
            let (_bk, _bs, _bw) = add_background(&pool, &ix);
            add_garbage(&pool);
            let page: Page<$S> = page_of::<$S>(&ix);
            let frame: PhysFrame<$S> = any_frame::<$S>();
            let flags = any_leaf_flags::<$S>();
            let pf = any_parent_flags();
            let mut alloc = any_sched(&pool);
            let sched = alloc.ok;
            // probes: one address inside the target page, one anywhere
            let inside = page.start_address().as_u64() | (kani::any::<u64>() & (<$S as Sz>::BYTES - 1));
            let probe = any_canonical();
            let probe_in_page = probe & !(<$S as Sz>::BYTES - 1) == page.start_address().as_u64();
            let w_in_pre = hw_walk(&pool, inside);
            let w_pr_pre = hw_walk(&pool, probe);
            kani::assume(w_in_pre.kind != MALFORMED && w_pr_pre.kind != MALFORMED);
            let (fk, fs, f_pre) = any_slot(&pool);

            let mut mapper = unsafe { MappedPageTable::new(&mut *pool.p[0], pool) };
            let res = unsafe { Mapper::<$S>::map_to_with_table_flags(&mut mapper, page, frame, flags, pf, &mut alloc) };

            let leaf_word = frame.start_address().as_u64() | flags.bits() | <$S as Sz>::LEAF_EXTRA;
            let mut m = model_map_to(&pool, &ix, sh, &pre, <$S as Sz>::L, leaf_word, pf.bits(), &sched);
            let w_in = hw_walk(&pool, inside);
            let w_pr = hw_walk(&pool, probe);
            let f_post = pool.rd(fk, fs);

            // ---- the documented outcome for this state (C02) and what a success reports (C01, C11)
            match &res {
                Ok(token) => {
                    kani::assert(m.outcome == OK, concat!("C02.map_to_", $sz, ".shape_", $shape, ".documented_outcome: Ok only where the documentation dictates success"));
                    kani::assert(token.page() == page, concat!("C11.map_to_", $sz, ".shape_", $shape, ".token_names_page"));
                }
                Err(MapToError::FrameAllocationFailed) => {
                    kani::assert(m.outcome == ERR_ALLOC, concat!("C02.map_to_", $sz, ".shape_", $shape, ".documented_outcome: FrameAllocationFailed iff a needed frame was refused"));
                }
                Err(MapToError::ParentEntryHugePage) => {
                    kani::assert(m.outcome == ERR_HUGE, concat!("C02.map_to_", $sz, ".shape_", $shape, ".documented_outcome: ParentEntryHugePage iff the page lies inside a larger huge page"));
                }
                Err(MapToError::PageAlreadyMapped(f)) => {
                    kani::assert(m.outcome == ERR_ALREADY, concat!("C02.map_to_", $sz, ".shape_", $shape, ".documented_outcome: PageAlreadyMapped iff the leaf slot is occupied"));
                    kani::assert(*f == frame, concat!("C01.map_to_", $sz, ".shape_", $shape, ".result_reports_frame: PageAlreadyMapped carries the frame argument"));
                }
            }

            if res.is_ok() {
                // ---- C01: the new mapping is exactly the dictated one
                kani::assert(
                    w_in.kind == MAPPED && w_in.size == <$S as Sz>::BYTES && w_in.phys == frame.start_address().as_u64() + (inside & (<$S as Sz>::BYTES - 1)),
                    concat!("C01.map_to_", $sz, ".shape_", $shape, ".target_translates_to_frame: every address of the page walks to frame + offset at this page size"),
                );
                kani::assert(
                    w_in.leaf == flags.bits() | <$S as Sz>::LEAF_EXTRA,
                    concat!("C01.map_to_", $sz, ".shape_", $shape, ".target_leaf_flags: leaf flags == flags (plus PS for a huge page)"),
                );
                kani::assert(
                    (pf.bits() & RW == 0 || w_in.pw) && (pf.bits() & US == 0 || w_in.pu),
                    concat!("C01.map_to_", $sz, ".shape_", $shape, ".parent_rights_include_requested: writable/user requested for the parents hold along the walk"),
                );
                kani::assert(
                    probe_in_page || (same_mapping(&w_pr_pre, &w_pr) && rights_only_added(&w_pr_pre, &w_pr, pf.bits())),
                    concat!("C01.map_to_", $sz, ".shape_", $shape, ".other_addresses_unchanged: an address outside the page keeps frame, size, leaf flags; parent rights only gain requested bits"),
                );
            } else {
                // ---- C02: a failed call changes no mapping and creates none
                kani::assert(
                    same_mapping(&w_in_pre, &w_in) && same_mapping(&w_pr_pre, &w_pr),
                    concat!("C02.map_to_", $sz, ".shape_", $shape, ".error_leaves_every_mapping: frame, size and leaf flags of the target and of an arbitrary address as before"),
                );
                kani::assert(
                    rights_only_added(&w_in_pre, &w_in, pf.bits()) && rights_only_added(&w_pr_pre, &w_pr, pf.bits()),
                    concat!("C02.map_to_", $sz, ".shape_", $shape, ".error_adds_at_most_parent_flags: rights along every walk changed at most by the requested parent flags"),
                );
                relax_for_error(&mut m.dict, &pre, sh, pf.bits());
                if m.huge_k != NONE {
                    let huge_post = pool.rd(m.huge_k, m.huge_s);
                    kani::assert(
                        huge_post == pre.e[sh.d],
                        concat!("C02.map_to_", $sz, ".shape_", $shape, ".huge_leaf_unchanged_on_error: the leaf entry of the enclosing huge page is bit-identical after ParentEntryHugePage"),
                    );
                }
            }
            kani::assert(w_in.kind != MALFORMED && w_pr.kind != MALFORMED, concat!("C09.map_to_", $sz, ".shape_", $shape, ".no_dangling_table_pointer: every present non-leaf entry still points to a page table"));

            // ---- C01 read side in the post-state: translate / translate_addr agree with the walker
            let tr = mapper.translate(VirtAddr::new(probe));
            kani::assert(translate_agrees(&tr, &w_pr, probe), concat!("C01.map_to_", $sz, ".shape_", $shape, ".translate_agrees_after: translate(probe) == hardware walk in the post-state"));

            // ---- C09: frame condition over all 7 x 512 words, allocator and zero() discipline
            let on_huge_slot = m.huge_k != NONE && fk == m.huge_k && fs == m.huge_s;
            kani::assert(
                on_huge_slot || m.dict.agrees(fk, fs, f_pre, f_post),
                concat!("C09.map_to_", $sz, ".shape_", $shape, ".only_dictated_slots_change: every word of every table is unchanged, zeroed (fresh table) or holds the dictated value"),
            );
            kani::assert(
                alloc.calls == m.requests && alloc.calls <= <$S as Sz>::L - (if sh.d < <$S as Sz>::L { sh.d } else { <$S as Sz>::L }),
                concat!("C09.map_to_", $sz, ".shape_", $shape, ".allocator_requests: one request per missing table, none when the tables exist, never more than 3 / 2 / 1"),
            );
            let g = ghost();
            let z_ok = |n: usize| -> bool {
                if n < m.created {
                    g.zero_calls[4 + n] == 1 && g.alloc_seq[n] < g.zero_seq[4 + n] && (n + 1 >= alloc.calls || g.zero_seq[4 + n] < g.alloc_seq[n + 1])
                } else {
                    g.zero_calls[4 + n] == 0
                }
            };
            kani::assert(
                z_ok(0) && z_ok(1) && z_ok(2) && g.zero_calls[0] == 0 && g.zero_calls[1] == 0 && g.zero_calls[2] == 0 && g.zero_calls[3] == 0 && g.zero_elsewhere == 0,
                concat!("C09.map_to_", $sz, ".shape_", $shape, ".new_tables_zeroed_before_use: zero() runs exactly once on each frame obtained, after the request and before the next one, and on nothing else"),
            );
            kani::cover(m.outcome == OK, concat!("map_to_", $sz, " ", $shape, ": Ok"));
            kani::cover(m.outcome == ERR_ALLOC, concat!("map_to_", $sz, " ", $shape, ": FrameAllocationFailed"));
            kani::cover(m.outcome == ERR_HUGE, concat!("map_to_", $sz, " ", $shape, ": ParentEntryHugePage"));
            kani::cover(m.outcome == ERR_ALREADY, concat!("map_to_", $sz, " ", $shape, ": PageAlreadyMapped"));
        }};
    }

    //@ obligation C01 C01.map_to_4kib.shape_p3_absent.target_translates_to_frame bounded="pool of 7 tables; sparse pre-state (target path + 1 background word + garbage in fresh frames); page-table indices from 4 enumerated tuples"
    #[kani::proof]
    #[kani::stub(PageTable::zero, zero_stub)]
    fn c01_map_to_4kib_p3_absent() {
        map_to_step!(Size4KiB, "4kib", "p3_absent", P3_ABSENT, enumerated_idx());
        kani::cover!(true, "c01_map_to_4kib_p3_absent: reachable");
    }

    //@ obligation C01 C01.map_to_4kib.shape_p3_absent.target_translates_to_frame bounded="pool of 7 tables; sparse pre-state; index tuple (0,0,0,0)"
    #[kani::proof]
    #[kani::stub(PageTable::zero, zero_stub)]
    fn c01_map_to_4kib_p3_absent_lo() {
        map_to_step!(Size4KiB, "4kib", "p3_absent", P3_ABSENT, IDX_LO);
        kani::cover!(true, "c01_map_to_4kib_p3_absent_lo: reachable");
    }

    //@ obligation C01 C01.map_to_4kib.shape_p3_absent.target_translates_to_frame tier=thorough bounded="pool of 7 tables; sparse pre-state; all indices symbolic"
    #[kani::proof]
    #[kani::stub(PageTable::zero, zero_stub)]
    fn c01_map_to_4kib_p3_absent_sym() {
        map_to_step!(Size4KiB, "4kib", "p3_absent", P3_ABSENT, symbolic_idx());
        kani::cover!(true, "c01_map_to_4kib_p3_absent_sym: reachable");
    }
}
