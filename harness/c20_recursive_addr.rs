//@ include-into src/structures/paging/mapper/recursive_page_table.rs
//
// C20, address computation: "For every recursive index and every page, the
// addresses it uses to reach the page's level-3, level-2 and level-1 tables
// are the recursive index repeated three, two and one times followed by the
// page's upper indices, sign-extended to a canonical address."
//
// p3_page/p2_page/p1_page and the *_ptr variants are private to the module;
// this file is included into it. Symbolic recursive index r < 512 (all 512,
// including r >= 256 where sign extension matters), symbolic well-formed page
// of every size each function accepts. Loop-free, complete.
//
// The expected value is computed from the page's START ADDRESS as a number
// (indices = bit fields 39-47 / 30-38 / 21-29 of it, C04), with a sign
// extension written differently from the crate's shift trick.
#[cfg(kani)]
#[allow(unused_imports, clippy::all)]
mod verif_c20_recursive_addr {
    use super::*;
    use crate::structures::paging::{Size1GiB, Size2MiB};

    /// Tags a contract clause with its obligation name (identity on `c`).
    fn ob(_name: &'static str, c: bool) -> bool {
        c
    }

    fn sext48(x: u64) -> u64 {
        if x & (1u64 << 47) != 0 {
            x | 0xffff_0000_0000_0000
        } else {
            x & 0x0000_ffff_ffff_ffff
        }
    }

    fn page_of<S: PageSize>(x: u64) -> Page<S> {
        Page::containing_address(VirtAddr::new_truncate(x))
    }

    /// start address of the page built by `page_of::<S>(x)`, independently:
    /// sign-extend, then clear the offset bits.
    fn start_of(x: u64, size: u64) -> u64 {
        sext48(x) & !(size - 1)
    }

    fn i4(a: u64) -> u64 {
        (a >> 39) & 0x1ff
    }
    fn i3(a: u64) -> u64 {
        (a >> 30) & 0x1ff
    }
    fn i2(a: u64) -> u64 {
        (a >> 21) & 0x1ff
    }

    fn want_p3(a: u64, r: u64) -> u64 {
        sext48(r << 39 | r << 30 | r << 21 | i4(a) << 12)
    }
    fn want_p2(a: u64, r: u64) -> u64 {
        sext48(r << 39 | r << 30 | i4(a) << 21 | i3(a) << 12)
    }
    fn want_p1(a: u64, r: u64) -> u64 {
        sext48(r << 39 | i4(a) << 30 | i3(a) << 21 | i2(a) << 12)
    }

    // ------------------------------------------------------------------ level 3

    #[kani::requires(r < 512)]
    #[kani::ensures(|res: &(u64, u64)| ob("C20.p3_page.r_r_r_p4_sign_extended", res.0 == want_p3(start_of(x, 4096), r as u64)))]
    #[kani::ensures(|res: &(u64, u64)| ob("C20.p3_ptr.same_address_as_pointer", res.1 == want_p3(start_of(x, 4096), r as u64)))]
    fn w_p3_4k(x: u64, r: u16) -> (u64, u64) {
        let page = page_of::<Size4KiB>(x);
        let ri = PageTableIndex::new(r);
        (p3_page(page, ri).start_address().as_u64(), p3_ptr(page, ri) as usize as u64)
    }

    //@ obligation C20 C20.p3_page.r_r_r_p4_sign_extended
    //@ obligation C20 C20.p3_ptr.same_address_as_pointer
    #[kani::proof_for_contract(w_p3_4k)]
    fn c20_p3_4kib() {
        let _ = w_p3_4k(kani::any(), kani::any());
        kani::cover!(true, "c20_p3_4kib: reachable");
    }

    #[kani::requires(r < 512)]
    #[kani::ensures(|res: &(u64, u64)| ob("C20.p3_page.r_r_r_p4_sign_extended", res.0 == want_p3(start_of(x, 0x20_0000), r as u64)))]
    #[kani::ensures(|res: &(u64, u64)| ob("C20.p3_ptr.same_address_as_pointer", res.1 == want_p3(start_of(x, 0x20_0000), r as u64)))]
    fn w_p3_2m(x: u64, r: u16) -> (u64, u64) {
        let page = page_of::<Size2MiB>(x);
        let ri = PageTableIndex::new(r);
        (p3_page(page, ri).start_address().as_u64(), p3_ptr(page, ri) as usize as u64)
    }

    //@ obligation C20 C20.p3_page.r_r_r_p4_sign_extended
    //@ obligation C20 C20.p3_ptr.same_address_as_pointer
    #[kani::proof_for_contract(w_p3_2m)]
    fn c20_p3_2mib() {
        let _ = w_p3_2m(kani::any(), kani::any());
        kani::cover!(true, "c20_p3_2mib: reachable");
    }

    #[kani::requires(r < 512)]
    #[kani::ensures(|res: &(u64, u64)| ob("C20.p3_page.r_r_r_p4_sign_extended", res.0 == want_p3(start_of(x, 0x4000_0000), r as u64)))]
    #[kani::ensures(|res: &(u64, u64)| ob("C20.p3_ptr.same_address_as_pointer", res.1 == want_p3(start_of(x, 0x4000_0000), r as u64)))]
    fn w_p3_1g(x: u64, r: u16) -> (u64, u64) {
        let page = page_of::<Size1GiB>(x);
        let ri = PageTableIndex::new(r);
        (p3_page(page, ri).start_address().as_u64(), p3_ptr(page, ri) as usize as u64)
    }

    //@ obligation C20 C20.p3_page.r_r_r_p4_sign_extended
    //@ obligation C20 C20.p3_ptr.same_address_as_pointer
    #[kani::proof_for_contract(w_p3_1g)]
    fn c20_p3_1gib() {
        let _ = w_p3_1g(kani::any(), kani::any());
        kani::cover!(true, "c20_p3_1gib: reachable");
    }

    // ------------------------------------------------------------------ level 2

    #[kani::requires(r < 512)]
    #[kani::ensures(|res: &(u64, u64)| ob("C20.p2_page.r_r_p4_p3_sign_extended", res.0 == want_p2(start_of(x, 4096), r as u64)))]
    #[kani::ensures(|res: &(u64, u64)| ob("C20.p2_ptr.same_address_as_pointer", res.1 == want_p2(start_of(x, 4096), r as u64)))]
    fn w_p2_4k(x: u64, r: u16) -> (u64, u64) {
        let page = page_of::<Size4KiB>(x);
        let ri = PageTableIndex::new(r);
        (p2_page(page, ri).start_address().as_u64(), p2_ptr(page, ri) as usize as u64)
    }

    //@ obligation C20 C20.p2_page.r_r_p4_p3_sign_extended
    //@ obligation C20 C20.p2_ptr.same_address_as_pointer
    #[kani::proof_for_contract(w_p2_4k)]
    fn c20_p2_4kib() {
        let _ = w_p2_4k(kani::any(), kani::any());
        kani::cover!(true, "c20_p2_4kib: reachable");
    }

    #[kani::requires(r < 512)]
    #[kani::ensures(|res: &(u64, u64)| ob("C20.p2_page.r_r_p4_p3_sign_extended", res.0 == want_p2(start_of(x, 0x20_0000), r as u64)))]
    #[kani::ensures(|res: &(u64, u64)| ob("C20.p2_ptr.same_address_as_pointer", res.1 == want_p2(start_of(x, 0x20_0000), r as u64)))]
    fn w_p2_2m(x: u64, r: u16) -> (u64, u64) {
        let page = page_of::<Size2MiB>(x);
        let ri = PageTableIndex::new(r);
        (p2_page(page, ri).start_address().as_u64(), p2_ptr(page, ri) as usize as u64)
    }

    //@ obligation C20 C20.p2_page.r_r_p4_p3_sign_extended
    //@ obligation C20 C20.p2_ptr.same_address_as_pointer
    #[kani::proof_for_contract(w_p2_2m)]
    fn c20_p2_2mib() {
        let _ = w_p2_2m(kani::any(), kani::any());
        kani::cover!(true, "c20_p2_2mib: reachable");
    }

    // ------------------------------------------------------------------ level 1

    #[kani::requires(r < 512)]
    #[kani::ensures(|res: &(u64, u64)| ob("C20.p1_page.r_p4_p3_p2_sign_extended", res.0 == want_p1(start_of(x, 4096), r as u64)))]
    #[kani::ensures(|res: &(u64, u64)| ob("C20.p1_ptr.same_address_as_pointer", res.1 == want_p1(start_of(x, 4096), r as u64)))]
    fn w_p1_4k(x: u64, r: u16) -> (u64, u64) {
        let page = page_of::<Size4KiB>(x);
        let ri = PageTableIndex::new(r);
        (p1_page(page, ri).start_address().as_u64(), p1_ptr(page, ri) as usize as u64)
    }

    //@ obligation C20 C20.p1_page.r_p4_p3_p2_sign_extended
    //@ obligation C20 C20.p1_ptr.same_address_as_pointer
    #[kani::proof_for_contract(w_p1_4k)]
    fn c20_p1_4kib() {
        let _ = w_p1_4k(kani::any(), kani::any());
        kani::cover!(true, "c20_p1_4kib: reachable");
    }

    // The three table pages are canonical 4 KiB page starts, and looking the recursive slots up
    // again gives the expected index sequence (the statement read from the other side).
    //@ obligation C20 C20.table_pages.indices_read_back
    #[kani::proof]
    fn c20_table_pages_indices_read_back() {
        let x: u64 = kani::any();
        let r: u16 = kani::any();
        kani::assume(r < 512);
        kani::cover!(true, "c20_table_pages_indices_read_back: reachable");
        let page = page_of::<Size4KiB>(x);
        let ri = PageTableIndex::new(r);
        let (q4, q3, q2) = (u16::from(page.p4_index()), u16::from(page.p3_index()), u16::from(page.p2_index()));
        let t3 = p3_page(page, ri);
        let t2 = p2_page(page, ri);
        let t1 = p1_page(page, ri);
        let idx = |p: Page| {
            (
                u16::from(p.p4_index()),
                u16::from(p.p3_index()),
                u16::from(p.p2_index()),
                u16::from(p.p1_index()),
            )
        };
        assert!(
            idx(t3) == (r, r, r, q4),
            "C20.table_pages.indices_read_back: level-3 table page has indices (r, r, r, p4)"
        );
        assert!(
            idx(t2) == (r, r, q4, q3),
            "C20.table_pages.indices_read_back: level-2 table page has indices (r, r, p4, p3)"
        );
        assert!(
            idx(t1) == (r, q4, q3, q2),
            "C20.table_pages.indices_read_back: level-1 table page has indices (r, p4, p3, p2)"
        );
        let canon = |a: u64| a < 0x0000_8000_0000_0000 || a >= 0xffff_8000_0000_0000;
        let (a3, a2, a1) = (
            t3.start_address().as_u64(),
            t2.start_address().as_u64(),
            t1.start_address().as_u64(),
        );
        assert!(
            canon(a3) && canon(a2) && canon(a1) && a3 % 4096 == 0 && a2 % 4096 == 0 && a1 % 4096 == 0,
            "C20.table_pages.indices_read_back: all three are canonical, 4 KiB aligned"
        );
    }
}
