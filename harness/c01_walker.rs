//@ include-into src/structures/paging/mapper/mapped_page_table.rs
//
// C01 / C02 / C09 building blocks (PART A of lib/C01_NOTES.md): complete proofs, no bound.
//
//   PageTableWalker::next_table / next_table_mut   over ONE fully symbolic raw entry word
//   PageTableWalker::create_next_table             over one symbolic entry word, symbolic insert flags,
//                                                  a symbolic allocator answer
//   every From<PageTableWalkError|PageTableCreateError|FrameError> conversion
//
// The frame-to-pointer mapping is a recording mock: it notes the frame it was asked about, counts
// the calls, and answers with table A for one symbolic frame and table B for every other frame.
// "pointer == frame_to_pointer(frame of entry.addr())" is therefore checked for an arbitrary
// mapping: the walker asked about exactly the entry's frame, exactly once, and handed back exactly
// what the mapping answered.
//
// Raw entry words are built and read with transmute (PageTableEntry is repr(transparent) over u64;
// rustc checks the sizes), never through the accessors under test. Bit positions are written from
// the SDM (vol. 3A 4.5): P = bit 0, PS = bit 7, address = bits 12..51.

#[cfg(kani)]
mod verif_c01_walker {
    use super::*;
    use core::cell::Cell;

    const P: u64 = 1;
    const PS: u64 = 1 << 7;
    const ADDR: u64 = 0x000f_ffff_ffff_f000;

    fn entry_from(w: u64) -> PageTableEntry {
        unsafe { core::mem::transmute::<u64, PageTableEntry>(w) }
    }
    fn raw(e: &PageTableEntry) -> u64 {
        unsafe { *(e as *const PageTableEntry as *const u64) }
    }
    // Slot access goes through the typed Index impls (`table[i]` is `&entries[i]`, C08) and the
    // word itself is read/written raw. Measured: a write with a symbolic index through a
    // `*mut u64` cast of the table pointer makes CBMC model a byte-level update of the whole
    // 4 KiB object (130 s per harness); the typed form takes a few seconds.
    fn raw_slot(t: *const PageTable, i: usize) -> u64 {
        raw(unsafe { &(&*t)[i] })
    }
    fn set_raw_slot(t: *mut PageTable, i: usize, w: u64) {
        unsafe { (&mut *t)[i] = entry_from(w) }
    }

    /// Recording two-table mapping: frame `fa` -> `a`, every other frame -> `b`.
    struct RecMap {
        fa: u64,
        a: *mut PageTable,
        b: *mut PageTable,
        calls: Cell<u32>,
        asked: Cell<u64>,
    }
    unsafe impl PageTableFrameMapping for RecMap {
        fn frame_to_pointer(&self, frame: PhysFrame) -> *mut PageTable {
            self.calls.set(self.calls.get() + 1);
            self.asked.set(frame.start_address().as_u64());
            if frame.start_address().as_u64() == self.fa {
                self.a
            } else {
                self.b
            }
        }
    }
    impl RecMap {
        fn answer_for(&self, frame_addr: u64) -> *mut PageTable {
            if frame_addr == self.fa {
                self.a
            } else {
                self.b
            }
        }
    }

    /// Allocator with one symbolic answer; counts the requests.
    struct OneAlloc {
        answer: Option<PhysFrame<Size4KiB>>,
        calls: u32,
    }
    unsafe impl FrameAllocator<Size4KiB> for OneAlloc {
        fn allocate_frame(&mut self) -> Option<PhysFrame<Size4KiB>> {
            self.calls += 1;
            self.answer
        }
    }

    // PageTable::zero is replaced by its contract in the create_next_table harnesses: symex of the
    // real loop costs about 0.2 s per iteration and, worse, is unwound 512 times on every path on
    // which CBMC cannot decide `created` by constant propagation (measured: the existing-entry
    // harness did not finish in 15 min with the real loop, 2 s with the stub). The contract
    // ("every word is zero afterwards, nothing else is written") is proved on the real loop, over
    // a table whose 512 words are all symbolic, in c09_page_table_zero_contract below. The stub
    // also records on which table it ran and how often.
    //
    // Solver: these harnesses read and write table slots at symbolic indices. With the default SAT
    // back end (cadical) each takes 18-50 s, almost all of it in the solver; through CBMC's SMT
    // back end with cvc5 (array theory) 1-4 s. Same verdicts with cadical, z3 and cvc5 (measured).
    static mut ZERO_CALLS: u32 = 0;
    static mut ZERO_LAST: *const PageTable = core::ptr::null();
    fn zero_stub(t: &mut PageTable) {
        unsafe {
            ZERO_CALLS += 1;
            ZERO_LAST = t as *const PageTable;
        }
        *t = PageTable::new();
    }
    fn zero_calls() -> u32 {
        unsafe { ZERO_CALLS }
    }
    fn zero_last() -> *const PageTable {
        unsafe { ZERO_LAST }
    }

    //@ obligation C09 C09.PageTable_zero.every_word_zero_afterwards
    //@ obligation C08 C08.PageTable_zero.every_word_zero_afterwards
    #[kani::proof]
    #[kani::unwind(513)]
    fn c09_page_table_zero_contract() {
        let mut t: PageTable = unsafe { core::mem::transmute::<[u64; 512], PageTable>(kani::any()) };
        t.zero();
        let s: usize = kani::any();
        kani::assume(s < 512);
        assert!(raw(&t[s]) == 0, "C09.PageTable_zero.every_word_zero_afterwards: word s == 0 for every s");
        kani::cover!(true, "c09_page_table_zero_contract: reachable");
    }

    fn any_frame_addr() -> u64 {
        let a: u64 = kani::any();
        kani::assume(a & !ADDR == 0);
        a
    }

    // ------------------------------------------------------------------ next_table

    //@ obligation C01 C01.next_table.huge_iff_bit7
    //@ obligation C01 C01.next_table.not_mapped_iff_not_present
    //@ obligation C01 C01.next_table.pointer_is_frame_to_pointer_of_entry_frame
    //@ obligation C09 C09.next_table.entry_and_tables_untouched
    #[kani::proof]
    fn c01_next_table_one_entry() {
        let mut ta = PageTable::new();
        let mut tb = PageTable::new();
        let map = RecMap {
            fa: any_frame_addr(),
            a: &mut ta as *mut PageTable,
            b: &mut tb as *mut PageTable,
            calls: Cell::new(0),
            asked: Cell::new(0),
        };
        let (pa, pb) = (map.a, map.b);
        let fa = map.fa;
        let w: u64 = kani::any();
        let entry = entry_from(w);
        let walker = unsafe { PageTableWalker::new(map) };
        let r = walker.next_table(&entry);
        let m = &walker.page_table_frame_mapping;
        match r {
            Err(PageTableWalkError::MappedToHugePage) => {
                assert!(w & PS != 0, "C01.next_table.huge_iff_bit7: MappedToHugePage only with bit 7");
                assert!(m.calls.get() == 0, "C01.next_table.huge_iff_bit7: mapping not consulted");
            }
            Err(PageTableWalkError::NotMapped) => {
                assert!(w & PS == 0, "C01.next_table.huge_iff_bit7: bit 7 set gives MappedToHugePage");
                assert!(w & P == 0, "C01.next_table.not_mapped_iff_not_present: NotMapped only without PRESENT");
                assert!(m.calls.get() == 0, "C01.next_table.not_mapped_iff_not_present: mapping not consulted");
            }
            Ok(t) => {
                assert!(w & PS == 0, "C01.next_table.huge_iff_bit7: bit 7 set gives MappedToHugePage");
                assert!(w & P != 0, "C01.next_table.not_mapped_iff_not_present: PRESENT clear gives NotMapped");
                assert!(
                    m.calls.get() == 1 && m.asked.get() == w & ADDR,
                    "C01.next_table.pointer_is_frame_to_pointer_of_entry_frame: asked once, about bits 12..51 of the entry"
                );
                let expect = if w & ADDR == fa { pa } else { pb };
                assert!(
                    t as *const PageTable == expect as *const PageTable,
                    "C01.next_table.pointer_is_frame_to_pointer_of_entry_frame: returns the mapping's answer"
                );
            }
        }
        assert!(raw(&entry) == w, "C09.next_table.entry_and_tables_untouched: entry word unchanged");
        let s: usize = kani::any();
        kani::assume(s < 512);
        assert!(
            raw_slot(pa, s) == 0 && raw_slot(pb, s) == 0,
            "C09.next_table.entry_and_tables_untouched: no table slot written"
        );
        kani::cover!(true, "c01_next_table_one_entry: reachable");
    }

    //@ obligation C01 C01.next_table_mut.huge_iff_bit7
    //@ obligation C01 C01.next_table_mut.not_mapped_iff_not_present
    //@ obligation C01 C01.next_table_mut.pointer_is_frame_to_pointer_of_entry_frame
    //@ obligation C09 C09.next_table_mut.entry_and_tables_untouched
    #[kani::proof]
    fn c01_next_table_mut_one_entry() {
        let mut ta = PageTable::new();
        let mut tb = PageTable::new();
        let map = RecMap {
            fa: any_frame_addr(),
            a: &mut ta as *mut PageTable,
            b: &mut tb as *mut PageTable,
            calls: Cell::new(0),
            asked: Cell::new(0),
        };
        let (pa, pb) = (map.a, map.b);
        let fa = map.fa;
        let w: u64 = kani::any();
        let mut entry = entry_from(w);
        let walker = unsafe { PageTableWalker::new(map) };
        let r = walker.next_table_mut(&mut entry).map(|t| t as *mut PageTable);
        let m = &walker.page_table_frame_mapping;
        match r {
            Err(PageTableWalkError::MappedToHugePage) => {
                assert!(w & PS != 0, "C01.next_table_mut.huge_iff_bit7: MappedToHugePage only with bit 7");
                assert!(m.calls.get() == 0, "C01.next_table_mut.huge_iff_bit7: mapping not consulted");
            }
            Err(PageTableWalkError::NotMapped) => {
                assert!(w & PS == 0, "C01.next_table_mut.huge_iff_bit7: bit 7 set gives MappedToHugePage");
                assert!(w & P == 0, "C01.next_table_mut.not_mapped_iff_not_present: NotMapped only without PRESENT");
                assert!(m.calls.get() == 0, "C01.next_table_mut.not_mapped_iff_not_present: mapping not consulted");
            }
            Ok(t) => {
                assert!(w & PS == 0, "C01.next_table_mut.huge_iff_bit7: bit 7 set gives MappedToHugePage");
                assert!(w & P != 0, "C01.next_table_mut.not_mapped_iff_not_present: PRESENT clear gives NotMapped");
                assert!(
                    m.calls.get() == 1 && m.asked.get() == w & ADDR,
                    "C01.next_table_mut.pointer_is_frame_to_pointer_of_entry_frame: asked once, about bits 12..51 of the entry"
                );
                let expect = if w & ADDR == fa { pa } else { pb };
                assert!(
                    t == expect,
                    "C01.next_table_mut.pointer_is_frame_to_pointer_of_entry_frame: returns the mapping's answer"
                );
            }
        }
        assert!(raw(&entry) == w, "C09.next_table_mut.entry_and_tables_untouched: entry word unchanged");
        let s: usize = kani::any();
        kani::assume(s < 512);
        assert!(
            raw_slot(pa, s) == 0 && raw_slot(pb, s) == 0,
            "C09.next_table_mut.entry_and_tables_untouched: no table slot written"
        );
        kani::cover!(true, "c01_next_table_mut_one_entry: reachable");
    }

    // ------------------------------------------------------------------ create_next_table
    //
    // Domain of insert_flags: the C01 quantifier's "parent flags containing PRESENT and not
    // HUGE_PAGE", and not bit 12 (PAT_HUGE_PAGE: an address bit in an entry that points to a
    // table; C08's flag domain is bits 0-11 and 52-63).
    fn any_parent_flags() -> PageTableFlags {
        let f = PageTableFlags::from_bits_truncate(kani::any());
        kani::assume(f.bits() & P != 0 && f.bits() & PS == 0 && f.bits() & (1 << 12) == 0);
        f
    }

    struct Setup {
        fa: u64,
        pa: *mut PageTable,
        pb: *mut PageTable,
        bg_slot: usize,
        bg_a: u64,
        bg_b: u64,
    }

    /// Tables A and B each carry one symbolic word in one symbolic slot (same slot index), so a
    /// stray write or a stray zero() is visible.
    fn prefill(ta: &mut PageTable, tb: &mut PageTable) -> (Setup, RecMap) {
        let s: usize = kani::any();
        kani::assume(s < 512);
        let (bg_a, bg_b): (u64, u64) = (kani::any(), kani::any());
        let pa = ta as *mut PageTable;
        let pb = tb as *mut PageTable;
        set_raw_slot(pa, s, bg_a);
        set_raw_slot(pb, s, bg_b);
        let fa = any_frame_addr();
        (
            Setup { fa, pa, pb, bg_slot: s, bg_a, bg_b },
            RecMap { fa, a: pa, b: pb, calls: Cell::new(0), asked: Cell::new(0) },
        )
    }

    // Unused entry, allocator answers None.
    //@ obligation C02 C02.create_next_table.unused_alloc_none_is_frame_allocation_failed
    //@ obligation C02 C02.create_next_table.alloc_failure_leaves_entry_unused
    //@ obligation C09 C09.create_next_table.one_request_iff_unused
    #[kani::proof]
    #[kani::solver(cvc5)]
    #[kani::stub(PageTable::zero, zero_stub)]
    fn c02_create_next_table_unused_alloc_fails() {
        let mut ta = PageTable::new();
        let mut tb = PageTable::new();
        let (st, map) = prefill(&mut ta, &mut tb);
        let mut entry = entry_from(0);
        let flags = any_parent_flags();
        let mut alloc = OneAlloc { answer: None, calls: 0 };
        let walker = unsafe { PageTableWalker::new(map) };
        let r = walker.create_next_table(&mut entry, flags, &mut alloc).map(|t| t as *mut PageTable);
        assert!(
            matches!(r, Err(PageTableCreateError::FrameAllocationFailed)),
            "C02.create_next_table.unused_alloc_none_is_frame_allocation_failed: Err(FrameAllocationFailed)"
        );
        assert!(raw(&entry) == 0, "C02.create_next_table.alloc_failure_leaves_entry_unused: entry still zero");
        assert!(alloc.calls == 1, "C09.create_next_table.one_request_iff_unused: exactly one request");
        assert!(
            walker.page_table_frame_mapping.calls.get() == 0,
            "C02.create_next_table.alloc_failure_leaves_entry_unused: no table looked up"
        );
        let s: usize = kani::any();
        kani::assume(s < 512);
        assert!(
            raw_slot(st.pa, s) == if s == st.bg_slot { st.bg_a } else { 0 }
                && raw_slot(st.pb, s) == if s == st.bg_slot { st.bg_b } else { 0 },
            "C02.create_next_table.alloc_failure_leaves_entry_unused: tables untouched"
        );
        kani::cover!(true, "c02_create_next_table_unused_alloc_fails: reachable");
    }

    // Unused entry, allocator answers Some(f). Table A carries symbolic old data in a symbolic slot.
    //@ obligation C01 C01.create_next_table.unused_entry_becomes_frame_or_flags
    //@ obligation C01 C01.create_next_table.returns_table_of_new_frame
    //@ obligation C09 C09.create_next_table.new_table_all_zero_on_return
    //@ obligation C09 C09.create_next_table.zero_runs_once_on_the_new_table
    //@ obligation C09 C09.create_next_table.one_request_iff_unused
    //@ obligation C09 C09.create_next_table.other_table_untouched
    #[kani::proof]
    #[kani::solver(cvc5)]
    #[kani::stub(PageTable::zero, zero_stub)]
    fn c09_create_next_table_unused_alloc_ok() {
        let mut ta = PageTable::new();
        let mut tb = PageTable::new();
        let (st, map) = prefill(&mut ta, &mut tb);
        // the allocated frame f is the one backed by A (f == fa) or any other one (backed by B)
        let f = any_frame_addr();
        let mut entry = entry_from(0);
        let flags = any_parent_flags();
        let mut alloc = OneAlloc {
            answer: Some(PhysFrame::from_start_address(PhysAddr::new(f)).unwrap()),
            calls: 0,
        };
        let walker = unsafe { PageTableWalker::new(map) };
        let r = walker.create_next_table(&mut entry, flags, &mut alloc).map(|t| t as *mut PageTable);
        let m = &walker.page_table_frame_mapping;
        assert!(r.is_ok(), "C01.create_next_table.returns_table_of_new_frame: Ok");
        let t = r.unwrap();
        assert!(
            raw(&entry) == f | flags.bits(),
            "C01.create_next_table.unused_entry_becomes_frame_or_flags: entry == frame | insert_flags"
        );
        assert!(
            m.calls.get() == 1 && m.asked.get() == f && t == m.answer_for(f),
            "C01.create_next_table.returns_table_of_new_frame: the table the mapping gives for the allocated frame"
        );
        assert!(alloc.calls == 1, "C09.create_next_table.one_request_iff_unused: exactly one request");
        assert!(
            zero_calls() == 1 && zero_last() == t as *const PageTable,
            "C09.create_next_table.zero_runs_once_on_the_new_table: zero() once, on the returned table"
        );
        let s: usize = kani::any();
        kani::assume(s < 512);
        assert!(raw_slot(t, s) == 0, "C09.create_next_table.new_table_all_zero_on_return: every word zero");
        let other = if t == st.pa { st.pb } else { st.pa };
        let other_bg = if t == st.pa { st.bg_b } else { st.bg_a };
        assert!(
            raw_slot(other, s) == if s == st.bg_slot { other_bg } else { 0 },
            "C09.create_next_table.other_table_untouched: the table of another frame is not written"
        );
        kani::cover!(f == st.fa, "c09_create_next_table_unused_alloc_ok: new frame backed by A");
        kani::cover!(f != st.fa, "c09_create_next_table_unused_alloc_ok: new frame backed by B");
        kani::cover!(true, "c09_create_next_table_unused_alloc_ok: reachable");
    }

    // Existing entry: non-zero, not huge.
    //@ obligation C01 C01.create_next_table.existing_entry_flags_added_not_replaced
    //@ obligation C01 C01.create_next_table.existing_entry_returns_its_table
    //@ obligation C09 C09.create_next_table.no_request_when_entry_exists
    //@ obligation C09 C09.create_next_table.existing_table_not_zeroed
    #[kani::proof]
    #[kani::solver(cvc5)]
    #[kani::stub(PageTable::zero, zero_stub)]
    fn c01_create_next_table_existing_table_entry() {
        let mut ta = PageTable::new();
        let mut tb = PageTable::new();
        let (st, map) = prefill(&mut ta, &mut tb);
        let w: u64 = kani::any();
        let flags = any_parent_flags();
        // "exists" is the crate's notion (`!is_unused()`: any non-zero word), not only PRESENT
        // words: `set_flags_pN_entry` can clear PRESENT on a linked table (seed C09-r3m3). The
        // word must be present once the parent flags are added (else the call panics: "entry
        // should be mapped at this point", outside the documented states).
        kani::assume(w != 0 && w & PS == 0 && (w | flags.bits()) & P != 0);
        let mut entry = entry_from(w);
        let ans: Option<u64> = if kani::any() { Some(any_frame_addr()) } else { None };
        let mut alloc = OneAlloc {
            answer: ans.map(|a| PhysFrame::from_start_address(PhysAddr::new(a)).unwrap()),
            calls: 0,
        };
        let walker = unsafe { PageTableWalker::new(map) };
        let r = walker.create_next_table(&mut entry, flags, &mut alloc).map(|t| t as *mut PageTable);
        let m = &walker.page_table_frame_mapping;
        assert!(r.is_ok(), "C01.create_next_table.existing_entry_returns_its_table: Ok");
        let t = r.unwrap();
        assert!(
            raw(&entry) == w | flags.bits(),
            "C01.create_next_table.existing_entry_flags_added_not_replaced: entry == old | insert_flags"
        );
        assert!(
            raw(&entry) & ADDR == w & ADDR,
            "C01.create_next_table.existing_entry_flags_added_not_replaced: address unchanged"
        );
        assert!(
            m.calls.get() == 1 && m.asked.get() == w & ADDR && t == m.answer_for(w & ADDR),
            "C01.create_next_table.existing_entry_returns_its_table: the table of the entry's frame"
        );
        assert!(alloc.calls == 0, "C09.create_next_table.no_request_when_entry_exists: allocator not called");
        assert!(zero_calls() == 0, "C09.create_next_table.existing_table_not_zeroed: zero() not called");
        let s: usize = kani::any();
        kani::assume(s < 512);
        assert!(
            raw_slot(st.pa, s) == if s == st.bg_slot { st.bg_a } else { 0 }
                && raw_slot(st.pb, s) == if s == st.bg_slot { st.bg_b } else { 0 },
            "C09.create_next_table.existing_table_not_zeroed: contents unchanged"
        );
        let _ = st.fa;
        kani::cover!(true, "c01_create_next_table_existing_table_entry: reachable");
    }

    // Existing entry with bit 7: the slot holds a huge-page LEAF. The call must fail and, by C02
    // ("a call that returns an error leaves the mapping (frame, size and leaf flags) of every
    // address exactly as it was"), must leave that leaf word bit-identical.
    //@ obligation C02 C02.create_next_table.huge_entry_is_mapped_to_huge_page
    //@ obligation C02 C02.create_next_table.huge_parent_entry_unchanged_on_error
    //@ obligation C09 C09.create_next_table.no_request_when_entry_exists
    #[kani::proof]
    #[kani::solver(cvc5)]
    #[kani::stub(PageTable::zero, zero_stub)]
    fn c02_create_next_table_existing_huge_entry() {
        let mut ta = PageTable::new();
        let mut tb = PageTable::new();
        let (st, map) = prefill(&mut ta, &mut tb);
        let w: u64 = kani::any();
        kani::assume(w & PS != 0); // PRESENT or not: the word is not zero
        let mut entry = entry_from(w);
        let flags = any_parent_flags();
        let mut alloc = OneAlloc { answer: None, calls: 0 };
        let walker = unsafe { PageTableWalker::new(map) };
        let r = walker.create_next_table(&mut entry, flags, &mut alloc).map(|t| t as *mut PageTable);
        assert!(
            matches!(r, Err(PageTableCreateError::MappedToHugePage)),
            "C02.create_next_table.huge_entry_is_mapped_to_huge_page: Err(MappedToHugePage)"
        );
        assert!(alloc.calls == 0, "C09.create_next_table.no_request_when_entry_exists: allocator not called");
        assert!(
            walker.page_table_frame_mapping.calls.get() == 0,
            "C02.create_next_table.huge_entry_is_mapped_to_huge_page: the huge frame is not looked up as a table"
        );
        let s: usize = kani::any();
        kani::assume(s < 512);
        assert!(
            raw_slot(st.pa, s) == if s == st.bg_slot { st.bg_a } else { 0 }
                && raw_slot(st.pb, s) == if s == st.bg_slot { st.bg_b } else { 0 },
            "C02.create_next_table.huge_entry_is_mapped_to_huge_page: tables untouched"
        );
        assert!(
            raw(&entry) == w,
            "C02.create_next_table.huge_parent_entry_unchanged_on_error: leaf word of the enclosing huge page bit-identical after Err"
        );
        kani::cover!(true, "c02_create_next_table_existing_huge_entry: reachable");
    }

    // ------------------------------------------------------------------ error conversions

    //@ obligation C02 C02.From_PageTableCreateError_for_MapToError.exact_table
    #[kani::proof]
    fn c02_from_create_error_for_map_to_error() {
        kani::cover!(true, "c02_from_create_error_for_map_to_error: reachable");
        assert!(
            matches!(MapToError::<Size4KiB>::from(PageTableCreateError::MappedToHugePage), MapToError::ParentEntryHugePage)
                && matches!(MapToError::<Size4KiB>::from(PageTableCreateError::FrameAllocationFailed), MapToError::FrameAllocationFailed),
            "C02.From_PageTableCreateError_for_MapToError.exact_table: Size4KiB"
        );
        assert!(
            matches!(MapToError::<Size2MiB>::from(PageTableCreateError::MappedToHugePage), MapToError::ParentEntryHugePage)
                && matches!(MapToError::<Size2MiB>::from(PageTableCreateError::FrameAllocationFailed), MapToError::FrameAllocationFailed),
            "C02.From_PageTableCreateError_for_MapToError.exact_table: Size2MiB"
        );
        assert!(
            matches!(MapToError::<Size1GiB>::from(PageTableCreateError::MappedToHugePage), MapToError::ParentEntryHugePage)
                && matches!(MapToError::<Size1GiB>::from(PageTableCreateError::FrameAllocationFailed), MapToError::FrameAllocationFailed),
            "C02.From_PageTableCreateError_for_MapToError.exact_table: Size1GiB"
        );
    }

    //@ obligation C02 C02.From_PageTableWalkError_for_UnmapError.exact_table
    //@ obligation C02 C02.From_PageTableWalkError_for_FlagUpdateError.exact_table
    //@ obligation C02 C02.From_PageTableWalkError_for_TranslateError.exact_table
    #[kani::proof]
    fn c02_from_walk_error_for_public_errors() {
        kani::cover!(true, "c02_from_walk_error_for_public_errors: reachable");
        assert!(
            matches!(UnmapError::from(PageTableWalkError::MappedToHugePage), UnmapError::ParentEntryHugePage)
                && matches!(UnmapError::from(PageTableWalkError::NotMapped), UnmapError::PageNotMapped),
            "C02.From_PageTableWalkError_for_UnmapError.exact_table: huge -> ParentEntryHugePage, absent -> PageNotMapped"
        );
        assert!(
            matches!(FlagUpdateError::from(PageTableWalkError::MappedToHugePage), FlagUpdateError::ParentEntryHugePage)
                && matches!(FlagUpdateError::from(PageTableWalkError::NotMapped), FlagUpdateError::PageNotMapped),
            "C02.From_PageTableWalkError_for_FlagUpdateError.exact_table: huge -> ParentEntryHugePage, absent -> PageNotMapped"
        );
        assert!(
            matches!(TranslateError::from(PageTableWalkError::MappedToHugePage), TranslateError::ParentEntryHugePage)
                && matches!(TranslateError::from(PageTableWalkError::NotMapped), TranslateError::PageNotMapped),
            "C02.From_PageTableWalkError_for_TranslateError.exact_table: huge -> ParentEntryHugePage, absent -> PageNotMapped"
        );
    }

    //@ obligation C02 C02.From_FrameError_for_PageTableWalkError.not_present_is_not_mapped
    #[kani::proof]
    fn c02_from_frame_error_for_walk_error() {
        kani::cover!(true, "c02_from_frame_error_for_walk_error: reachable");
        assert!(
            matches!(PageTableWalkError::from(FrameError::FrameNotPresent), PageTableWalkError::NotMapped),
            "C02.From_FrameError_for_PageTableWalkError.not_present_is_not_mapped: FrameNotPresent -> NotMapped"
        );
    }

    // The other variant, FrameError::HugeFrame, is deprecated and documented as never returned by
    // PageTableEntry::frame(); the conversion is `unreachable!()` for it. Proved here: frame() never
    // yields it, for every raw word.
    //@ obligation C02 C02.From_FrameError_for_PageTableWalkError.huge_frame_never_produced
    #[kani::proof]
    fn c02_frame_never_returns_huge_frame() {
        let w: u64 = kani::any();
        let e = entry_from(w);
        kani::cover!(true, "c02_frame_never_returns_huge_frame: reachable");
        #[allow(deprecated)]
        let is_huge = matches!(e.frame(), Err(FrameError::HugeFrame));
        assert!(
            !is_huge,
            "C02.From_FrameError_for_PageTableWalkError.huge_frame_never_produced: frame() never returns HugeFrame"
        );
        assert!(
            e.frame().is_ok() == (w & P != 0),
            "C02.From_FrameError_for_PageTableWalkError.huge_frame_never_produced: Ok iff PRESENT"
        );
    }
}
