//@ include-into src/registers/debug.rs
//
// C16: DR0-DR3, DR6, DR7 wrappers against the abstract machine.
// Masks and field positions are written from the SDM (vol. 3B 18.2), not taken
// from the crate.

#[cfg(kani)]
mod verif_c16_debug {
    use super::*;
    use crate::verif_hw::{self, field, Kind};

    /// DR6 bits 0-3 (B0-B3), 13 (BD), 14 (BS), 15 (BT), 16 (RTM).
    const DR6_MODELLED: u64 = 0x0001_E00F;
    /// DR7 bits 0-7 (L/G 0-3), 8 (LE), 9 (GE), 11 (RTM), 13 (GD), 16-31 (R/W and LEN 0-3).
    /// Bit 10 (reads as 1), 12, 14, 15 and 32-63 are not modelled by Dr7Value.
    const DR7_MODELLED: u64 = 0xFFFF_2BFF;

    fn cond_num(c: BreakpointCondition) -> u64 {
        match c {
            BreakpointCondition::InstructionExecution => 0,
            BreakpointCondition::DataWrites => 1,
            BreakpointCondition::IoReadsWrites => 2,
            BreakpointCondition::DataReadsWrites => 3,
        }
    }
    fn size_num(s: BreakpointSize) -> u64 {
        match s {
            BreakpointSize::Length1B => 0,
            BreakpointSize::Length2B => 1,
            BreakpointSize::Length8B => 2,
            BreakpointSize::Length4B => 3,
        }
    }
    fn any_cond() -> BreakpointCondition {
        match kani::any::<u8>() & 3 {
            0 => BreakpointCondition::InstructionExecution,
            1 => BreakpointCondition::DataWrites,
            2 => BreakpointCondition::IoReadsWrites,
            _ => BreakpointCondition::DataReadsWrites,
        }
    }
    fn any_size() -> BreakpointSize {
        match kani::any::<u8>() & 3 {
            0 => BreakpointSize::Length1B,
            1 => BreakpointSize::Length2B,
            2 => BreakpointSize::Length8B,
            _ => BreakpointSize::Length4B,
        }
    }
    /// Every Dr7Value: from_bits is the identity on values without unmodelled
    /// bits; the unwrap fails (and with it the harness) if the crate's
    /// valid_bits is narrower than DR7_MODELLED.
    fn any_dr7value() -> Dr7Value {
        Dr7Value::from_bits(kani::any::<u64>() & DR7_MODELLED).unwrap()
    }

    // ------------------------------------------------------------ DR0 - DR3

    //@ obligation C16 C16.Dr0_read.value_and_event
    //@ obligation C16 C16.Dr0_write.read_back
    #[kani::proof]
    fn c16_dr0_read_write() {
        verif_hw::reset_symbolic();
        let before = *verif_hw::m();
        let v: u64 = kani::any();
        kani::cover!(true, "c16_dr0_read_write: reachable");
        let r = Dr0::read();
        {
            let m = verif_hw::m();
            assert!(r == before.dr0, "C16.Dr0_read.value_and_event: returns dr0, all 64 bits");
            assert!(
                m.only_event_is(Kind::MovFromDr, 0, before.dr0, 0) && m.regs_same_except(&before, field::NONE),
                "C16.Dr0_read.value_and_event: exactly one mov from dr0, no register changes"
            );
        }
        Dr0::write(v);
        {
            let m = verif_hw::m();
            assert!(m.dr0 == v, "C16.Dr0_write.read_back: dr0 == value");
            assert!(
                m.log_len == 2 && !m.unknown_asm_hit && m.event(1).is(Kind::MovToDr, 0, v, 0),
                "C16.Dr0_write.read_back: exactly one mov to dr0"
            );
            assert!(
                m.regs_same_except(&before, field::DR0),
                "C16.Dr0_write.read_back: no other register changes"
            );
        }
        assert!(Dr0::read() == v, "C16.Dr0_write.read_back: read returns what was written");
    }

    //@ obligation C16 C16.Dr1_read.value_and_event
    //@ obligation C16 C16.Dr1_write.read_back
    #[kani::proof]
    fn c16_dr1_read_write() {
        verif_hw::reset_symbolic();
        let before = *verif_hw::m();
        let v: u64 = kani::any();
        kani::cover!(true, "c16_dr1_read_write: reachable");
        let r = Dr1::read();
        {
            let m = verif_hw::m();
            assert!(r == before.dr1, "C16.Dr1_read.value_and_event: returns dr1, all 64 bits");
            assert!(
                m.only_event_is(Kind::MovFromDr, 1, before.dr1, 0) && m.regs_same_except(&before, field::NONE),
                "C16.Dr1_read.value_and_event: exactly one mov from dr1, no register changes"
            );
        }
        Dr1::write(v);
        {
            let m = verif_hw::m();
            assert!(m.dr1 == v, "C16.Dr1_write.read_back: dr1 == value");
            assert!(
                m.log_len == 2 && !m.unknown_asm_hit && m.event(1).is(Kind::MovToDr, 1, v, 0),
                "C16.Dr1_write.read_back: exactly one mov to dr1"
            );
            assert!(
                m.regs_same_except(&before, field::DR1),
                "C16.Dr1_write.read_back: no other register changes"
            );
        }
        assert!(Dr1::read() == v, "C16.Dr1_write.read_back: read returns what was written");
    }

    //@ obligation C16 C16.Dr2_read.value_and_event
    //@ obligation C16 C16.Dr2_write.read_back
    #[kani::proof]
    fn c16_dr2_read_write() {
        verif_hw::reset_symbolic();
        let before = *verif_hw::m();
        let v: u64 = kani::any();
        kani::cover!(true, "c16_dr2_read_write: reachable");
        let r = Dr2::read();
        {
            let m = verif_hw::m();
            assert!(r == before.dr2, "C16.Dr2_read.value_and_event: returns dr2, all 64 bits");
            assert!(
                m.only_event_is(Kind::MovFromDr, 2, before.dr2, 0) && m.regs_same_except(&before, field::NONE),
                "C16.Dr2_read.value_and_event: exactly one mov from dr2, no register changes"
            );
        }
        Dr2::write(v);
        {
            let m = verif_hw::m();
            assert!(m.dr2 == v, "C16.Dr2_write.read_back: dr2 == value");
            assert!(
                m.log_len == 2 && !m.unknown_asm_hit && m.event(1).is(Kind::MovToDr, 2, v, 0),
                "C16.Dr2_write.read_back: exactly one mov to dr2"
            );
            assert!(
                m.regs_same_except(&before, field::DR2),
                "C16.Dr2_write.read_back: no other register changes"
            );
        }
        assert!(Dr2::read() == v, "C16.Dr2_write.read_back: read returns what was written");
    }

    //@ obligation C16 C16.Dr3_read.value_and_event
    //@ obligation C16 C16.Dr3_write.read_back
    #[kani::proof]
    fn c16_dr3_read_write() {
        verif_hw::reset_symbolic();
        let before = *verif_hw::m();
        let v: u64 = kani::any();
        kani::cover!(true, "c16_dr3_read_write: reachable");
        let r = Dr3::read();
        {
            let m = verif_hw::m();
            assert!(r == before.dr3, "C16.Dr3_read.value_and_event: returns dr3, all 64 bits");
            assert!(
                m.only_event_is(Kind::MovFromDr, 3, before.dr3, 0) && m.regs_same_except(&before, field::NONE),
                "C16.Dr3_read.value_and_event: exactly one mov from dr3, no register changes"
            );
        }
        Dr3::write(v);
        {
            let m = verif_hw::m();
            assert!(m.dr3 == v, "C16.Dr3_write.read_back: dr3 == value");
            assert!(
                m.log_len == 2 && !m.unknown_asm_hit && m.event(1).is(Kind::MovToDr, 3, v, 0),
                "C16.Dr3_write.read_back: exactly one mov to dr3"
            );
            assert!(
                m.regs_same_except(&before, field::DR3),
                "C16.Dr3_write.read_back: no other register changes"
            );
        }
        assert!(Dr3::read() == v, "C16.Dr3_write.read_back: read returns what was written");
    }

    // ------------------------------------------------------------------ DR6

    //@ obligation C16 C16.Dr6_read.truncated_raw
    //@ obligation C16 C16.Dr6_read_raw.value_and_event
    #[kani::proof]
    fn c16_dr6_read_truncated_raw() {
        verif_hw::reset_symbolic();
        let before = *verif_hw::m();
        let old = before.dr6;
        kani::cover!(true, "c16_dr6_read_truncated_raw: reachable");
        let r = Dr6::read();
        {
            let m = verif_hw::m();
            assert!(
                r.bits() == old & DR6_MODELLED,
                "C16.Dr6_read.truncated_raw: typed read == raw & MODELLED"
            );
            assert!(
                m.only_event_is(Kind::MovFromDr, 6, old, 0) && m.regs_same_except(&before, field::NONE),
                "C16.Dr6_read.truncated_raw: exactly one mov from dr6, no register changes"
            );
        }
        let raw = Dr6::read_raw();
        let m = verif_hw::m();
        assert!(raw == old, "C16.Dr6_read_raw.value_and_event: returns dr6, all 64 bits");
        assert!(
            m.only_events_are((Kind::MovFromDr, 6, old, 0), (Kind::MovFromDr, 6, old, 0))
                && m.regs_same_except(&before, field::NONE),
            "C16.Dr6_read_raw.value_and_event: exactly one mov from dr6, no register changes"
        );
    }

    // ------------------------------------------------------------------ DR7

    //@ obligation C16 C16.Dr7_read.truncated_raw
    //@ obligation C16 C16.Dr7_read_raw.value_and_event
    #[kani::proof]
    fn c16_dr7_read_truncated_raw() {
        verif_hw::reset_symbolic();
        let before = *verif_hw::m();
        let old = before.dr7;
        kani::cover!(true, "c16_dr7_read_truncated_raw: reachable");
        let r = Dr7::read();
        {
            let m = verif_hw::m();
            assert!(
                r.bits() == old & DR7_MODELLED,
                "C16.Dr7_read.truncated_raw: typed read == raw & MODELLED"
            );
            assert!(
                m.only_event_is(Kind::MovFromDr, 7, old, 0) && m.regs_same_except(&before, field::NONE),
                "C16.Dr7_read.truncated_raw: exactly one mov from dr7, no register changes"
            );
        }
        let raw = Dr7::read_raw();
        let m = verif_hw::m();
        assert!(raw == old, "C16.Dr7_read_raw.value_and_event: returns dr7, all 64 bits");
        assert!(
            m.only_events_are((Kind::MovFromDr, 7, old, 0), (Kind::MovFromDr, 7, old, 0))
                && m.regs_same_except(&before, field::NONE),
            "C16.Dr7_read_raw.value_and_event: exactly one mov from dr7, no register changes"
        );
    }

    //@ obligation C16 C16.Dr7_write_raw.stores_exactly
    #[kani::proof]
    fn c16_dr7_write_raw_stores_exactly() {
        verif_hw::reset_symbolic();
        let before = *verif_hw::m();
        let v: u64 = kani::any();
        kani::cover!(true, "c16_dr7_write_raw_stores_exactly: reachable");
        Dr7::write_raw(v);
        let m = verif_hw::m();
        assert!(m.dr7 == v, "C16.Dr7_write_raw.stores_exactly: dr7 == value");
        assert!(
            m.only_event_is(Kind::MovToDr, 7, v, 0) && m.regs_same_except(&before, field::DR7),
            "C16.Dr7_write_raw.stores_exactly: exactly one mov to dr7, no other register changes"
        );
    }

    //@ obligation C16 C16.Dr7_write.preserves_unmodelled
    #[kani::proof]
    fn c16_dr7_write_preserves_unmodelled() {
        verif_hw::reset_symbolic();
        let before = *verif_hw::m();
        let old = before.dr7;
        let value = any_dr7value();
        kani::cover!(true, "c16_dr7_write_preserves_unmodelled: reachable");
        Dr7::write(value);
        let expect = (old & !DR7_MODELLED) | value.bits();
        {
            let m = verif_hw::m();
            assert!(
                m.dr7 == expect,
                "C16.Dr7_write.preserves_unmodelled: new == (old & !MODELLED) | value"
            );
            assert!(
                m.only_events_are((Kind::MovFromDr, 7, old, 0), (Kind::MovToDr, 7, expect, 0)),
                "C16.Dr7_write.preserves_unmodelled: one mov from dr7, then exactly one mov to dr7"
            );
            assert!(
                m.regs_same_except(&before, field::DR7),
                "C16.Dr7_write.preserves_unmodelled: no other register changes"
            );
        }
        assert!(
            Dr7::read() == value,
            "C16.Dr7_write.preserves_unmodelled: the next typed read returns the value written"
        );
    }

    /// Round trip through the typed field accessors: flags plus the R/W
    /// (condition) and LEN (size) field of each of the four breakpoints, at the
    /// architectural positions R/Wn = bits 16+4n, 17+4n; LENn = bits 18+4n, 19+4n.
    //@ obligation C16 C16.Dr7_write.fields_read_back
    #[kani::proof]
    fn c16_dr7_write_fields_read_back() {
        verif_hw::reset_symbolic();
        let old = verif_hw::m().dr7;
        let flags = Dr7Flags::from_bits_retain(kani::any::<u64>() & 0x2BFF);
        let (c0, c1, c2, c3) = (any_cond(), any_cond(), any_cond(), any_cond());
        let (s0, s1, s2, s3) = (any_size(), any_size(), any_size(), any_size());
        let mut value = Dr7Value::from(flags);
        value.set_condition(DebugAddressRegisterNumber::Dr0, c0);
        value.set_condition(DebugAddressRegisterNumber::Dr1, c1);
        value.set_condition(DebugAddressRegisterNumber::Dr2, c2);
        value.set_condition(DebugAddressRegisterNumber::Dr3, c3);
        value.set_size(DebugAddressRegisterNumber::Dr0, s0);
        value.set_size(DebugAddressRegisterNumber::Dr1, s1);
        value.set_size(DebugAddressRegisterNumber::Dr2, s2);
        value.set_size(DebugAddressRegisterNumber::Dr3, s3);
        kani::cover!(true, "c16_dr7_write_fields_read_back: reachable");
        Dr7::write(value);
        let fields = cond_num(c0) << 16
            | size_num(s0) << 18
            | cond_num(c1) << 20
            | size_num(s1) << 22
            | cond_num(c2) << 24
            | size_num(s2) << 26
            | cond_num(c3) << 28
            | size_num(s3) << 30;
        assert!(
            verif_hw::m().dr7 == (old & !DR7_MODELLED) | flags.bits() | fields,
            "C16.Dr7_write.fields_read_back: flags and R/W, LEN fields land at their architectural positions"
        );
        let back = Dr7::read();
        assert!(
            back.flags() == flags,
            "C16.Dr7_write.fields_read_back: read returns the flags written"
        );
        assert!(
            back.condition(DebugAddressRegisterNumber::Dr0) == c0
                && back.condition(DebugAddressRegisterNumber::Dr1) == c1
                && back.condition(DebugAddressRegisterNumber::Dr2) == c2
                && back.condition(DebugAddressRegisterNumber::Dr3) == c3,
            "C16.Dr7_write.fields_read_back: read returns the four conditions written"
        );
        assert!(
            back.size(DebugAddressRegisterNumber::Dr0) == s0
                && back.size(DebugAddressRegisterNumber::Dr1) == s1
                && back.size(DebugAddressRegisterNumber::Dr2) == s2
                && back.size(DebugAddressRegisterNumber::Dr3) == s3,
            "C16.Dr7_write.fields_read_back: read returns the four sizes written"
        );
    }

    //@ obligation C16 C16.Dr7_update.read_f_write
    #[kani::proof]
    fn c16_dr7_update_read_f_write() {
        verif_hw::reset_symbolic();
        let before = *verif_hw::m();
        let old = before.dr7;
        let chosen = any_dr7value();
        kani::cover!(true, "c16_dr7_update_read_f_write: reachable");
        let mut calls: u8 = 0;
        let mut seen: u64 = 0;
        let mut writes_before_f: usize = 0;
        Dr7::update(|v| {
            calls += 1;
            seen = v.bits();
            writes_before_f = verif_hw::count(Kind::MovToDr);
            *v = chosen;
        });
        let m = verif_hw::m();
        let expect = (old & !DR7_MODELLED) | chosen.bits();
        assert!(calls == 1, "C16.Dr7_update.read_f_write: f runs exactly once");
        assert!(
            seen == old & DR7_MODELLED,
            "C16.Dr7_update.read_f_write: f sees the typed read of the old value"
        );
        assert!(writes_before_f == 0, "C16.Dr7_update.read_f_write: nothing is written before f ran");
        assert!(m.dr7 == expect, "C16.Dr7_update.read_f_write: the result of f is written like Dr7::write");
        assert!(
            m.log_len == 3
                && !m.log_overflow
                && !m.unknown_asm_hit
                && m.event(0).is(Kind::MovFromDr, 7, old, 0)
                && m.event(1).is(Kind::MovFromDr, 7, old, 0)
                && m.event(2).is(Kind::MovToDr, 7, expect, 0)
                && m.regs_same_except(&before, field::DR7),
            "C16.Dr7_update.read_f_write: reads, then exactly one mov to dr7, nothing else changes"
        );
    }
}
