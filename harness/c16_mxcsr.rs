//@ include-into src/registers/mxcsr.rs
//
// C16: mxcsr::read / write / update against the abstract machine.
// MXCSR is a 32-bit register; bits 0-15 are defined (SDM vol. 1 10.2.3), bits
// 16-31 are reserved and LDMXCSR raises #GP if one of them is set. The typed
// write therefore stores exactly the 16 modelled bits with the rest zero
// (whole-register write; nothing is documented as preserved).

#[cfg(kani)]
mod verif_c16_mxcsr {
    use super::*;
    use crate::verif_hw::{self, field, Kind};

    const MXCSR_MODELLED: u32 = 0xFFFF;

    //@ obligation C16 C16.mxcsr_read.truncated_raw
    #[kani::proof]
    fn c16_mxcsr_read_truncated_raw() {
        verif_hw::reset_symbolic();
        let before = *verif_hw::m();
        let old = before.mxcsr;
        kani::cover!(true, "c16_mxcsr_read_truncated_raw: reachable");
        let r = read();
        let m = verif_hw::m();
        assert!(
            r.bits() == old & MXCSR_MODELLED,
            "C16.mxcsr_read.truncated_raw: typed read == raw & MODELLED"
        );
        assert!(
            m.log_len == 1
                && !m.log_overflow
                && !m.unknown_asm_hit
                && m.event(0).kind == Kind::Stmxcsr
                && m.event(0).a == old as u64,
            "C16.mxcsr_read.truncated_raw: exactly one stmxcsr, storing the register"
        );
        assert!(
            m.regs_same_except(&before, field::NONE),
            "C16.mxcsr_read.truncated_raw: no register changes"
        );
    }

    //@ obligation C16 C16.mxcsr_write.read_back
    #[kani::proof]
    fn c16_mxcsr_write_read_back() {
        verif_hw::reset_symbolic();
        let before = *verif_hw::m();
        let v = MxCsr::from_bits_retain(kani::any::<u32>() & MXCSR_MODELLED);
        kani::cover!(true, "c16_mxcsr_write_read_back: reachable");
        write(v);
        {
            let m = verif_hw::m();
            assert!(
                m.mxcsr == v.bits(),
                "C16.mxcsr_write.read_back: MXCSR == value (reserved bits 16-31 zero)"
            );
            assert!(
                m.log_len == 1
                    && !m.log_overflow
                    && !m.unknown_asm_hit
                    && m.event(0).kind == Kind::Ldmxcsr
                    && m.event(0).a == v.bits() as u64,
                "C16.mxcsr_write.read_back: exactly one ldmxcsr, loading the value"
            );
            assert!(
                m.regs_same_except(&before, field::MXCSR),
                "C16.mxcsr_write.read_back: no other register changes"
            );
        }
        assert!(read() == v, "C16.mxcsr_write.read_back: read returns what was written");
    }

    //@ obligation C16 C16.mxcsr_update.read_f_write
    #[kani::proof]
    fn c16_mxcsr_update_read_f_write() {
        verif_hw::reset_symbolic();
        let before = *verif_hw::m();
        let old = before.mxcsr;
        let chosen = MxCsr::from_bits_retain(kani::any::<u32>() & MXCSR_MODELLED);
        kani::cover!(true, "c16_mxcsr_update_read_f_write: reachable");
        let mut calls: u8 = 0;
        let mut seen: u32 = 0;
        let mut writes_before_f: usize = 0;
        update(|f| {
            calls += 1;
            seen = f.bits();
            writes_before_f = verif_hw::count(Kind::Ldmxcsr);
            *f = chosen;
        });
        let m = verif_hw::m();
        assert!(calls == 1, "C16.mxcsr_update.read_f_write: f runs exactly once");
        assert!(
            seen == old & MXCSR_MODELLED,
            "C16.mxcsr_update.read_f_write: f sees the typed read of the old value"
        );
        assert!(writes_before_f == 0, "C16.mxcsr_update.read_f_write: nothing is written before f ran");
        assert!(
            m.mxcsr == chosen.bits(),
            "C16.mxcsr_update.read_f_write: the result of f is written like write"
        );
        assert!(
            m.log_len == 2
                && !m.log_overflow
                && !m.unknown_asm_hit
                && m.event(0).kind == Kind::Stmxcsr
                && m.event(0).a == old as u64
                && m.event(1).kind == Kind::Ldmxcsr
                && m.event(1).a == chosen.bits() as u64
                && m.regs_same_except(&before, field::MXCSR),
            "C16.mxcsr_update.read_f_write: one stmxcsr, then exactly one ldmxcsr, nothing else changes"
        );
    }
}
