//@ include-into src/instructions/port.rs
//
// C18 (sample): Port / PortReadOnly / PortWriteOnly for u8, u16, u32 against
// the abstract machine: exactly one In(width, port) / Out(width, port, value)
// event of the object's width, the read result is the device value truncated
// to the width, nothing else happens.

#[cfg(kani)]
mod verif_c18_port {
    use super::*;
    use crate::verif_hw::{self, Kind};

    // ------------------------------------------------------------ Port<T>

    //@ obligation C18 C18.Port_u8_read.one_in_event_and_value
    #[kani::proof]
    fn c18_port_u8_read() {
        verif_hw::reset_symbolic();
        let port: u16 = kani::any();
        let dev = verif_hw::m().device_in;
        kani::cover!(true, "c18_port_u8_read: reachable");
        let mut p: Port<u8> = Port::new(port);
        let v = unsafe { p.read() };
        let m = verif_hw::m();
        assert!(
            v == dev as u8,
            "C18.Port_u8_read.one_in_event_and_value: result == device value truncated to 8 bits"
        );
        assert!(
            m.only_event_is(Kind::In, 8, port as u64, (dev as u8) as u64),
            "C18.Port_u8_read.one_in_event_and_value: exactly one In(8, port), no other event"
        );
    }

    //@ obligation C18 C18.Port_u16_read.one_in_event_and_value
    #[kani::proof]
    fn c18_port_u16_read() {
        verif_hw::reset_symbolic();
        let port: u16 = kani::any();
        let dev = verif_hw::m().device_in;
        kani::cover!(true, "c18_port_u16_read: reachable");
        let mut p: Port<u16> = Port::new(port);
        let v = unsafe { p.read() };
        let m = verif_hw::m();
        assert!(
            v == dev as u16,
            "C18.Port_u16_read.one_in_event_and_value: result == device value truncated to 16 bits"
        );
        assert!(
            m.only_event_is(Kind::In, 16, port as u64, (dev as u16) as u64),
            "C18.Port_u16_read.one_in_event_and_value: exactly one In(16, port), no other event"
        );
    }

    //@ obligation C18 C18.Port_u32_read.one_in_event_and_value
    #[kani::proof]
    fn c18_port_u32_read() {
        verif_hw::reset_symbolic();
        let port: u16 = kani::any();
        let dev = verif_hw::m().device_in;
        kani::cover!(true, "c18_port_u32_read: reachable");
        let mut p: Port<u32> = Port::new(port);
        let v = unsafe { p.read() };
        let m = verif_hw::m();
        assert!(
            v == dev,
            "C18.Port_u32_read.one_in_event_and_value: result == device value"
        );
        assert!(
            m.only_event_is(Kind::In, 32, port as u64, dev as u64),
            "C18.Port_u32_read.one_in_event_and_value: exactly one In(32, port), no other event"
        );
    }

    //@ obligation C18 C18.Port_u8_write.one_out_event
    #[kani::proof]
    fn c18_port_u8_write() {
        verif_hw::reset_symbolic();
        let port: u16 = kani::any();
        let value: u8 = kani::any();
        kani::cover!(true, "c18_port_u8_write: reachable");
        let mut p: Port<u8> = Port::new(port);
        unsafe { p.write(value) };
        assert!(
            verif_hw::m().only_event_is(Kind::Out, 8, port as u64, value as u64),
            "C18.Port_u8_write.one_out_event: exactly one Out(8, port, value), no other event"
        );
    }

    //@ obligation C18 C18.Port_u16_write.one_out_event
    #[kani::proof]
    fn c18_port_u16_write() {
        verif_hw::reset_symbolic();
        let port: u16 = kani::any();
        let value: u16 = kani::any();
        kani::cover!(true, "c18_port_u16_write: reachable");
        let mut p: Port<u16> = Port::new(port);
        unsafe { p.write(value) };
        assert!(
            verif_hw::m().only_event_is(Kind::Out, 16, port as u64, value as u64),
            "C18.Port_u16_write.one_out_event: exactly one Out(16, port, value), no other event"
        );
    }

    //@ obligation C18 C18.Port_u32_write.one_out_event
    #[kani::proof]
    fn c18_port_u32_write() {
        verif_hw::reset_symbolic();
        let port: u16 = kani::any();
        let value: u32 = kani::any();
        kani::cover!(true, "c18_port_u32_write: reachable");
        let mut p: Port<u32> = Port::new(port);
        unsafe { p.write(value) };
        assert!(
            verif_hw::m().only_event_is(Kind::Out, 32, port as u64, value as u64),
            "C18.Port_u32_write.one_out_event: exactly one Out(32, port, value), no other event"
        );
    }

    // ------------------------------------------------------ PortReadOnly<T>

    //@ obligation C18 C18.PortReadOnly_u8_read.one_in_event_and_value
    #[kani::proof]
    fn c18_port_ro_u8_read() {
        verif_hw::reset_symbolic();
        let port: u16 = kani::any();
        let dev = verif_hw::m().device_in;
        kani::cover!(true, "c18_port_ro_u8_read: reachable");
        let mut p: PortReadOnly<u8> = PortReadOnly::new(port);
        let v = unsafe { p.read() };
        assert!(
            v == dev as u8,
            "C18.PortReadOnly_u8_read.one_in_event_and_value: result == device value truncated to 8 bits"
        );
        assert!(
            verif_hw::m().only_event_is(Kind::In, 8, port as u64, (dev as u8) as u64),
            "C18.PortReadOnly_u8_read.one_in_event_and_value: exactly one In(8, port), no other event"
        );
    }

    //@ obligation C18 C18.PortReadOnly_u16_read.one_in_event_and_value
    #[kani::proof]
    fn c18_port_ro_u16_read() {
        verif_hw::reset_symbolic();
        let port: u16 = kani::any();
        let dev = verif_hw::m().device_in;
        kani::cover!(true, "c18_port_ro_u16_read: reachable");
        let mut p: PortReadOnly<u16> = PortReadOnly::new(port);
        let v = unsafe { p.read() };
        assert!(
            v == dev as u16,
            "C18.PortReadOnly_u16_read.one_in_event_and_value: result == device value truncated to 16 bits"
        );
        assert!(
            verif_hw::m().only_event_is(Kind::In, 16, port as u64, (dev as u16) as u64),
            "C18.PortReadOnly_u16_read.one_in_event_and_value: exactly one In(16, port), no other event"
        );
    }

    //@ obligation C18 C18.PortReadOnly_u32_read.one_in_event_and_value
    #[kani::proof]
    fn c18_port_ro_u32_read() {
        verif_hw::reset_symbolic();
        let port: u16 = kani::any();
        let dev = verif_hw::m().device_in;
        kani::cover!(true, "c18_port_ro_u32_read: reachable");
        let mut p: PortReadOnly<u32> = PortReadOnly::new(port);
        let v = unsafe { p.read() };
        assert!(
            v == dev,
            "C18.PortReadOnly_u32_read.one_in_event_and_value: result == device value"
        );
        assert!(
            verif_hw::m().only_event_is(Kind::In, 32, port as u64, dev as u64),
            "C18.PortReadOnly_u32_read.one_in_event_and_value: exactly one In(32, port), no other event"
        );
    }

    // ----------------------------------------------------- PortWriteOnly<T>

    //@ obligation C18 C18.PortWriteOnly_u8_write.one_out_event
    #[kani::proof]
    fn c18_port_wo_u8_write() {
        verif_hw::reset_symbolic();
        let port: u16 = kani::any();
        let value: u8 = kani::any();
        kani::cover!(true, "c18_port_wo_u8_write: reachable");
        let mut p: PortWriteOnly<u8> = PortWriteOnly::new(port);
        unsafe { p.write(value) };
        assert!(
            verif_hw::m().only_event_is(Kind::Out, 8, port as u64, value as u64),
            "C18.PortWriteOnly_u8_write.one_out_event: exactly one Out(8, port, value), no other event"
        );
    }

    //@ obligation C18 C18.PortWriteOnly_u16_write.one_out_event
    #[kani::proof]
    fn c18_port_wo_u16_write() {
        verif_hw::reset_symbolic();
        let port: u16 = kani::any();
        let value: u16 = kani::any();
        kani::cover!(true, "c18_port_wo_u16_write: reachable");
        let mut p: PortWriteOnly<u16> = PortWriteOnly::new(port);
        unsafe { p.write(value) };
        assert!(
            verif_hw::m().only_event_is(Kind::Out, 16, port as u64, value as u64),
            "C18.PortWriteOnly_u16_write.one_out_event: exactly one Out(16, port, value), no other event"
        );
    }

    //@ obligation C18 C18.PortWriteOnly_u32_write.one_out_event
    #[kani::proof]
    fn c18_port_wo_u32_write() {
        verif_hw::reset_symbolic();
        let port: u16 = kani::any();
        let value: u32 = kani::any();
        kani::cover!(true, "c18_port_wo_u32_write: reachable");
        let mut p: PortWriteOnly<u32> = PortWriteOnly::new(port);
        unsafe { p.write(value) };
        assert!(
            verif_hw::m().only_event_is(Kind::Out, 32, port as u64, value as u64),
            "C18.PortWriteOnly_u32_write.one_out_event: exactly one Out(32, port, value), no other event"
        );
    }

    // ------------------------------------------------------------ identity

    //@ obligation C18 C18.PortGeneric_eq_clone.port_identity
    #[kani::proof]
    fn c18_port_eq_clone() {
        let a: u16 = kani::any();
        let b: u16 = kani::any();
        kani::cover!(true, "c18_port_eq_clone: reachable");
        let pa: Port<u32> = Port::new(a);
        let pb: Port<u32> = Port::new(b);
        assert!(
            (pa == pb) == (a == b),
            "C18.PortGeneric_eq_clone.port_identity: equal iff the port numbers are equal"
        );
        assert!(
            pa.clone().port == a,
            "C18.PortGeneric_eq_clone.port_identity: clone keeps the port number"
        );
    }
}
