//@ include-into src/registers/rflags.rs
//
// C16: rflags::read / read_raw / write / write_raw / update against the
// abstract machine. The mask is written from the SDM (vol. 1 3.4.3).
// Model note: `push r; popfq` stores all 64 bits of the operand at CPL 0 (the
// bits hardware protects - VM, RF, VIF, VIP, bit 1 - are not modelled), so
// "preserves reserved bits" is checked on the value the wrapper hands to popfq.

#[cfg(kani)]
mod verif_c16_rflags {
    use super::*;
    use crate::verif_hw::{self, field, Kind};

    /// RFLAGS bits 0, 2, 4, 6-11, 12-13 (IOPL), 14, 16-21.
    const RFLAGS_MODELLED: u64 = 0x003F_7FD5;

    //@ obligation C16 C16.rflags_read.truncated_raw
    //@ obligation C16 C16.rflags_read_raw.value_and_event
    #[kani::proof]
    fn c16_rflags_read_truncated_raw() {
        verif_hw::reset_symbolic();
        let before = *verif_hw::m();
        let old = before.rflags;
        kani::cover!(true, "c16_rflags_read_truncated_raw: reachable");
        let r = read();
        {
            let m = verif_hw::m();
            assert!(
                r.bits() == old & RFLAGS_MODELLED,
                "C16.rflags_read.truncated_raw: typed read == raw & MODELLED"
            );
            assert!(
                m.only_event_is(Kind::Pushfq, old, 0, 0) && m.regs_same_except(&before, field::NONE),
                "C16.rflags_read.truncated_raw: exactly one pushfq, no register changes"
            );
        }
        let raw = read_raw();
        let m = verif_hw::m();
        assert!(raw == old, "C16.rflags_read_raw.value_and_event: returns RFLAGS, all 64 bits");
        assert!(
            m.only_events_are((Kind::Pushfq, old, 0, 0), (Kind::Pushfq, old, 0, 0))
                && m.regs_same_except(&before, field::NONE),
            "C16.rflags_read_raw.value_and_event: exactly one pushfq, no register changes"
        );
    }

    //@ obligation C16 C16.rflags_write_raw.stores_exactly
    #[kani::proof]
    fn c16_rflags_write_raw_stores_exactly() {
        verif_hw::reset_symbolic();
        let before = *verif_hw::m();
        let v: u64 = kani::any();
        kani::cover!(true, "c16_rflags_write_raw_stores_exactly: reachable");
        unsafe { write_raw(v) };
        let m = verif_hw::m();
        assert!(m.rflags == v, "C16.rflags_write_raw.stores_exactly: RFLAGS == value");
        assert!(
            m.only_event_is(Kind::Popfq, v, 0, 0) && m.regs_same_except(&before, field::RFLAGS),
            "C16.rflags_write_raw.stores_exactly: exactly one popfq of the value, no other register changes"
        );
    }

    //@ obligation C16 C16.rflags_write.preserves_unmodelled
    #[kani::proof]
    fn c16_rflags_write_preserves_unmodelled() {
        verif_hw::reset_symbolic();
        let before = *verif_hw::m();
        let old = before.rflags;
        let flags = RFlags::from_bits_retain(kani::any::<u64>() & RFLAGS_MODELLED);
        kani::cover!(true, "c16_rflags_write_preserves_unmodelled: reachable");
        unsafe { write(flags) };
        let expect = (old & !RFLAGS_MODELLED) | flags.bits();
        {
            let m = verif_hw::m();
            assert!(
                m.rflags == expect,
                "C16.rflags_write.preserves_unmodelled: new == (old & !MODELLED) | flags"
            );
            assert!(
                m.only_events_are((Kind::Pushfq, old, 0, 0), (Kind::Popfq, expect, 0, 0)),
                "C16.rflags_write.preserves_unmodelled: one pushfq, then exactly one popfq"
            );
            assert!(
                m.regs_same_except(&before, field::RFLAGS),
                "C16.rflags_write.preserves_unmodelled: no other register changes"
            );
        }
        assert!(
            read() == flags,
            "C16.rflags_write.preserves_unmodelled: the next typed read returns the flags written"
        );
    }

    //@ obligation C16 C16.rflags_update.read_f_write
    #[kani::proof]
    fn c16_rflags_update_read_f_write() {
        verif_hw::reset_symbolic();
        let before = *verif_hw::m();
        let old = before.rflags;
        let chosen = RFlags::from_bits_retain(kani::any::<u64>() & RFLAGS_MODELLED);
        kani::cover!(true, "c16_rflags_update_read_f_write: reachable");
        let mut calls: u8 = 0;
        let mut seen: u64 = 0;
        let mut writes_before_f: usize = 0;
        unsafe {
            update(|f| {
                calls += 1;
                seen = f.bits();
                writes_before_f = verif_hw::count(Kind::Popfq);
                *f = chosen;
            })
        };
        let m = verif_hw::m();
        let expect = (old & !RFLAGS_MODELLED) | chosen.bits();
        assert!(calls == 1, "C16.rflags_update.read_f_write: f runs exactly once");
        assert!(
            seen == old & RFLAGS_MODELLED,
            "C16.rflags_update.read_f_write: f sees the typed read of the old value"
        );
        assert!(writes_before_f == 0, "C16.rflags_update.read_f_write: nothing is written before f ran");
        assert!(m.rflags == expect, "C16.rflags_update.read_f_write: the result of f is written like write");
        assert!(
            m.log_len == 3
                && !m.log_overflow
                && !m.unknown_asm_hit
                && m.event(0).is(Kind::Pushfq, old, 0, 0)
                && m.event(1).is(Kind::Pushfq, old, 0, 0)
                && m.event(2).is(Kind::Popfq, expect, 0, 0)
                && m.regs_same_except(&before, field::RFLAGS),
            "C16.rflags_update.read_f_write: reads, then exactly one popfq, nothing else changes"
        );
    }
}
