//@ include-into src/structures/paging/mapper/mod.rs
//
// C01 building blocks (PART A): the provided methods of the `Mapper` and `Translate` traits.
// Complete proofs over all arguments, for the three page sizes, against a recording mock
// implementation of the required methods (so they hold for EVERY mapper implementation).
//
//   Mapper::map_to        parent flags == flags & (PRESENT | WRITABLE | USER_ACCESSIBLE);
//                         page, frame, flags, allocator forwarded unchanged, result handed back unchanged
//   Mapper::identity_map  page == the page that starts at the frame's physical address; panics
//                         (VirtAddr::new) for a frame in [2^47, 2^52), where no such page exists
//   Translate::translate_addr  Some(frame start + offset) for Mapped, None for the two other variants
//   (`translate_page` has no provided implementation: it is a required method.)
//
// Bit values are literals from the SDM: P = 1, R/W = 2, U/S = 4.

#[cfg(kani)]
mod verif_c01_trait_defaults {
    use super::*;
    use crate::structures::paging::page::AddressNotAligned;

    const PWU: u64 = 0b111;

    /// Marker for "the call returned although it had to panic" (see lib/C19_NOTES.md).
    #[inline(never)]
    fn returned_on_invalid_input() {
        unsafe { core::hint::unreachable_unchecked() }
    }

    struct Mock<S: PageSize> {
        calls: u32,
        page: Option<Page<S>>,
        frame: Option<PhysFrame<S>>,
        flags: u64,
        parent: u64,
        alloc_ptr: *const (),
        answer_ok: bool,
        answer_page: Page<S>,
        answer_err: u8,
    }

    impl<S: PageSize> Mapper<S> for Mock<S> {
        unsafe fn map_to_with_table_flags<A>(
            &mut self,
            page: Page<S>,
            frame: PhysFrame<S>,
            flags: PageTableFlags,
            parent_table_flags: PageTableFlags,
            frame_allocator: &mut A,
        ) -> Result<MapperFlush<S>, MapToError<S>>
        where
            Self: Sized,
            A: FrameAllocator<Size4KiB> + ?Sized,
        {
            self.calls += 1;
            self.page = Some(page);
            self.frame = Some(frame);
            self.flags = flags.bits();
            self.parent = parent_table_flags.bits();
            self.alloc_ptr = frame_allocator as *mut A as *const ();
            if self.answer_ok {
                Ok(MapperFlush::new(self.answer_page))
            } else {
                Err(match self.answer_err {
                    0 => MapToError::FrameAllocationFailed,
                    1 => MapToError::ParentEntryHugePage,
                    _ => MapToError::PageAlreadyMapped(frame),
                })
            }
        }
        fn unmap(&mut self, _page: Page<S>) -> Result<(PhysFrame<S>, MapperFlush<S>), UnmapError> {
            unreachable!()
        }
        unsafe fn update_flags(&mut self, _page: Page<S>, _flags: PageTableFlags) -> Result<MapperFlush<S>, FlagUpdateError> {
            unreachable!()
        }
        unsafe fn set_flags_p4_entry(&mut self, _page: Page<S>, _flags: PageTableFlags) -> Result<MapperFlushAll, FlagUpdateError> {
            unreachable!()
        }
        unsafe fn set_flags_p3_entry(&mut self, _page: Page<S>, _flags: PageTableFlags) -> Result<MapperFlushAll, FlagUpdateError> {
            unreachable!()
        }
        unsafe fn set_flags_p2_entry(&mut self, _page: Page<S>, _flags: PageTableFlags) -> Result<MapperFlushAll, FlagUpdateError> {
            unreachable!()
        }
        fn translate_page(&self, _page: Page<S>) -> Result<PhysFrame<S>, TranslateError> {
            unreachable!()
        }
    }

    struct NoAlloc(u8); // not zero-sized: its address identifies it
    unsafe impl FrameAllocator<Size4KiB> for NoAlloc {
        fn allocate_frame(&mut self) -> Option<PhysFrame<Size4KiB>> {
            unreachable!()
        }
    }

    fn any_page<S: PageSize>() -> Page<S> {
        Page::containing_address(VirtAddr::new_truncate(kani::any()))
    }
    fn any_frame<S: PageSize>() -> PhysFrame<S> {
        PhysFrame::containing_address(PhysAddr::new_truncate(kani::any()))
    }
    fn mock<S: PageSize>() -> Mock<S> {
        Mock {
            calls: 0,
            page: None,
            frame: None,
            flags: 0,
            parent: 0,
            alloc_ptr: core::ptr::null(),
            answer_ok: kani::any(),
            answer_page: any_page(),
            answer_err: kani::any(),
        }
    }

    fn check_map_to<S: PageSize>() {
        let mut m = mock::<S>();
        let (page, frame) = (any_page::<S>(), any_frame::<S>());
        let flags = PageTableFlags::from_bits_truncate(kani::any());
        let mut alloc = NoAlloc(0);
        let alloc_ptr = &mut alloc as *mut NoAlloc as *const ();
        let r = unsafe { m.map_to(page, frame, flags, &mut alloc) };
        assert!(m.calls == 1, "C01.Mapper_map_to.forwards_unchanged: exactly one call of map_to_with_table_flags");
        assert!(
            m.page == Some(page) && m.frame == Some(frame) && m.flags == flags.bits() && m.alloc_ptr == alloc_ptr,
            "C01.Mapper_map_to.forwards_unchanged: page, frame, flags, allocator"
        );
        assert!(
            m.parent == flags.bits() & PWU,
            "C01.Mapper_map_to.parent_flags_are_flags_and_PWU: parent == flags & (P | W | U)"
        );
        match r {
            Ok(t) => assert!(m.answer_ok && t.page() == m.answer_page, "C01.Mapper_map_to.result_handed_back: Ok token"),
            Err(MapToError::FrameAllocationFailed) => {
                assert!(!m.answer_ok && m.answer_err == 0, "C01.Mapper_map_to.result_handed_back: FrameAllocationFailed")
            }
            Err(MapToError::ParentEntryHugePage) => {
                assert!(!m.answer_ok && m.answer_err == 1, "C01.Mapper_map_to.result_handed_back: ParentEntryHugePage")
            }
            Err(MapToError::PageAlreadyMapped(f)) => {
                assert!(!m.answer_ok && m.answer_err >= 2 && f == frame, "C01.Mapper_map_to.result_handed_back: PageAlreadyMapped")
            }
        }
    }

    //@ obligation C01 C01.Mapper_map_to.forwards_unchanged
    //@ obligation C01 C01.Mapper_map_to.parent_flags_are_flags_and_PWU
    //@ obligation C01 C01.Mapper_map_to.result_handed_back
    #[kani::proof]
    fn c01_mapper_map_to_default_4kib() {
        check_map_to::<Size4KiB>();
        kani::cover!(true, "c01_mapper_map_to_default_4kib: reachable");
    }

    //@ obligation C01 C01.Mapper_map_to.forwards_unchanged
    //@ obligation C01 C01.Mapper_map_to.parent_flags_are_flags_and_PWU
    //@ obligation C01 C01.Mapper_map_to.result_handed_back
    #[kani::proof]
    fn c01_mapper_map_to_default_2mib() {
        check_map_to::<Size2MiB>();
        kani::cover!(true, "c01_mapper_map_to_default_2mib: reachable");
    }

    //@ obligation C01 C01.Mapper_map_to.forwards_unchanged
    //@ obligation C01 C01.Mapper_map_to.parent_flags_are_flags_and_PWU
    //@ obligation C01 C01.Mapper_map_to.result_handed_back
    #[kani::proof]
    fn c01_mapper_map_to_default_1gib() {
        check_map_to::<Size1GiB>();
        kani::cover!(true, "c01_mapper_map_to_default_1gib: reachable");
    }

    // identity_map, frame below 2^47: a page with the same start address exists.
    fn check_identity_map<S: PageSize>() {
        let mut m = mock::<S>();
        let frame = any_frame::<S>();
        kani::assume(frame.start_address().as_u64() < (1u64 << 47));
        let flags = PageTableFlags::from_bits_truncate(kani::any());
        let mut alloc = NoAlloc(0);
        let alloc_ptr = &mut alloc as *mut NoAlloc as *const ();
        let r = unsafe { m.identity_map(frame, flags, &mut alloc) };
        assert!(m.calls == 1, "C01.Mapper_identity_map.maps_page_at_frame_address: exactly one call of map_to_with_table_flags");
        assert!(
            m.page.is_some() && m.page.unwrap().start_address().as_u64() == frame.start_address().as_u64(),
            "C01.Mapper_identity_map.maps_page_at_frame_address: page start == frame start"
        );
        assert!(
            m.frame == Some(frame) && m.flags == flags.bits() && m.parent == flags.bits() & PWU && m.alloc_ptr == alloc_ptr,
            "C01.Mapper_identity_map.maps_page_at_frame_address: frame, flags, parent flags (flags & PWU), allocator"
        );
        assert!(r.is_ok() == m.answer_ok, "C01.Mapper_identity_map.maps_page_at_frame_address: result handed back");
    }

    //@ obligation C01 C01.Mapper_identity_map.maps_page_at_frame_address
    #[kani::proof]
    fn c01_mapper_identity_map_4kib() {
        check_identity_map::<Size4KiB>();
        kani::cover!(true, "c01_mapper_identity_map_4kib: reachable");
    }

    //@ obligation C01 C01.Mapper_identity_map.maps_page_at_frame_address
    #[kani::proof]
    fn c01_mapper_identity_map_2mib() {
        check_identity_map::<Size2MiB>();
        kani::cover!(true, "c01_mapper_identity_map_2mib: reachable");
    }

    //@ obligation C01 C01.Mapper_identity_map.maps_page_at_frame_address
    #[kani::proof]
    fn c01_mapper_identity_map_1gib() {
        check_identity_map::<Size1GiB>();
        kani::cover!(true, "c01_mapper_identity_map_1gib: reachable");
    }

    // identity_map, frame in [2^47, 2^52): the frame's address is not a canonical virtual address
    // (lower half ends at 2^47, upper half starts at 0xffff_8000_0000_0000 > 2^52), so no identity
    // page exists. The call panics on EVERY such frame and never reaches the mapper.
    //@ obligation C01 C01.Mapper_identity_map.panics_when_no_identity_page_exists
    #[kani::proof]
    #[kani::should_panic]
    fn c01_mapper_identity_map_noncanonical_panics() {
        let mut m = mock::<Size4KiB>();
        let frame = any_frame::<Size4KiB>();
        kani::assume(frame.start_address().as_u64() >= (1u64 << 47));
        let flags = PageTableFlags::from_bits_truncate(kani::any());
        let mut alloc = NoAlloc(0);
        kani::cover!(true, "c01_mapper_identity_map_noncanonical_panics: reachable");
        let _ = unsafe { m.identity_map(frame, flags, &mut alloc) };
        returned_on_invalid_input();
    }

    // ------------------------------------------------------------------ Translate::translate_addr

    struct MockTranslate {
        kind: u8,
        start: u64,
        offset: u64,
        flags: u64,
        asked: core::cell::Cell<u64>,
        calls: core::cell::Cell<u32>,
    }
    impl Translate for MockTranslate {
        fn translate(&self, addr: VirtAddr) -> TranslateResult {
            self.calls.set(self.calls.get() + 1);
            self.asked.set(addr.as_u64());
            let flags = PageTableFlags::from_bits_truncate(self.flags);
            let pa = PhysAddr::new_truncate(self.start);
            match self.kind {
                0 => TranslateResult::NotMapped,
                1 => TranslateResult::InvalidFrameAddress(pa),
                2 => TranslateResult::Mapped { frame: MappedFrame::Size4KiB(PhysFrame::containing_address(pa)), offset: self.offset, flags },
                3 => TranslateResult::Mapped { frame: MappedFrame::Size2MiB(PhysFrame::containing_address(pa)), offset: self.offset, flags },
                _ => TranslateResult::Mapped { frame: MappedFrame::Size1GiB(PhysFrame::containing_address(pa)), offset: self.offset, flags },
            }
        }
    }

    //@ obligation C01 C01.Translate_translate_addr.mapped_is_frame_start_plus_offset
    //@ obligation C01 C01.Translate_translate_addr.none_otherwise
    #[kani::proof]
    fn c01_translate_addr_default() {
        let t = MockTranslate {
            kind: kani::any(),
            start: kani::any(),
            offset: kani::any(),
            flags: kani::any(),
            asked: core::cell::Cell::new(0),
            calls: core::cell::Cell::new(0),
        };
        let size: u64 = match t.kind {
            2 => 1 << 12,
            3 => 1 << 21,
            _ => 1 << 30,
        };
        // translate() promises an offset inside the frame
        kani::assume(t.offset < size);
        let addr = VirtAddr::new_truncate(kani::any());
        let r = t.translate_addr(addr);
        assert!(
            t.calls.get() == 1 && t.asked.get() == addr.as_u64(),
            "C01.Translate_translate_addr.mapped_is_frame_start_plus_offset: one translate() call for the same address"
        );
        let start_aligned = (t.start & 0x000f_ffff_ffff_ffff) & !(size - 1);
        if t.kind >= 2 {
            assert!(
                r.is_some() && r.unwrap().as_u64() == start_aligned + t.offset,
                "C01.Translate_translate_addr.mapped_is_frame_start_plus_offset: Some(frame.start_address() + offset)"
            );
        } else {
            assert!(r.is_none(), "C01.Translate_translate_addr.none_otherwise: NotMapped and InvalidFrameAddress give None");
        }
        kani::cover!(t.kind == 4, "c01_translate_addr_default: 1 GiB case");
        kani::cover!(true, "c01_translate_addr_default: reachable");
    }

    // MappedFrame accessors used above and by callers: exact for the three variants.
    //@ obligation C01 C01.MappedFrame.start_address_and_size
    #[kani::proof]
    fn c01_mapped_frame_accessors() {
        let pa = PhysAddr::new_truncate(kani::any());
        let f4 = MappedFrame::Size4KiB(PhysFrame::containing_address(pa));
        let f2 = MappedFrame::Size2MiB(PhysFrame::containing_address(pa));
        let f1 = MappedFrame::Size1GiB(PhysFrame::containing_address(pa));
        kani::cover!(true, "c01_mapped_frame_accessors: reachable");
        assert!(
            f4.size() == 4096 && f2.size() == 2 * 1024 * 1024 && f1.size() == 1024 * 1024 * 1024,
            "C01.MappedFrame.start_address_and_size: size"
        );
        assert!(
            f4.start_address().as_u64() == pa.as_u64() & !0xfff
                && f2.start_address().as_u64() == pa.as_u64() & !0x1f_ffff
                && f1.start_address().as_u64() == pa.as_u64() & !0x3fff_ffff,
            "C01.MappedFrame.start_address_and_size: start address"
        );
        let _ = AddressNotAligned;
    }
}
