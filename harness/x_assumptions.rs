//@ include-into src/lib.rs
//
// Cross-checks of what the Verus side (E2) ASSUMES about code it cannot see,
// run against the REAL dependencies and the real derived impls:
//
//   * prelude/verus_prelude.rs `trait BitField` shim (external_body impl for
//     u64): `get_bits` / `set_bits` / `get_bit` / `set_bit` contracts, with
//     the panics of the real crate stated as preconditions;
//   * `assume_specification[u64::is_power_of_two]`;
//   * the `PartialEqSpecImpl` / `PartialOrdSpecImpl` blocks in spec/*.spec.rs
//     ("derive(PartialEq, PartialOrd, Ord) compares the numeric value");
//   * `global size_of usize == 8` / exact u64 <-> usize conversions.
//
// Each harness is tagged with the property whose Verus proof rests on the
// assumption (obligation names `C<nn>.assumed.<what>`), so a change of the
// dependency that breaks an assumed contract turns the dependent property's
// check red (or undecided), not silently green.
//
// The BitField contracts are checked for SYMBOLIC range bounds (every
// lo < hi <= width, every value), which covers every literal range the crate
// uses (`grep get_bits|set_bits src`: u64 47.., 12.., 0..16, 16..40, 40..44,
// 56..64, 0..24, 24..32, 0..32, 32..64, 32..48, 48..64, the DR7 ranges 16+4n..;
// u32 0..=15, 16..=27; u16 0..2, 0..3, 8..12, 13..15, 1..3, 3..16), plus
// separate harnesses for the literal forms on addresses (`47..`, `12..`)
// exactly as written in src/addr.rs and src/instructions/tlb.rs.
#[cfg(kani)]
#[allow(unused_imports, clippy::all)]
mod verif_x_assumptions {
    use super::*;
    use crate::structures::paging::{
        Page, PageSize, PageTableIndex, PhysFrame, Size1GiB, Size2MiB, Size4KiB,
    };
    use bit_field::BitField;
    use core::cmp::Ordering;
    use core::convert::TryFrom;

    /// "the call returned although the input is invalid": see lib/C19_NOTES.md.
    #[inline(never)]
    fn returned_on_invalid_input() {
        unsafe { core::hint::unreachable_unchecked() }
    }

    // The shim's vocabulary (prelude/verus_prelude.rs mask_u64 / get_bits_u64 /
    // set_bits_u64 / bf_fits), transcribed for each width.
    macro_rules! shim_fns {
        ($t:ty, $w:expr, $mask:ident, $get:ident, $set:ident, $fits:ident) => {
            fn $mask(lo: usize, hi: usize) -> $t {
                let len = hi - lo;
                let m: $t = if len >= $w { <$t>::MAX } else { ((1 as $t) << len) - 1 };
                m << lo
            }
            fn $get(v: $t, lo: usize, hi: usize) -> $t {
                (v & $mask(lo, hi)) >> lo
            }
            fn $set(v: $t, lo: usize, hi: usize, val: $t) -> $t {
                (v & !$mask(lo, hi)) | (val << lo)
            }
            fn $fits(val: $t, len: usize) -> bool {
                len >= $w || val < ((1 as $t) << len)
            }
        };
    }
    shim_fns!(u64, 64, mask64, get64, set64, fits64);
    shim_fns!(u32, 32, mask32, get32, set32, fits32);
    shim_fns!(u16, 16, mask16, get16, set16, fits16);

    // ------------------------------------------------ u64, the literal address forms

    //@ obligation C05 C05.assumed.bitfield_get_bits_47_matches_real_crate
    //@ obligation C03 C03.assumed.bitfield_get_bits_47_matches_real_crate
    #[kani::proof]
    fn c05_assumed_get_bits_47() {
        let v: u64 = kani::any();
        kani::cover!(true, "c05_assumed_get_bits_47: reachable");
        let r = v.get_bits(47..);
        assert!(
            r == v >> 47,
            "C05.assumed.bitfield_get_bits_47_matches_real_crate: C03.assumed.bitfield_get_bits_47_matches_real_crate: get_bits(47..) == v >> 47"
        );
        assert!(
            r == get64(v, 47, 64),
            "C05.assumed.bitfield_get_bits_47_matches_real_crate: C03.assumed.bitfield_get_bits_47_matches_real_crate: equals the shim's bf_get(47, 64)"
        );
    }

    //@ obligation C05 C05.assumed.bitfield_set_bits_47_matches_real_crate
    //@ obligation C03 C03.assumed.bitfield_set_bits_47_matches_real_crate
    #[kani::proof]
    fn c05_assumed_set_bits_47() {
        let v: u64 = kani::any();
        let x: u64 = kani::any();
        kani::assume(x < (1 << 17));
        kani::cover!(true, "c05_assumed_set_bits_47: reachable");
        let mut w = v;
        let r = *w.set_bits(47.., x);
        let mask: u64 = 0xffff_8000_0000_0000;
        assert!(
            w == (v & !mask) | (x << 47) && r == w,
            "C05.assumed.bitfield_set_bits_47_matches_real_crate: C03.assumed.bitfield_set_bits_47_matches_real_crate: set_bits(47.., x) == (v & !mask) | x << 47"
        );
        assert!(
            w == set64(v, 47, 64, x) && fits64(x, 17),
            "C05.assumed.bitfield_set_bits_47_matches_real_crate: C03.assumed.bitfield_set_bits_47_matches_real_crate: equals the shim's bf_set(47, 64, x)"
        );
    }

    // The shim states "value fits" as a PRECONDITION; the real crate panics. For every x >= 2^17.
    //@ obligation C05 C05.assumed.bitfield_set_bits_47_panics_if_value_too_wide
    #[kani::proof]
    #[kani::should_panic]
    fn c05_assumed_set_bits_47_rejects() {
        let mut v: u64 = kani::any();
        let x: u64 = kani::any();
        kani::assume(x >= (1 << 17));
        kani::cover!(true, "c05_assumed_set_bits_47_rejects: reachable");
        v.set_bits(47.., x);
        returned_on_invalid_input();
    }

    // tlb.rs flush_broadcast: rax.set_bits(12.., va.get_bits(12..))
    //@ obligation C11 C11.assumed.bitfield_get_set_bits_12_matches_real_crate
    #[kani::proof]
    fn c11_assumed_get_set_bits_12() {
        let v: u64 = kani::any();
        let a: u64 = kani::any();
        kani::cover!(true, "c11_assumed_get_set_bits_12: reachable");
        let g = a.get_bits(12..);
        assert!(
            g == a >> 12 && g == get64(a, 12, 64),
            "C11.assumed.bitfield_get_set_bits_12_matches_real_crate: get_bits(12..) == a >> 12"
        );
        let mut w = v;
        w.set_bits(12.., g);
        assert!(
            w == (v & 0xfff) | (a & !0xfff) && w == set64(v, 12, 64, g),
            "C11.assumed.bitfield_get_set_bits_12_matches_real_crate: set_bits(12.., g) replaces bits 12..63"
        );
    }

    // ------------------------------------------------ every range, three widths

    // Bodies of the per-width harnesses (macros, because `BitField` has no common supertrait for
    // the arithmetic used in the expected values). `$cover` and `$msg` are whole literals because
    // `kani::cover!` / Kani's `assert!` want a literal description.
    macro_rules! get_body {
        ($t:ty, $w:expr, $get:ident, $cover:literal, $msg:literal) => {{
            let v: $t = kani::any();
            let lo: usize = kani::any();
            let hi: usize = kani::any();
            kani::assume(lo < hi && hi <= $w);
            kani::cover!(true, $cover);
            let want = $get(v, lo, hi);
            let ok = v.get_bits(lo..hi) == want
                && v.get_bits(lo..=hi - 1) == want
                && (hi != $w || v.get_bits(lo..) == want)
                && (lo != 0 || v.get_bits(..hi) == want);
            assert!(ok, $msg);
        }};
    }

    macro_rules! set_body {
        ($t:ty, $w:expr, $set:ident, $fits:ident, $mask:ident, $cover:literal, $msg:literal) => {{
            let v: $t = kani::any();
            let x: $t = kani::any();
            let lo: usize = kani::any();
            let hi: usize = kani::any();
            kani::assume(lo < hi && hi <= $w);
            kani::assume($fits(x, hi - lo));
            kani::cover!(true, $cover);
            let want = $set(v, lo, hi, x);
            let mut a = v;
            a.set_bits(lo..hi, x);
            let mut b = v;
            b.set_bits(lo..=hi - 1, x);
            let mut c = v;
            if hi == $w {
                c.set_bits(lo.., x);
            } else {
                c = want;
            }
            // all range forms agree with the shim; the field reads back, everything else is untouched
            let ok = a == want
                && b == want
                && c == want
                && want.get_bits(lo..hi) == x
                && want & !$mask(lo, hi) == v & !$mask(lo, hi);
            assert!(ok, $msg);
        }};
    }

    // "fits" is a PRECONDITION of the shim; the real crate panics for every value that does not fit.
    macro_rules! rej_body {
        ($t:ty, $w:expr, $fits:ident, $cover:literal) => {{
            let mut v: $t = kani::any();
            let x: $t = kani::any();
            let lo: usize = kani::any();
            let hi: usize = kani::any();
            kani::assume(lo < hi && hi <= $w);
            kani::assume(!$fits(x, hi - lo));
            kani::cover!(true, $cover);
            v.set_bits(lo..hi, x);
            returned_on_invalid_input();
        }};
    }

    macro_rules! bit_body {
        ($t:ty, $w:expr, $cover:literal, $msg:literal) => {{
            let v: $t = kani::any();
            let i: usize = kani::any();
            kani::assume(i < $w);
            let b: bool = kani::any();
            kani::cover!(true, $cover);
            let mut w = v;
            w.set_bit(i, b);
            let want = if b { v | ((1 as $t) << i) } else { v & !((1 as $t) << i) };
            let ok = v.get_bit(i) == ((v >> i) & 1 == 1) && w == want;
            assert!(ok, $msg);
        }};
    }

    // u64: what the Verus shim implements (C03/C05: Step on addresses; the only width it has).
    //@ obligation C05 C05.assumed.bitfield_u64_get_bits_any_range_matches_shim
    #[kani::proof]
    fn c05_assumed_u64_get_bits_any_range() {
        get_body!(
            u64, 64, get64,
            "c05_assumed_u64_get_bits_any_range: reachable",
            "C05.assumed.bitfield_u64_get_bits_any_range_matches_shim: get_bits(lo..hi) == (v & mask) >> lo, same for lo..=hi-1, lo.. and ..hi"
        )
    }

    //@ obligation C05 C05.assumed.bitfield_u64_set_bits_any_range_matches_shim
    #[kani::proof]
    fn c05_assumed_u64_set_bits_any_range() {
        set_body!(
            u64, 64, set64, fits64, mask64,
            "c05_assumed_u64_set_bits_any_range: reachable",
            "C05.assumed.bitfield_u64_set_bits_any_range_matches_shim: set_bits(range, x) == (v & !mask) | x << lo for every range form; field reads back, no other bit changes"
        )
    }

    //@ obligation C05 C05.assumed.bitfield_u64_set_bits_panics_if_value_too_wide
    #[kani::proof]
    #[kani::should_panic]
    fn c05_assumed_u64_set_bits_rejects() {
        rej_body!(u64, 64, fits64, "c05_assumed_u64_set_bits_rejects: reachable")
    }

    //@ obligation C05 C05.assumed.bitfield_u64_get_bit_set_bit_matches_shim
    #[kani::proof]
    fn c05_assumed_u64_bit() {
        bit_body!(
            u64, 64,
            "c05_assumed_u64_bit: reachable",
            "C05.assumed.bitfield_u64_get_bit_set_bit_matches_shim: get_bit(i) is bit i; set_bit(i, b) sets or clears exactly bit i"
        )
    }

    // u32: ecx / edx of invlpgb, cpuid words (tlb.rs) -> C11. Not assumed by Verus (the shim has no
    // u32 impl); kept so that the same reading of the dependency is on record for every width.
    //@ obligation C11 C11.assumed.bitfield_u32_get_bits_any_range
    #[kani::proof]
    fn c11_assumed_u32_get_bits_any_range() {
        get_body!(
            u32, 32, get32,
            "c11_assumed_u32_get_bits_any_range: reachable",
            "C11.assumed.bitfield_u32_get_bits_any_range: get_bits(lo..hi) == (v & mask) >> lo, same for lo..=hi-1, lo.. and ..hi"
        )
    }

    //@ obligation C11 C11.assumed.bitfield_u32_set_bits_any_range
    #[kani::proof]
    fn c11_assumed_u32_set_bits_any_range() {
        set_body!(
            u32, 32, set32, fits32, mask32,
            "c11_assumed_u32_set_bits_any_range: reachable",
            "C11.assumed.bitfield_u32_set_bits_any_range: set_bits(range, x) == (v & !mask) | x << lo for every range form; field reads back, no other bit changes"
        )
    }

    //@ obligation C11 C11.assumed.bitfield_u32_set_bits_panics_if_value_too_wide
    #[kani::proof]
    #[kani::should_panic]
    fn c11_assumed_u32_set_bits_rejects() {
        rej_body!(u32, 32, fits32, "c11_assumed_u32_set_bits_rejects: reachable")
    }

    //@ obligation C11 C11.assumed.bitfield_u32_get_bit_set_bit
    #[kani::proof]
    fn c11_assumed_u32_bit() {
        bit_body!(
            u32, 32,
            "c11_assumed_u32_bit: reachable",
            "C11.assumed.bitfield_u32_get_bit_set_bit: get_bit(i) is bit i; set_bit(i, b) sets or clears exactly bit i"
        )
    }

    // u16: segment selectors, selector error codes, IDT entry options (codecs of C19).
    //@ obligation C19 C19.assumed.bitfield_u16_get_bits_any_range
    #[kani::proof]
    fn c19_assumed_u16_get_bits_any_range() {
        get_body!(
            u16, 16, get16,
            "c19_assumed_u16_get_bits_any_range: reachable",
            "C19.assumed.bitfield_u16_get_bits_any_range: get_bits(lo..hi) == (v & mask) >> lo, same for lo..=hi-1, lo.. and ..hi"
        )
    }

    //@ obligation C19 C19.assumed.bitfield_u16_set_bits_any_range
    #[kani::proof]
    fn c19_assumed_u16_set_bits_any_range() {
        set_body!(
            u16, 16, set16, fits16, mask16,
            "c19_assumed_u16_set_bits_any_range: reachable",
            "C19.assumed.bitfield_u16_set_bits_any_range: set_bits(range, x) == (v & !mask) | x << lo for every range form; field reads back, no other bit changes"
        )
    }

    //@ obligation C19 C19.assumed.bitfield_u16_set_bits_panics_if_value_too_wide
    #[kani::proof]
    #[kani::should_panic]
    fn c19_assumed_u16_set_bits_rejects() {
        rej_body!(u16, 16, fits16, "c19_assumed_u16_set_bits_rejects: reachable")
    }

    //@ obligation C19 C19.assumed.bitfield_u16_get_bit_set_bit
    #[kani::proof]
    fn c19_assumed_u16_bit() {
        bit_body!(
            u16, 16,
            "c19_assumed_u16_bit: reachable",
            "C19.assumed.bitfield_u16_get_bit_set_bit: get_bit(i) is bit i; set_bit(i, b) sets or clears exactly bit i"
        )
    }

    // ------------------------------------------------------------ is_power_of_two

    //@ obligation C06 C06.assumed.is_power_of_two_is_single_bit
    #[kani::proof]
    fn c06_assumed_is_power_of_two() {
        let x: u64 = kani::any();
        kani::cover!(true, "c06_assumed_is_power_of_two: reachable");
        let spec = x != 0 && x & x.wrapping_sub(1) == 0;
        assert!(
            x.is_power_of_two() == spec,
            "C06.assumed.is_power_of_two_is_single_bit: is_power_of_two() == (x != 0 && x & (x - 1) == 0)"
        );
        // and that is "x == 1 << k for some k < 64" (prelude lemma_pow2_is_shift)
        let k: u32 = kani::any();
        kani::assume(k < 64);
        assert!(
            (1u64 << k).is_power_of_two(),
            "C06.assumed.is_power_of_two_is_single_bit: every 1 << k is a power of two"
        );
        if spec {
            assert!(
                x == 1u64 << x.trailing_zeros(),
                "C06.assumed.is_power_of_two_is_single_bit: a power of two is 1 << k"
            );
        }
    }

    // --------------------------------------------------------- derived orderings

    /// every comparison operator, partial_cmp and cmp agree with the numeric value
    fn order_is_numeric<T: PartialOrd + Ord + Copy>(a: T, b: T, x: u64, y: u64) -> bool {
        (a < b) == (x < y)
            && (a <= b) == (x <= y)
            && (a > b) == (x > y)
            && (a >= b) == (x >= y)
            && (a == b) == (x == y)
            && (a != b) == (x != y)
            && a.partial_cmp(&b) == Some(x.cmp(&y))
            && a.cmp(&b) == x.cmp(&y)
    }

    fn any_canonical() -> u64 {
        let a: u64 = kani::any();
        kani::assume(a < 0x0000_8000_0000_0000 || a >= 0xffff_8000_0000_0000);
        a
    }

    //@ obligation C07 C07.assumed.derived_order_VirtAddr_is_numeric
    #[kani::proof]
    fn c07_assumed_order_virtaddr() {
        let (x, y) = (any_canonical(), any_canonical());
        kani::cover!(true, "c07_assumed_order_virtaddr: reachable");
        assert!(
            order_is_numeric(VirtAddr::new(x), VirtAddr::new(y), x, y),
            "C07.assumed.derived_order_VirtAddr_is_numeric: <, <=, >, >=, ==, !=, partial_cmp, cmp compare as_u64()"
        );
    }

    //@ obligation C07 C07.assumed.derived_order_PhysAddr_is_numeric
    #[kani::proof]
    fn c07_assumed_order_physaddr() {
        let (x, y): (u64, u64) = (kani::any(), kani::any());
        kani::assume(x < (1 << 52) && y < (1 << 52));
        kani::cover!(true, "c07_assumed_order_physaddr: reachable");
        assert!(
            order_is_numeric(PhysAddr::new(x), PhysAddr::new(y), x, y),
            "C07.assumed.derived_order_PhysAddr_is_numeric: <, <=, >, >=, ==, !=, partial_cmp, cmp compare as_u64()"
        );
    }

    fn check_page_order<S: PageSize>() -> bool {
        let (x, y) = (any_canonical(), any_canonical());
        kani::assume(x % S::SIZE == 0 && y % S::SIZE == 0);
        let a: Page<S> = Page::from_start_address(VirtAddr::new(x)).unwrap();
        let b: Page<S> = Page::from_start_address(VirtAddr::new(y)).unwrap();
        order_is_numeric(a, b, x, y)
    }

    //@ obligation C07 C07.assumed.derived_order_Page_is_numeric
    #[kani::proof]
    fn c07_assumed_order_page() {
        kani::cover!(true, "c07_assumed_order_page: reachable");
        assert!(
            check_page_order::<Size4KiB>(),
            "C07.assumed.derived_order_Page_is_numeric: Page<Size4KiB> compares start_address().as_u64()"
        );
        assert!(
            check_page_order::<Size2MiB>(),
            "C07.assumed.derived_order_Page_is_numeric: Page<Size2MiB> compares start_address().as_u64()"
        );
        assert!(
            check_page_order::<Size1GiB>(),
            "C07.assumed.derived_order_Page_is_numeric: Page<Size1GiB> compares start_address().as_u64()"
        );
    }

    fn check_frame_order<S: PageSize>() -> bool {
        let (x, y): (u64, u64) = (kani::any(), kani::any());
        kani::assume(x < (1 << 52) && y < (1 << 52));
        kani::assume(x % S::SIZE == 0 && y % S::SIZE == 0);
        let a: PhysFrame<S> = PhysFrame::from_start_address(PhysAddr::new(x)).unwrap();
        let b: PhysFrame<S> = PhysFrame::from_start_address(PhysAddr::new(y)).unwrap();
        order_is_numeric(a, b, x, y)
    }

    //@ obligation C07 C07.assumed.derived_order_PhysFrame_is_numeric
    #[kani::proof]
    fn c07_assumed_order_frame() {
        kani::cover!(true, "c07_assumed_order_frame: reachable");
        assert!(
            check_frame_order::<Size4KiB>(),
            "C07.assumed.derived_order_PhysFrame_is_numeric: PhysFrame<Size4KiB> compares start_address().as_u64()"
        );
        assert!(
            check_frame_order::<Size2MiB>(),
            "C07.assumed.derived_order_PhysFrame_is_numeric: PhysFrame<Size2MiB> compares start_address().as_u64()"
        );
        assert!(
            check_frame_order::<Size1GiB>(),
            "C07.assumed.derived_order_PhysFrame_is_numeric: PhysFrame<Size1GiB> compares start_address().as_u64()"
        );
    }

    //@ obligation C07 C07.assumed.derived_order_PageTableIndex_is_numeric
    //@ obligation C05 C05.assumed.derived_order_PageTableIndex_is_numeric
    #[kani::proof]
    fn c07_assumed_order_page_table_index() {
        let (x, y): (u16, u16) = (kani::any(), kani::any());
        kani::assume(x < 512 && y < 512);
        kani::cover!(true, "c07_assumed_order_page_table_index: reachable");
        assert!(
            order_is_numeric(PageTableIndex::new(x), PageTableIndex::new(y), x as u64, y as u64),
            "C07.assumed.derived_order_PageTableIndex_is_numeric: C05.assumed.derived_order_PageTableIndex_is_numeric: compares the index value"
        );
    }

    // ------------------------------------------------------------- usize is 64 bit

    //@ obligation C05 C05.assumed.usize_u64_conversions_exact
    //@ obligation C07 C07.assumed.usize_u64_conversions_exact
    #[kani::proof]
    fn c05_assumed_usize_u64_conversions() {
        let v: u64 = kani::any();
        let u: usize = kani::any();
        kani::cover!(true, "c05_assumed_usize_u64_conversions: reachable");
        assert!(
            core::mem::size_of::<usize>() == 8,
            "C05.assumed.usize_u64_conversions_exact: C07.assumed.usize_u64_conversions_exact: size_of::<usize>() == 8"
        );
        assert!(
            usize::try_from(v) == Ok(v as usize) && (v as usize) as u64 == v,
            "C05.assumed.usize_u64_conversions_exact: C07.assumed.usize_u64_conversions_exact: usize::try_from(u64) never fails and keeps the value"
        );
        assert!(
            u64::try_from(u) == Ok(u as u64) && (u as u64) as usize == u,
            "C05.assumed.usize_u64_conversions_exact: C07.assumed.usize_u64_conversions_exact: u64::try_from(usize) never fails and keeps the value"
        );
    }
}
