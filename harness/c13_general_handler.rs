//@ include-into src/structures/idt.rs
// C13: `set_general_handler!` installs, per vector, a stub that reports that vector.
//
// Clause 1 (install): for symbolic ranges the expanded macro makes present
//   exactly the non-reserved vectors in the range and leaves every other
//   descriptor identical, starting from an ARBITRARY prior table (every field
//   of all 256 entries symbolic; thorough tier) or from `new()` (quick tier,
//   bounded stand-in); checked entry-wise through ONE symbolic vector number,
//   no loop over vectors.
// Clause 2 (what the stub does when entered): the installed stub is called
//   THROUGH THE ADDRESS STORED IN THE GATE (offset field decoded from the raw
//   bytes, cast to a function pointer) with a symbolic frame (and error code);
//   the general handler must have been called exactly once with the vector's
//   own number, the frame's five values, and `Some(code)` exactly on the
//   error-code vectors 8, 10-14, 17, 21, 29, 30 (SDM 3A table 6-1, APM 2 8.2).
// Clause 3 (iretq): `InterruptStackFrameValue::iretq` hands the `iretq`
//   instruction exactly the frame's rip, cs, rflags, rsp, ss.
//
// NOT covered (outside the reach of contracts, DESIGN "C13"): that the CPU
// delivers vector v to descriptor v with a hardware-format frame, how the
// `x86-interrupt` ABI maps that frame to the stub's parameters, and that
// execution resumes at the interrupted instruction after the stub returns.
// Here the stub is entered by an ordinary call with the frame passed by value.
//
// ASSUMPTIONS
//  * stub `VirtAddr::new` -> unchecked constructor: `to_virt_addr` runs
//    `VirtAddr::new(f as u64)` and CBMC's encoding of a function address
//    (object number << 48) is not canonical; real code addresses are.
//  * the call through the stored address uses the pointer type
//    `fn(InterruptStackFrame[, code])` (Rust ABI) because rustc rejects calls
//    of `extern "x86-interrupt"` functions; Kani/CBMC resolves the call by
//    comparing the pointer value with the address of every function of that
//    parameter list, so a gate holding the address of ANOTHER vector's stub
//    calls that other stub (measured: asserting the wrong index FAILS).
#[cfg(kani)]
#[allow(unused_imports, clippy::all)]
mod verif_c13_general_handler {
    use super::*;
    use crate::verif_hw::{self, Kind};

    fn virt_addr_new_unchecked(addr: u64) -> VirtAddr {
        // SAFETY (harness): models "the address of a function is canonical".
        unsafe { VirtAddr::new_unsafe(addr) }
    }

    // ---------------------------------------------- architectural vector sets

    /// Vectors the architecture reserves (SDM 3A table 6-1 / APM 2 table 8-1).
    fn is_reserved(v: u8) -> bool {
        v == 15 || (v >= 22 && v <= 27) || v == 31
    }

    /// Vectors on which the CPU pushes an error code.
    fn pushes_error_code(v: u8) -> bool {
        v == 8 || v == 10 || v == 11 || v == 12 || v == 13 || v == 14 || v == 17 || v == 21 || v == 29
            || v == 30
    }

    /// Abort-class vectors (#DF, #MC): the handler must not return.
    fn is_abort(v: u8) -> bool {
        v == 8 || v == 18
    }

    // ------------------------------------------------------ gate decoding
    // (same independent decoder as c12_entry.rs; SDM 3A figure 6-8; `x` = the 16
    // descriptor bytes as a little-endian u128)

    fn g_offset(x: u128) -> u64 {
        ((x & 0xFFFF) as u64) | ((((x >> 48) & 0xFFFF) as u64) << 16) | ((((x >> 64) & 0xFFFF_FFFF) as u64) << 32)
    }
    fn g_selector(x: u128) -> u16 {
        (x >> 16) as u16
    }
    fn g_p(x: u128) -> bool {
        (x >> 47) & 1 == 1
    }
    /// IST == 0, bits 35-39 == 0, type == 0xE, bit 44 == 0, DPL == 0 (x[46:32] == 0x0E00).
    fn g_default_interrupt_gate(x: u128) -> bool {
        (x >> 32) & 0x7FFF == 0x0E00
    }
    /// Non-present interrupt gate with the must-be-one bits (C12.Entry_missing).
    const MISSING: u128 = 0x0E << 40;

    // ------------------------------------------------ typed view of the table
    // The descriptor of vector v is read/written through the NAMED FIELD of that
    // vector (or `interrupts[v - 32]`) and assembled from the entry's fields,
    // instead of through a byte pointer at 16 * v. Reason (measured): a
    // byte-level read at a symbolic offset of the 4096-byte table, and a prior
    // table made from 4096 symbolic bytes, cost 700-1300 s and ~10 GB per
    // harness; the typed form costs 100-300 s and < 4 GB. That the named field of
    // vector v IS bytes 16v..16v+16 is C12 (`C12.Idt_field.*`), that the entry's
    // fields lie at bytes 0/2/4/6/8/12 is what the C12 entry harnesses pin down
    // through raw bytes; `c13_typed_view_is_raw_bytes` re-checks both here for a
    // symbolic vector.

    fn bits<F>(e: &Entry<F>) -> u128 {
        (e.pointer_low as u128)
            | ((e.options.cs.0 as u128) << 16)
            | ((e.options.bits as u128) << 32)
            | ((e.pointer_middle as u128) << 48)
            | ((e.pointer_high as u128) << 64)
            | ((e.reserved as u128) << 96)
    }

    fn mk<F>(x: u128) -> Entry<F> {
        Entry {
            pointer_low: x as u16,
            options: EntryOptions { cs: SegmentSelector((x >> 16) as u16), bits: (x >> 32) as u16 },
            pointer_middle: (x >> 48) as u16,
            pointer_high: (x >> 64) as u32,
            reserved: (x >> 96) as u32,
            phantom: PhantomData,
        }
    }

    /// The descriptor of vector `v` (independent vector -> field table, as in
    /// c12_layout.rs).
    fn field_bits(t: &InterruptDescriptorTable, v: u8) -> u128 {
        match v {
            0 => bits(&t.divide_error),
            1 => bits(&t.debug),
            2 => bits(&t.non_maskable_interrupt),
            3 => bits(&t.breakpoint),
            4 => bits(&t.overflow),
            5 => bits(&t.bound_range_exceeded),
            6 => bits(&t.invalid_opcode),
            7 => bits(&t.device_not_available),
            8 => bits(&t.double_fault),
            9 => bits(&t.coprocessor_segment_overrun),
            10 => bits(&t.invalid_tss),
            11 => bits(&t.segment_not_present),
            12 => bits(&t.stack_segment_fault),
            13 => bits(&t.general_protection_fault),
            14 => bits(&t.page_fault),
            15 => bits(&t.reserved_1),
            16 => bits(&t.x87_floating_point),
            17 => bits(&t.alignment_check),
            18 => bits(&t.machine_check),
            19 => bits(&t.simd_floating_point),
            20 => bits(&t.virtualization),
            21 => bits(&t.cp_protection_exception),
            22..=27 => bits(&t.reserved_2[v as usize - 22]),
            28 => bits(&t.hv_injection_exception),
            29 => bits(&t.vmm_communication_exception),
            30 => bits(&t.security_exception),
            31 => bits(&t.reserved_3),
            _ => bits(&t.interrupts[v as usize - 32]),
        }
    }

    /// A table whose 256 descriptors are all arbitrary (every field of every
    /// entry an independent symbolic value = all 2^(128*256) byte contents).
    fn any_table() -> InterruptDescriptorTable {
        let mut t = InterruptDescriptorTable::new();
        t.divide_error = mk(kani::any());
        t.debug = mk(kani::any());
        t.non_maskable_interrupt = mk(kani::any());
        t.breakpoint = mk(kani::any());
        t.overflow = mk(kani::any());
        t.bound_range_exceeded = mk(kani::any());
        t.invalid_opcode = mk(kani::any());
        t.device_not_available = mk(kani::any());
        t.double_fault = mk(kani::any());
        t.coprocessor_segment_overrun = mk(kani::any());
        t.invalid_tss = mk(kani::any());
        t.segment_not_present = mk(kani::any());
        t.stack_segment_fault = mk(kani::any());
        t.general_protection_fault = mk(kani::any());
        t.page_fault = mk(kani::any());
        t.reserved_1 = mk(kani::any());
        t.x87_floating_point = mk(kani::any());
        t.alignment_check = mk(kani::any());
        t.machine_check = mk(kani::any());
        t.simd_floating_point = mk(kani::any());
        t.virtualization = mk(kani::any());
        t.cp_protection_exception = mk(kani::any());
        let mut i = 0;
        while i < 6 {
            t.reserved_2[i] = mk(kani::any());
            i += 1;
        }
        t.hv_injection_exception = mk(kani::any());
        t.vmm_communication_exception = mk(kani::any());
        t.security_exception = mk(kani::any());
        t.reserved_3 = mk(kani::any());
        let mut i = 0;
        while i < 224 {
            t.interrupts[i] = mk(kani::any());
            i += 1;
        }
        t
    }

    /// A general handler that does nothing (install harnesses).
    fn gh_nop(_f: InterruptStackFrame, _index: u8, _ec: Option<u64>) {}

    /// Postcondition of an install, at vector `v`: `x0` / `x` = descriptor before
    /// / after, `in_range` = v is in the installed range. `$ob` = obligation prefix
    /// (the three messages are spelled out per prefix so that Kani prints the full
    /// obligation name; it shows `concat!` arguments unexpanded).
    macro_rules! check_installed_at {
        ($present:literal, $gate:literal, $untouched:literal, $x:expr, $x0:expr, $v:expr, $in_range:expr, $cs:expr) => {{
            if $in_range && !is_reserved($v) {
                assert!(g_p($x), $present);
                assert!(g_selector($x) == $cs && g_default_interrupt_gate($x), $gate);
            } else {
                assert!($x == $x0, $untouched);
            }
        }};
    }

    // ================================================================ install
    // Quick tier: prior table = `new()` (bounded stand-ins).
    // Thorough tier: ARBITRARY prior table (250-300 s each).

    /// Quick-tier replacement for the machine MODEL's `mov r, cs` (not for crate
    /// code): same value, no event logging. Measured on the symbolic-range install:
    /// 309,690 -> 190,407 symex steps (76 s -> 51 s); the 256 logged `mov r, cs`
    /// events are irrelevant to the table contents. The thorough-tier harnesses
    /// keep the unmodified model.
    fn mov_from_seg_quiet(seg: u8) -> u16 {
        if seg != verif_hw::SEG_CS {
            verif_hw::unknown_asm();
        }
        verif_hw::m().cs
    }

    /// `lo..=hi`, every (lo, hi) pair, into a `new()` table.
    //@ obligation C13 C13.install_new_table.present_exactly_non_reserved_in_range bounded="prior table = InterruptDescriptorTable::new(), machine model's CS read without event log; arbitrary prior table and full model: C13.install.* (thorough tier)"
    //@ obligation C13 C13.install_new_table.installed_entry_is_default_interrupt_gate bounded="prior table = InterruptDescriptorTable::new(), machine model's CS read without event log"
    //@ obligation C13 C13.install_new_table.all_other_entries_untouched bounded="prior table = InterruptDescriptorTable::new(), machine model's CS read without event log"
    #[kani::proof]
    #[kani::stub(crate::addr::VirtAddr::new, virt_addr_new_unchecked)]
    #[kani::stub(crate::verif_hw::mov_from_seg, mov_from_seg_quiet)]
    fn c13_install_range_inclusive_new_table() {
        verif_hw::reset_symbolic();
        let cs = verif_hw::m().cs;
        let lo: u8 = kani::any();
        let hi: u8 = kani::any();
        let v: u8 = kani::any();
        kani::cover!(true, "c13_install_range_inclusive_new_table: reachable");
        let mut idt = InterruptDescriptorTable::new();
        crate::set_general_handler!(&mut idt, gh_nop, lo..=hi);
        let x = field_bits(&idt, v);
        check_installed_at!(
            "C13.install_new_table.present_exactly_non_reserved_in_range: a non-reserved vector in the range is present",
            "C13.install_new_table.installed_entry_is_default_interrupt_gate: selector == CS, type 0xE, DPL 0, IST 0",
            "C13.install_new_table.all_other_entries_untouched: descriptor identical to the prior table (reserved or out of range)",
            x, MISSING, v, lo <= v && v <= hi, cs
        );
    }

    /// Single-index form `set_general_handler!(idt, h, 14)` (a special-cased vector: #PF) into a `new()` table.
    //@ obligation C13 C13.install_single_index_new_table.literal_14 bounded="one literal (the index must be a literal token); prior table = new()"
    #[kani::proof]
    #[kani::stub(crate::addr::VirtAddr::new, virt_addr_new_unchecked)]
    #[allow(arithmetic_overflow)] // an overflowing literal range in the macro arm must FAIL here, not break the build
    fn c13_install_single_index_14_new_table() {
        verif_hw::reset_symbolic();
        let cs = verif_hw::m().cs;
        let v: u8 = kani::any();
        kani::cover!(true, "c13_install_single_index_14_new_table: reachable");
        let mut idt = InterruptDescriptorTable::new();
        crate::set_general_handler!(&mut idt, gh_nop, 14);
        let x = field_bits(&idt, v);
        if v == 14 {
            assert!(
                g_p(x) && g_selector(x) == cs && g_default_interrupt_gate(x),
                "C13.install_single_index_new_table.literal_14: vector 14 present, default interrupt gate"
            );
        } else {
            assert!(x == MISSING, "C13.install_single_index_new_table.literal_14: every other entry still missing");
        }
    }

    /// Single-index form `set_general_handler!(idt, h, 15)` (a reserved vector) into a `new()` table.
    //@ obligation C13 C13.install_single_index_new_table.literal_15 bounded="one literal (the index must be a literal token); prior table = new()"
    #[kani::proof]
    #[kani::stub(crate::addr::VirtAddr::new, virt_addr_new_unchecked)]
    #[allow(arithmetic_overflow)] // an overflowing literal range in the macro arm must FAIL here, not break the build
    fn c13_install_single_index_15_new_table() {
        verif_hw::reset_symbolic();
        let cs = verif_hw::m().cs;
        let v: u8 = kani::any();
        kani::cover!(true, "c13_install_single_index_15_new_table: reachable");
        let mut idt = InterruptDescriptorTable::new();
        crate::set_general_handler!(&mut idt, gh_nop, 15);
        let x = field_bits(&idt, v);
        assert!(x == MISSING, "C13.install_single_index_new_table.literal_15: reserved vector: every entry (incl. 15) still missing");
    }

    /// Single-index form `set_general_handler!(idt, h, 255)` (the last vector) into a `new()` table.
    //@ obligation C13 C13.install_single_index_new_table.literal_255 bounded="one literal (the index must be a literal token); prior table = new()"
    #[kani::proof]
    #[kani::stub(crate::addr::VirtAddr::new, virt_addr_new_unchecked)]
    #[allow(arithmetic_overflow)] // an overflowing literal range in the macro arm must FAIL here, not break the build
    fn c13_install_single_index_255_new_table() {
        verif_hw::reset_symbolic();
        let cs = verif_hw::m().cs;
        let v: u8 = kani::any();
        kani::cover!(true, "c13_install_single_index_255_new_table: reachable");
        let mut idt = InterruptDescriptorTable::new();
        crate::set_general_handler!(&mut idt, gh_nop, 255);
        let x = field_bits(&idt, v);
        if v == 255 {
            assert!(
                g_p(x) && g_selector(x) == cs && g_default_interrupt_gate(x),
                "C13.install_single_index_new_table.literal_255: vector 255 present, default interrupt gate"
            );
        } else {
            assert!(x == MISSING, "C13.install_single_index_new_table.literal_255: every other entry still missing");
        }
    }

    /// `lo..=hi`, every (lo, hi) pair, arbitrary prior table.
    //@ obligation C13 C13.install.present_exactly_non_reserved_in_range tier=thorough
    //@ obligation C13 C13.install.installed_entry_is_default_interrupt_gate tier=thorough
    //@ obligation C13 C13.install.all_other_entries_untouched tier=thorough
    #[kani::proof]
    #[kani::unwind(226)]
    #[kani::stub(crate::addr::VirtAddr::new, virt_addr_new_unchecked)]
    fn c13_install_range_inclusive() {
        verif_hw::reset_symbolic();
        let cs = verif_hw::m().cs;
        let lo: u8 = kani::any();
        let hi: u8 = kani::any();
        let v: u8 = kani::any();
        kani::cover!(true, "c13_install_range_inclusive: reachable");
        let mut idt = any_table();
        let x0 = field_bits(&idt, v);
        crate::set_general_handler!(&mut idt, gh_nop, lo..=hi);
        let x = field_bits(&idt, v);
        check_installed_at!(
            "C13.install.present_exactly_non_reserved_in_range: a non-reserved vector in the range is present",
            "C13.install.installed_entry_is_default_interrupt_gate: selector == CS, type 0xE, DPL 0, IST 0",
            "C13.install.all_other_entries_untouched: descriptor identical to the prior table (reserved or out of range)",
            x, x0, v, lo <= v && v <= hi, cs
        );
    }

    /// `lo..hi` (end excluded), arbitrary prior table.
    //@ obligation C13 C13.install_range_exclusive.present_exactly_non_reserved_in_range tier=thorough
    //@ obligation C13 C13.install_range_exclusive.installed_entry_is_default_interrupt_gate tier=thorough
    //@ obligation C13 C13.install_range_exclusive.all_other_entries_untouched tier=thorough
    #[kani::proof]
    #[kani::unwind(226)]
    #[kani::stub(crate::addr::VirtAddr::new, virt_addr_new_unchecked)]
    fn c13_install_range_exclusive() {
        verif_hw::reset_symbolic();
        let cs = verif_hw::m().cs;
        let lo: u8 = kani::any();
        let hi: u8 = kani::any();
        let v: u8 = kani::any();
        kani::cover!(true, "c13_install_range_exclusive: reachable");
        let mut idt = any_table();
        let x0 = field_bits(&idt, v);
        crate::set_general_handler!(&mut idt, gh_nop, lo..hi);
        let x = field_bits(&idt, v);
        check_installed_at!(
            "C13.install_range_exclusive.present_exactly_non_reserved_in_range: a non-reserved vector in the range is present",
            "C13.install_range_exclusive.installed_entry_is_default_interrupt_gate: selector == CS, type 0xE, DPL 0, IST 0",
            "C13.install_range_exclusive.all_other_entries_untouched: descriptor identical to the prior table (reserved or out of range)",
            x, x0, v, lo <= v && v < hi, cs
        );
    }

    /// `lo..` (up to vector 255), arbitrary prior table.
    //@ obligation C13 C13.install_range_from.present_exactly_non_reserved_in_range tier=thorough
    //@ obligation C13 C13.install_range_from.installed_entry_is_default_interrupt_gate tier=thorough
    //@ obligation C13 C13.install_range_from.all_other_entries_untouched tier=thorough
    #[kani::proof]
    #[kani::unwind(226)]
    #[kani::stub(crate::addr::VirtAddr::new, virt_addr_new_unchecked)]
    fn c13_install_range_from() {
        verif_hw::reset_symbolic();
        let cs = verif_hw::m().cs;
        let lo: u8 = kani::any();
        let v: u8 = kani::any();
        kani::cover!(true, "c13_install_range_from: reachable");
        let mut idt = any_table();
        let x0 = field_bits(&idt, v);
        crate::set_general_handler!(&mut idt, gh_nop, lo..);
        let x = field_bits(&idt, v);
        check_installed_at!(
            "C13.install_range_from.present_exactly_non_reserved_in_range: a non-reserved vector in the range is present",
            "C13.install_range_from.installed_entry_is_default_interrupt_gate: selector == CS, type 0xE, DPL 0, IST 0",
            "C13.install_range_from.all_other_entries_untouched: descriptor identical to the prior table (reserved or out of range)",
            x, x0, v, lo <= v, cs
        );
    }

    /// `set_general_handler!(idt, h)`: the full table, arbitrary prior table; and
    /// the stubs of two different vectors are different functions.
    //@ obligation C13 C13.install_full_table.present_exactly_non_reserved_in_range tier=thorough
    //@ obligation C13 C13.install_full_table.installed_entry_is_default_interrupt_gate tier=thorough
    //@ obligation C13 C13.install_full_table.all_other_entries_untouched tier=thorough
    //@ obligation C13 C13.install_full_table.distinct_stub_per_vector tier=thorough
    #[kani::proof]
    #[kani::unwind(226)]
    #[kani::stub(crate::addr::VirtAddr::new, virt_addr_new_unchecked)]
    fn c13_install_full_table() {
        verif_hw::reset_symbolic();
        let cs = verif_hw::m().cs;
        let v: u8 = kani::any();
        let w: u8 = kani::any();
        kani::cover!(true, "c13_install_full_table: reachable");
        let mut idt = any_table();
        let x0 = field_bits(&idt, v);
        crate::set_general_handler!(&mut idt, gh_nop);
        let x = field_bits(&idt, v);
        check_installed_at!(
            "C13.install_full_table.present_exactly_non_reserved_in_range: a non-reserved vector in the range is present",
            "C13.install_full_table.installed_entry_is_default_interrupt_gate: selector == CS, type 0xE, DPL 0, IST 0",
            "C13.install_full_table.all_other_entries_untouched: descriptor identical to the prior table (reserved or out of range)",
            x, x0, v, true, cs
        );
        assert!(
            is_reserved(v) || is_reserved(w) || v == w || g_offset(x) != g_offset(field_bits(&idt, w)),
            "C13.install_full_table.distinct_stub_per_vector: different vectors point to different stubs"
        );
    }

    /// Single-index form, arbitrary prior table.
    //@ obligation C13 C13.install_single_index.present_exactly_that_vector tier=thorough bounded="literals 14, 15 and 255 (the index must be a literal token); every lo..=hi with lo == hi is covered by c13_install_range_inclusive"
    #[kani::proof]
    #[kani::unwind(226)]
    #[kani::stub(crate::addr::VirtAddr::new, virt_addr_new_unchecked)]
    #[allow(arithmetic_overflow)] // an overflowing literal range in the macro arm must FAIL here, not break the build
    fn c13_install_single_index() {
        verif_hw::reset_symbolic();
        let cs = verif_hw::m().cs;
        let v: u8 = kani::any();
        kani::cover!(true, "c13_install_single_index: reachable");
        let mut idt = any_table();
        let x0 = field_bits(&idt, v);
        crate::set_general_handler!(&mut idt, gh_nop, 14);
        crate::set_general_handler!(&mut idt, gh_nop, 15);
        crate::set_general_handler!(&mut idt, gh_nop, 255);
        let x = field_bits(&idt, v);
        if v == 14 || v == 255 {
            assert!(
                g_p(x) && g_selector(x) == cs && g_default_interrupt_gate(x),
                "C13.install_single_index.present_exactly_that_vector: vectors 14 and 255 present"
            );
        } else {
            assert!(
                x == x0,
                "C13.install_single_index.present_exactly_that_vector: every other entry (incl. reserved 15) untouched"
            );
        }
    }

    /// The typed view used above agrees with the raw bytes: an arbitrary
    /// descriptor written through the typed view at vector v is read back by a
    /// byte pointer at 16 * v, and vice versa (table otherwise `new()`).
    //@ obligation C13 C13.typed_view.field_of_vector_v_is_bytes_16v tier=thorough
    #[kani::proof]
    fn c13_typed_view_is_raw_bytes() {
        let v: u8 = kani::any();
        let x0: u128 = kani::any();
        kani::cover!(true, "c13_typed_view_is_raw_bytes: reachable");
        let mut idt = InterruptDescriptorTable::new();
        unsafe {
            core::ptr::write_unaligned(
                (&mut idt as *mut InterruptDescriptorTable as *mut u8).add(16 * v as usize) as *mut u128,
                x0,
            )
        };
        assert!(
            field_bits(&idt, v) == x0,
            "C13.typed_view.field_of_vector_v_is_bytes_16v: bytes written at 16v are what the typed view of vector v reads"
        );
        let w: u8 = kani::any();
        assert!(
            w == v || field_bits(&idt, w) == MISSING,
            "C13.typed_view.field_of_vector_v_is_bytes_16v: and no other vector's typed view changed"
        );
    }

    // ======================================================= entering the stub

    // What the recording general handler saw.
    static mut SEEN_CALLS: u32 = 0;
    static mut SEEN_INDEX: u8 = 0;
    static mut SEEN_CODE: Option<u64> = None;
    static mut SEEN_FRAME: [u64; 5] = [0; 5];

    fn frame_values(f: &InterruptStackFrame) -> [u64; 5] {
        [
            f.instruction_pointer.as_u64(),
            f.code_segment.0 as u64,
            f.cpu_flags.bits(),
            f.stack_pointer.as_u64(),
            f.stack_segment.0 as u64,
        ]
    }

    fn gh_record(f: InterruptStackFrame, index: u8, ec: Option<u64>) {
        unsafe {
            SEEN_CALLS += 1;
            SEEN_INDEX = index;
            SEEN_CODE = ec;
            SEEN_FRAME = frame_values(&f);
        }
    }

    fn reset_seen() {
        unsafe {
            SEEN_CALLS = 0;
            SEEN_INDEX = 0;
            SEEN_CODE = None;
            SEEN_FRAME = [0; 5];
        }
    }

    /// A hardware-format frame with arbitrary contents (rip / rsp canonical, as
    /// the CPU only ever pushes canonical values; all 64 flag bits arbitrary).
    fn any_frame() -> (InterruptStackFrame, [u64; 5]) {
        let rip = VirtAddr::new_truncate(kani::any());
        let cs: u16 = kani::any();
        let fl: u64 = kani::any();
        let rsp = VirtAddr::new_truncate(kani::any());
        let ss: u16 = kani::any();
        let f = InterruptStackFrame::new(
            rip,
            SegmentSelector(cs),
            RFlags::from_bits_retain(fl),
            rsp,
            SegmentSelector(ss),
        );
        (f, [rip.as_u64(), cs as u64, fl, rsp.as_u64(), ss as u64])
    }

    /// Vectors without error code whose handler returns: 0-7, 9, 16, 19, 20, 28
    /// and 32..=255 (237 vectors, one symbolic vector number).
    //@ obligation C13 C13.stub_entered.plain_vectors.called_once_with_own_index_frame_and_no_code tier=thorough
    #[kani::proof]
    #[kani::stub(crate::addr::VirtAddr::new, virt_addr_new_unchecked)]
    fn c13_stub_plain_vectors() {
        verif_hw::reset_symbolic();
        let v: u8 = kani::any();
        kani::assume(!is_reserved(v) && !pushes_error_code(v) && !is_abort(v));
        kani::cover!(true, "c13_stub_plain_vectors: reachable");
        kani::cover!(v == 9, "c13_stub_plain_vectors: vector 9");
        kani::cover!(v == 255, "c13_stub_plain_vectors: vector 255");
        let mut idt = InterruptDescriptorTable::new();
        crate::set_general_handler!(&mut idt, gh_record);
        reset_seen();
        let (frame, want) = any_frame();
        let stub: fn(InterruptStackFrame) =
            unsafe { core::mem::transmute(g_offset(field_bits(&idt, v)) as usize) };
        stub(frame);
        assert!(
            unsafe { SEEN_CALLS } == 1,
            "C13.stub_entered.plain_vectors.called_once_with_own_index_frame_and_no_code: general handler called exactly once"
        );
        assert!(
            unsafe { SEEN_INDEX } == v,
            "C13.stub_entered.plain_vectors.called_once_with_own_index_frame_and_no_code: index == vector"
        );
        assert!(
            unsafe { SEEN_CODE }.is_none(),
            "C13.stub_entered.plain_vectors.called_once_with_own_index_frame_and_no_code: no error code"
        );
        assert!(
            unsafe { SEEN_FRAME } == want,
            "C13.stub_entered.plain_vectors.called_once_with_own_index_frame_and_no_code: rip, cs, rflags, rsp, ss as pushed"
        );
    }

    /// Error-code vectors whose handler returns and takes a plain u64:
    /// 10, 11, 12, 13, 17, 21, 29, 30.
    //@ obligation C13 C13.stub_entered.error_code_vectors.called_once_with_own_index_frame_and_code
    #[kani::proof]
    #[kani::stub(crate::addr::VirtAddr::new, virt_addr_new_unchecked)]
    fn c13_stub_error_code_vectors() {
        verif_hw::reset_symbolic();
        let v: u8 = kani::any();
        kani::assume(pushes_error_code(v) && v != 8 && v != 14);
        let code: u64 = kani::any();
        kani::cover!(true, "c13_stub_error_code_vectors: reachable");
        kani::cover!(v == 30, "c13_stub_error_code_vectors: vector 30");
        let mut idt = InterruptDescriptorTable::new();
        crate::set_general_handler!(&mut idt, gh_record, 10..=30);
        reset_seen();
        let (frame, want) = any_frame();
        let stub: fn(InterruptStackFrame, u64) =
            unsafe { core::mem::transmute(g_offset(field_bits(&idt, v)) as usize) };
        stub(frame, code);
        assert!(
            unsafe { SEEN_CALLS } == 1 && unsafe { SEEN_INDEX } == v,
            "C13.stub_entered.error_code_vectors.called_once_with_own_index_frame_and_code: called once, index == vector"
        );
        assert!(
            unsafe { SEEN_CODE } == Some(code),
            "C13.stub_entered.error_code_vectors.called_once_with_own_index_frame_and_code: Some(pushed error code)"
        );
        assert!(
            unsafe { SEEN_FRAME } == want,
            "C13.stub_entered.error_code_vectors.called_once_with_own_index_frame_and_code: rip, cs, rflags, rsp, ss as pushed"
        );
    }

    /// #PF (14): the error code arrives typed as PageFaultErrorCode; all 2^64
    /// raw values (undefined bits included) must reach the general handler.
    //@ obligation C13 C13.stub_entered.page_fault.called_once_with_14_frame_and_raw_code
    #[kani::proof]
    #[kani::stub(crate::addr::VirtAddr::new, virt_addr_new_unchecked)]
    fn c13_stub_page_fault() {
        verif_hw::reset_symbolic();
        let code: u64 = kani::any();
        kani::cover!(true, "c13_stub_page_fault: reachable");
        let mut idt = InterruptDescriptorTable::new();
        crate::set_general_handler!(&mut idt, gh_record, 14);
        reset_seen();
        let (frame, want) = any_frame();
        let stub: fn(InterruptStackFrame, PageFaultErrorCode) =
            unsafe { core::mem::transmute(g_offset(field_bits(&idt, 14)) as usize) };
        stub(frame, PageFaultErrorCode::from_bits_retain(code));
        assert!(
            unsafe { SEEN_CALLS } == 1 && unsafe { SEEN_INDEX } == 14,
            "C13.stub_entered.page_fault.called_once_with_14_frame_and_raw_code: called once, index == 14"
        );
        assert!(
            unsafe { SEEN_CODE } == Some(code),
            "C13.stub_entered.page_fault.called_once_with_14_frame_and_raw_code: Some(all 64 bits of the pushed code)"
        );
        assert!(
            unsafe { SEEN_FRAME } == want,
            "C13.stub_entered.page_fault.called_once_with_14_frame_and_raw_code: rip, cs, rflags, rsp, ss as pushed"
        );
    }

    // Abort vectors: the stub never returns (it panics after the general handler
    // returns), so nothing can be checked after the call. The general handler
    // itself checks what it is given against the expectation below, then cuts
    // the path (`assume(false)`): the harness verifies iff EVERY path reaches the
    // general handler with the expected arguments (a path that skipped it would
    // run into the stub's own `panic!` and fail; the vacuity cover sits INSIDE
    // the handler).
    static mut WANT_INDEX: u8 = 0;
    static mut WANT_CODE: Option<u64> = None;
    static mut WANT_FRAME: [u64; 5] = [0; 5];

    fn gh_check_double_fault(f: InterruptStackFrame, index: u8, ec: Option<u64>) {
        assert!(
            index == unsafe { WANT_INDEX } && ec == unsafe { WANT_CODE } && frame_values(&f) == unsafe { WANT_FRAME },
            "C13.stub_entered.double_fault.called_with_8_frame_and_code: index == 8, Some(code), frame as pushed"
        );
        kani::cover!(true, "c13_stub_double_fault: reachable");
        kani::assume(false);
    }

    //@ obligation C13 C13.stub_entered.double_fault.called_with_8_frame_and_code
    #[kani::proof]
    #[kani::stub(crate::addr::VirtAddr::new, virt_addr_new_unchecked)]
    fn c13_stub_double_fault() {
        verif_hw::reset_symbolic();
        let code: u64 = kani::any();
        let mut idt = InterruptDescriptorTable::new();
        crate::set_general_handler!(&mut idt, gh_check_double_fault, 8);
        let (frame, want) = any_frame();
        unsafe {
            WANT_INDEX = 8;
            WANT_CODE = Some(code);
            WANT_FRAME = want;
        }
        let stub: fn(InterruptStackFrame, u64) -> ! =
            unsafe { core::mem::transmute(g_offset(field_bits(&idt, 8)) as usize) };
        stub(frame, code)
    }

    fn gh_check_machine_check(f: InterruptStackFrame, index: u8, ec: Option<u64>) {
        assert!(
            index == unsafe { WANT_INDEX } && ec == unsafe { WANT_CODE } && frame_values(&f) == unsafe { WANT_FRAME },
            "C13.stub_entered.machine_check.called_with_18_frame_and_no_code: index == 18, None, frame as pushed"
        );
        kani::cover!(true, "c13_stub_machine_check: reachable");
        kani::assume(false);
    }

    //@ obligation C13 C13.stub_entered.machine_check.called_with_18_frame_and_no_code
    #[kani::proof]
    #[kani::stub(crate::addr::VirtAddr::new, virt_addr_new_unchecked)]
    fn c13_stub_machine_check() {
        verif_hw::reset_symbolic();
        let mut idt = InterruptDescriptorTable::new();
        crate::set_general_handler!(&mut idt, gh_check_machine_check, 18);
        let (frame, want) = any_frame();
        unsafe {
            WANT_INDEX = 18;
            WANT_CODE = None;
            WANT_FRAME = want;
        }
        let stub: fn(InterruptStackFrame) -> ! =
            unsafe { core::mem::transmute(g_offset(field_bits(&idt, 18)) as usize) };
        stub(frame)
    }

    /// Abort vectors, second half: when the general handler RETURNS, the stub
    /// does not return to the interrupted code (it panics).
    //@ obligation C13 C13.stub_entered.abort_vectors.never_return tier=thorough
    #[kani::proof]
    #[kani::should_panic]
    #[kani::stub(crate::addr::VirtAddr::new, virt_addr_new_unchecked)]
    fn c13_stub_abort_vectors_never_return() {
        verif_hw::reset_symbolic();
        let mut idt = InterruptDescriptorTable::new();
        crate::set_general_handler!(&mut idt, gh_nop, 8..=18);
        let (frame, _want) = any_frame();
        kani::cover!(true, "c13_stub_abort_vectors_never_return: reachable");
        if kani::any() {
            let stub: fn(InterruptStackFrame, u64) =
                unsafe { core::mem::transmute(g_offset(field_bits(&idt, 8)) as usize) };
            stub(frame, kani::any());
        } else {
            let stub: fn(InterruptStackFrame) =
                unsafe { core::mem::transmute(g_offset(field_bits(&idt, 18)) as usize) };
            stub(frame);
        }
        // reaching this point = the stub returned (check class `unreachable`,
        // which fails a should_panic harness; see lib/C19_NOTES.md)
        unsafe { core::hint::unreachable_unchecked() }
    }

    // ================================================================== iretq
    // The machine model of `iretq` loads the registers, logs and then panics
    // (control leaves the function), so the log cannot be inspected afterwards.
    // Instead the model function is replaced (kani::stub) by one that compares
    // the five operands it is handed with the expectation and then cuts the
    // path. The `hw_asm!` arm that binds the named asm operands
    // (rflags / new_instruction_pointer / new_stack_pointer / code_segment /
    // stack_segment) to these five parameters is the real one.

    static mut WANT_IRETQ: [u64; 5] = [0; 5];

    fn iretq_checked(rflags: u64, rip: u64, rsp: u64, cs: u16, ss: u16) -> ! {
        let want = unsafe { WANT_IRETQ };
        assert!(
            rip == want[0],
            "C13.iretq.transfers_exactly_the_frame: instruction pointer"
        );
        assert!(
            cs as u64 == want[1] && ss as u64 == want[4],
            "C13.iretq.transfers_exactly_the_frame: code and stack segment"
        );
        assert!(rflags == want[2], "C13.iretq.transfers_exactly_the_frame: flags");
        assert!(rsp == want[3], "C13.iretq.transfers_exactly_the_frame: stack pointer");
        kani::cover!(true, "c13_iretq_operands: reachable");
        kani::assume(false);
        // not reached
        unsafe { core::hint::unreachable_unchecked() }
    }

    //@ obligation C13 C13.iretq.transfers_exactly_the_frame
    #[kani::proof]
    #[kani::stub(crate::verif_hw::iretq, iretq_checked)]
    fn c13_iretq_operands() {
        verif_hw::reset_symbolic();
        let (frame, want) = any_frame();
        unsafe { WANT_IRETQ = want };
        unsafe { frame.iretq() }
    }

    /// The same against the unmodified machine model: control does not come back
    /// (the model panics with VERIF-IRETQ) and no other instruction is executed
    /// first (write trap on every other kind is not available; this harness only
    /// shows "never returns").
    //@ obligation C13 C13.iretq.does_not_return
    #[kani::proof]
    #[kani::should_panic]
    fn c13_iretq_does_not_return() {
        verif_hw::reset_symbolic();
        let (frame, _want) = any_frame();
        kani::cover!(true, "c13_iretq_does_not_return: reachable");
        unsafe { frame.iretq() }
    }

    /// Layout of the frame value the CPU pushes / `iretq` pops (SDM 3A figure
    /// 6-9: RIP, CS, RFLAGS, RSP, SS, 8 bytes each, ascending addresses).
    //@ obligation C13 C13.InterruptStackFrame.hardware_layout
    #[kani::proof]
    fn c13_stack_frame_layout() {
        use core::mem::{offset_of, size_of};
        kani::cover!(true, "c13_stack_frame_layout: reachable");
        assert!(
            size_of::<InterruptStackFrameValue>() == 40 && size_of::<InterruptStackFrame>() == 40,
            "C13.InterruptStackFrame.hardware_layout: 5 x 8 bytes"
        );
        assert!(
            offset_of!(InterruptStackFrameValue, instruction_pointer) == 0
                && offset_of!(InterruptStackFrameValue, code_segment) == 8
                && offset_of!(InterruptStackFrameValue, cpu_flags) == 16
                && offset_of!(InterruptStackFrameValue, stack_pointer) == 24
                && offset_of!(InterruptStackFrameValue, stack_segment) == 32,
            "C13.InterruptStackFrame.hardware_layout: RIP 0, CS 8, RFLAGS 16, RSP 24, SS 32"
        );
    }
}
