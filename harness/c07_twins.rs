//@ include-into src/lib.rs
//
// E1 TWINS of the C07 operator obligations ("exact or panic"), same obligation
// names as in /verif/spec/{addr,page,frame}.spec.rs so the driver pairs them.
// Reason for their existence: a mutant that swaps a checked std function for
// one Verus has no specification for makes the Verus side UNDECIDED; a
// full-domain Kani twin still decides it, with a counterexample.
//
// Two harnesses per operator:
//   (a) `*_exact`:  assume the exact mathematical result (computed in u128, no
//       wrap-around possible) is representable and valid  =>  the call returns
//       (Kani reports any reachable panic as a failure) and the result is exactly it;
//   (b) `*_panics`: assume it is NOT  =>  the call panics on EVERY such input
//       (`#[kani::should_panic]` + unreachable marker, lib/C19_NOTES.md).
// Together: "returns iff representable and valid, and then exact".
//
// "valid": canonical for virtual addresses / pages, < 2^52 for physical
// addresses / frames. Pages and frames: the three sizes are selected by a
// symbolic value inside ONE harness (all paths must hold / must panic).
// The `+=` / `-=` twins check the same through the assign operators.
#[cfg(kani)]
#[allow(unused_imports, clippy::all)]
mod verif_c07_twins {
    use super::*;
    use crate::structures::paging::{Page, PageSize, PhysFrame, Size1GiB, Size2MiB, Size4KiB};

    /// "the call returned although the input is invalid": see lib/C19_NOTES.md.
    #[inline(never)]
    fn returned_on_invalid_input() {
        unsafe { core::hint::unreachable_unchecked() }
    }

    const TWO52: u128 = 1 << 52;
    const TWO64: u128 = 1 << 64;

    fn canonical(a: u64) -> bool {
        a < 0x0000_8000_0000_0000 || a >= 0xffff_8000_0000_0000
    }

    /// exact value is a valid virtual address
    fn virt_ok(x: i128) -> bool {
        x >= 0 && (x as u128) < TWO64 && canonical(x as u64)
    }

    /// exact value is a valid physical address
    fn phys_ok(x: i128) -> bool {
        x >= 0 && (x as u128) < TWO52
    }

    fn any_virt() -> (u64, VirtAddr) {
        let a: u64 = kani::any();
        kani::assume(canonical(a));
        (a, VirtAddr::new(a))
    }

    fn any_phys() -> (u64, PhysAddr) {
        let a: u64 = kani::any();
        kani::assume((a as u128) < TWO52);
        (a, PhysAddr::new(a))
    }

    fn any_page<S: PageSize>() -> (u64, Page<S>) {
        let (a, v) = any_virt();
        kani::assume(a % S::SIZE == 0);
        (a, Page::from_start_address(v).unwrap())
    }

    fn any_frame<S: PageSize>() -> (u64, PhysFrame<S>) {
        let (a, p) = any_phys();
        kani::assume(a % S::SIZE == 0);
        (a, PhysFrame::from_start_address(p).unwrap())
    }

    /// the three page sizes, written out (not read from the crate)
    fn size_of_sel(sel: u8) -> u64 {
        match sel {
            0 => 4096,
            1 => 0x20_0000,
            _ => 0x4000_0000,
        }
    }

    // ================================================================ VirtAddr

    //@ obligation C07 C07.VirtAddr_add_u64.exact_or_panic
    //@ obligation C03 C03.VirtAddr_add_u64.valid
    #[kani::proof]
    fn c07_twin_virtaddr_add_u64_exact() {
        let (a, v) = any_virt();
        let rhs: u64 = kani::any();
        let exact = a as i128 + rhs as i128;
        kani::assume(virt_ok(exact));
        kani::cover!(true, "c07_twin_virtaddr_add_u64_exact: reachable");
        let r = v + rhs;
        assert!(
            r.as_u64() as i128 == exact,
            "C07.VirtAddr_add_u64.exact_or_panic: returns the exact result when it is representable and valid"
        );
        assert!(canonical(r.as_u64()), "C03.VirtAddr_add_u64.valid: the result is a valid address");
    }

    //@ obligation C07 C07.VirtAddr_add_u64.exact_or_panic
    //@ obligation C03 C03.VirtAddr_add_u64.valid
    #[kani::proof]
    #[kani::should_panic]
    fn c07_twin_virtaddr_add_u64_panics() {
        let (a, v) = any_virt();
        let rhs: u64 = kani::any();
        let exact = a as i128 + rhs as i128;
        kani::assume(!virt_ok(exact));
        kani::cover!(true, "c07_twin_virtaddr_add_u64_panics: reachable");
        let _r = v + rhs;
        returned_on_invalid_input();
    }

    //@ obligation C07 C07.VirtAddr_add_assign_u64.exact_or_panic
    //@ obligation C03 C03.VirtAddr_add_assign_u64.valid
    #[kani::proof]
    fn c07_twin_virtaddr_add_assign_u64_exact() {
        let (a, mut v) = any_virt();
        let rhs: u64 = kani::any();
        let exact = a as i128 + rhs as i128;
        kani::assume(virt_ok(exact));
        kani::cover!(true, "c07_twin_virtaddr_add_assign_u64_exact: reachable");
        v += rhs;
        assert!(
            v.as_u64() as i128 == exact,
            "C07.VirtAddr_add_assign_u64.exact_or_panic: stores the exact result when it is representable and valid"
        );
    }

    //@ obligation C07 C07.VirtAddr_add_assign_u64.exact_or_panic
    //@ obligation C03 C03.VirtAddr_add_assign_u64.valid
    #[kani::proof]
    #[kani::should_panic]
    fn c07_twin_virtaddr_add_assign_u64_panics() {
        let (a, mut v) = any_virt();
        let rhs: u64 = kani::any();
        let exact = a as i128 + rhs as i128;
        kani::assume(!virt_ok(exact));
        kani::cover!(true, "c07_twin_virtaddr_add_assign_u64_panics: reachable");
        v += rhs;
        returned_on_invalid_input();
    }

    //@ obligation C07 C07.VirtAddr_sub_u64.exact_or_panic
    //@ obligation C03 C03.VirtAddr_sub_u64.valid
    #[kani::proof]
    fn c07_twin_virtaddr_sub_u64_exact() {
        let (a, v) = any_virt();
        let rhs: u64 = kani::any();
        let exact = a as i128 - rhs as i128;
        kani::assume(virt_ok(exact));
        kani::cover!(true, "c07_twin_virtaddr_sub_u64_exact: reachable");
        let r = v - rhs;
        assert!(
            r.as_u64() as i128 == exact,
            "C07.VirtAddr_sub_u64.exact_or_panic: returns the exact result when it is representable and valid"
        );
        assert!(canonical(r.as_u64()), "C03.VirtAddr_sub_u64.valid: the result is a valid address");
    }

    //@ obligation C07 C07.VirtAddr_sub_u64.exact_or_panic
    //@ obligation C03 C03.VirtAddr_sub_u64.valid
    #[kani::proof]
    #[kani::should_panic]
    fn c07_twin_virtaddr_sub_u64_panics() {
        let (a, v) = any_virt();
        let rhs: u64 = kani::any();
        let exact = a as i128 - rhs as i128;
        kani::assume(!virt_ok(exact));
        kani::cover!(true, "c07_twin_virtaddr_sub_u64_panics: reachable");
        let _r = v - rhs;
        returned_on_invalid_input();
    }

    //@ obligation C07 C07.VirtAddr_sub_assign_u64.exact_or_panic
    //@ obligation C03 C03.VirtAddr_sub_assign_u64.valid
    #[kani::proof]
    fn c07_twin_virtaddr_sub_assign_u64_exact() {
        let (a, mut v) = any_virt();
        let rhs: u64 = kani::any();
        let exact = a as i128 - rhs as i128;
        kani::assume(virt_ok(exact));
        kani::cover!(true, "c07_twin_virtaddr_sub_assign_u64_exact: reachable");
        v -= rhs;
        assert!(
            v.as_u64() as i128 == exact,
            "C07.VirtAddr_sub_assign_u64.exact_or_panic: stores the exact result when it is representable and valid"
        );
    }

    //@ obligation C07 C07.VirtAddr_sub_assign_u64.exact_or_panic
    //@ obligation C03 C03.VirtAddr_sub_assign_u64.valid
    #[kani::proof]
    #[kani::should_panic]
    fn c07_twin_virtaddr_sub_assign_u64_panics() {
        let (a, mut v) = any_virt();
        let rhs: u64 = kani::any();
        let exact = a as i128 - rhs as i128;
        kani::assume(!virt_ok(exact));
        kani::cover!(true, "c07_twin_virtaddr_sub_assign_u64_panics: reachable");
        v -= rhs;
        returned_on_invalid_input();
    }

    //@ obligation C07 C07.VirtAddr_sub_VirtAddr.exact_or_panic
    #[kani::proof]
    fn c07_twin_virtaddr_sub_virtaddr_exact() {
        let (a, v) = any_virt();
        let (b, w) = any_virt();
        kani::assume(a >= b);
        kani::cover!(true, "c07_twin_virtaddr_sub_virtaddr_exact: reachable");
        let r: u64 = v - w;
        assert!(
            r as i128 == a as i128 - b as i128,
            "C07.VirtAddr_sub_VirtAddr.exact_or_panic: the difference is exact when it is not negative"
        );
    }

    //@ obligation C07 C07.VirtAddr_sub_VirtAddr.exact_or_panic
    #[kani::proof]
    #[kani::should_panic]
    fn c07_twin_virtaddr_sub_virtaddr_panics() {
        let (a, v) = any_virt();
        let (b, w) = any_virt();
        kani::assume(a < b);
        kani::cover!(true, "c07_twin_virtaddr_sub_virtaddr_panics: reachable");
        let _r: u64 = v - w;
        returned_on_invalid_input();
    }

    // ================================================================ PhysAddr

    //@ obligation C07 C07.PhysAddr_add_u64.exact_or_panic
    //@ obligation C03 C03.PhysAddr_add_u64.valid
    #[kani::proof]
    fn c07_twin_physaddr_add_u64_exact() {
        let (a, v) = any_phys();
        let rhs: u64 = kani::any();
        let exact = a as i128 + rhs as i128;
        kani::assume(phys_ok(exact));
        kani::cover!(true, "c07_twin_physaddr_add_u64_exact: reachable");
        let r = v + rhs;
        assert!(
            r.as_u64() as i128 == exact,
            "C07.PhysAddr_add_u64.exact_or_panic: returns the exact result when it is representable and valid"
        );
        assert!((r.as_u64() as u128) < TWO52, "C03.PhysAddr_add_u64.valid: the result is a valid address");
    }

    //@ obligation C07 C07.PhysAddr_add_u64.exact_or_panic
    //@ obligation C03 C03.PhysAddr_add_u64.valid
    #[kani::proof]
    #[kani::should_panic]
    fn c07_twin_physaddr_add_u64_panics() {
        let (a, v) = any_phys();
        let rhs: u64 = kani::any();
        let exact = a as i128 + rhs as i128;
        kani::assume(!phys_ok(exact));
        kani::cover!(true, "c07_twin_physaddr_add_u64_panics: reachable");
        let _r = v + rhs;
        returned_on_invalid_input();
    }

    //@ obligation C07 C07.PhysAddr_add_assign_u64.exact_or_panic
    //@ obligation C03 C03.PhysAddr_add_assign_u64.valid
    #[kani::proof]
    fn c07_twin_physaddr_add_assign_u64_exact() {
        let (a, mut v) = any_phys();
        let rhs: u64 = kani::any();
        let exact = a as i128 + rhs as i128;
        kani::assume(phys_ok(exact));
        kani::cover!(true, "c07_twin_physaddr_add_assign_u64_exact: reachable");
        v += rhs;
        assert!(
            v.as_u64() as i128 == exact,
            "C07.PhysAddr_add_assign_u64.exact_or_panic: stores the exact result when it is representable and valid"
        );
    }

    //@ obligation C07 C07.PhysAddr_add_assign_u64.exact_or_panic
    //@ obligation C03 C03.PhysAddr_add_assign_u64.valid
    #[kani::proof]
    #[kani::should_panic]
    fn c07_twin_physaddr_add_assign_u64_panics() {
        let (a, mut v) = any_phys();
        let rhs: u64 = kani::any();
        let exact = a as i128 + rhs as i128;
        kani::assume(!phys_ok(exact));
        kani::cover!(true, "c07_twin_physaddr_add_assign_u64_panics: reachable");
        v += rhs;
        returned_on_invalid_input();
    }

    //@ obligation C07 C07.PhysAddr_sub_u64.exact_or_panic
    //@ obligation C03 C03.PhysAddr_sub_u64.valid
    #[kani::proof]
    fn c07_twin_physaddr_sub_u64_exact() {
        let (a, v) = any_phys();
        let rhs: u64 = kani::any();
        let exact = a as i128 - rhs as i128;
        kani::assume(phys_ok(exact));
        kani::cover!(true, "c07_twin_physaddr_sub_u64_exact: reachable");
        let r = v - rhs;
        assert!(
            r.as_u64() as i128 == exact,
            "C07.PhysAddr_sub_u64.exact_or_panic: returns the exact result when it is representable and valid"
        );
        assert!((r.as_u64() as u128) < TWO52, "C03.PhysAddr_sub_u64.valid: the result is a valid address");
    }

    //@ obligation C07 C07.PhysAddr_sub_u64.exact_or_panic
    //@ obligation C03 C03.PhysAddr_sub_u64.valid
    #[kani::proof]
    #[kani::should_panic]
    fn c07_twin_physaddr_sub_u64_panics() {
        let (a, v) = any_phys();
        let rhs: u64 = kani::any();
        let exact = a as i128 - rhs as i128;
        kani::assume(!phys_ok(exact));
        kani::cover!(true, "c07_twin_physaddr_sub_u64_panics: reachable");
        let _r = v - rhs;
        returned_on_invalid_input();
    }

    //@ obligation C07 C07.PhysAddr_sub_assign_u64.exact_or_panic
    //@ obligation C03 C03.PhysAddr_sub_assign_u64.valid
    #[kani::proof]
    fn c07_twin_physaddr_sub_assign_u64_exact() {
        let (a, mut v) = any_phys();
        let rhs: u64 = kani::any();
        let exact = a as i128 - rhs as i128;
        kani::assume(phys_ok(exact));
        kani::cover!(true, "c07_twin_physaddr_sub_assign_u64_exact: reachable");
        v -= rhs;
        assert!(
            v.as_u64() as i128 == exact,
            "C07.PhysAddr_sub_assign_u64.exact_or_panic: stores the exact result when it is representable and valid"
        );
    }

    //@ obligation C07 C07.PhysAddr_sub_assign_u64.exact_or_panic
    //@ obligation C03 C03.PhysAddr_sub_assign_u64.valid
    #[kani::proof]
    #[kani::should_panic]
    fn c07_twin_physaddr_sub_assign_u64_panics() {
        let (a, mut v) = any_phys();
        let rhs: u64 = kani::any();
        let exact = a as i128 - rhs as i128;
        kani::assume(!phys_ok(exact));
        kani::cover!(true, "c07_twin_physaddr_sub_assign_u64_panics: reachable");
        v -= rhs;
        returned_on_invalid_input();
    }

    //@ obligation C07 C07.PhysAddr_sub_PhysAddr.exact_or_panic
    #[kani::proof]
    fn c07_twin_physaddr_sub_physaddr_exact() {
        let (a, v) = any_phys();
        let (b, w) = any_phys();
        kani::assume(a >= b);
        kani::cover!(true, "c07_twin_physaddr_sub_physaddr_exact: reachable");
        let r: u64 = v - w;
        assert!(
            r as i128 == a as i128 - b as i128,
            "C07.PhysAddr_sub_PhysAddr.exact_or_panic: the difference is exact when it is not negative"
        );
    }

    //@ obligation C07 C07.PhysAddr_sub_PhysAddr.exact_or_panic
    #[kani::proof]
    #[kani::should_panic]
    fn c07_twin_physaddr_sub_physaddr_panics() {
        let (a, v) = any_phys();
        let (b, w) = any_phys();
        kani::assume(a < b);
        kani::cover!(true, "c07_twin_physaddr_sub_physaddr_panics: reachable");
        let _r: u64 = v - w;
        returned_on_invalid_input();
    }

    // ================================================================ Page<S>

    /// `x + rhs` for a symbolic well-formed Page<S>: (exact result in unbounded arithmetic, result of the call)
    fn page_add_u64<S: PageSize>(size: u64, want_valid: bool) -> (i128, u64) {
        let (a, x) = any_page::<S>();
        let rhs: u64 = kani::any();
        let exact = a as i128 + rhs as i128 * size as i128;
        kani::assume(virt_ok(exact) == want_valid);
        let r = x + rhs;
        (exact, r.start_address().as_u64())
    }

    /// same through `+=`
    fn page_add_assign_u64<S: PageSize>(size: u64, want_valid: bool) -> (i128, u64) {
        let (a, mut x) = any_page::<S>();
        let rhs: u64 = kani::any();
        let exact = a as i128 + rhs as i128 * size as i128;
        kani::assume(virt_ok(exact) == want_valid);
        x += rhs;
        (exact, x.start_address().as_u64())
    }

    //@ obligation C07 C07.Page_add_u64.exact_or_panic
    //@ obligation C03 C03.Page_add_u64.valid
    #[kani::proof]
    fn c07_twin_page_add_u64_exact() {
        let sel: u8 = kani::any();
        kani::assume(sel < 3);
        let size = size_of_sel(sel);
        let (exact, r) = match sel {
            0 => page_add_u64::<Size4KiB>(size, true),
            1 => page_add_u64::<Size2MiB>(size, true),
            _ => page_add_u64::<Size1GiB>(size, true),
        };
        kani::cover!(true, "c07_twin_page_add_u64_exact: reachable");
        kani::cover!(sel == 2, "c07_twin_page_add_u64_exact: 1 GiB reachable");
        assert!(
            r as i128 == exact,
            "C07.Page_add_u64.exact_or_panic: start + rhs * SIZE exactly, when that is representable and valid"
        );
        assert!(
            canonical(r) && r % size == 0,
            "C03.Page_add_u64.valid: the result is a valid, size-aligned start address"
        );
    }

    //@ obligation C07 C07.Page_add_u64.exact_or_panic
    //@ obligation C03 C03.Page_add_u64.valid
    #[kani::proof]
    #[kani::should_panic]
    fn c07_twin_page_add_u64_panics() {
        let sel: u8 = kani::any();
        kani::assume(sel < 3);
        let size = size_of_sel(sel);
        kani::cover!(true, "c07_twin_page_add_u64_panics: reachable");
        let _ = match sel {
            0 => page_add_u64::<Size4KiB>(size, false),
            1 => page_add_u64::<Size2MiB>(size, false),
            _ => page_add_u64::<Size1GiB>(size, false),
        };
        returned_on_invalid_input();
    }

    //@ obligation C07 C07.Page_add_assign_u64.exact_or_panic
    //@ obligation C03 C03.Page_add_assign_u64.valid
    #[kani::proof]
    fn c07_twin_page_add_assign_u64_exact() {
        let sel: u8 = kani::any();
        kani::assume(sel < 3);
        let size = size_of_sel(sel);
        let (exact, r) = match sel {
            0 => page_add_assign_u64::<Size4KiB>(size, true),
            1 => page_add_assign_u64::<Size2MiB>(size, true),
            _ => page_add_assign_u64::<Size1GiB>(size, true),
        };
        kani::cover!(true, "c07_twin_page_add_assign_u64_exact: reachable");
        assert!(
            r as i128 == exact && r % size == 0,
            "C07.Page_add_assign_u64.exact_or_panic: start + rhs * SIZE exactly, when that is representable and valid"
        );
    }

    //@ obligation C07 C07.Page_add_assign_u64.exact_or_panic
    //@ obligation C03 C03.Page_add_assign_u64.valid
    #[kani::proof]
    #[kani::should_panic]
    fn c07_twin_page_add_assign_u64_panics() {
        let sel: u8 = kani::any();
        kani::assume(sel < 3);
        let size = size_of_sel(sel);
        kani::cover!(true, "c07_twin_page_add_assign_u64_panics: reachable");
        let _ = match sel {
            0 => page_add_assign_u64::<Size4KiB>(size, false),
            1 => page_add_assign_u64::<Size2MiB>(size, false),
            _ => page_add_assign_u64::<Size1GiB>(size, false),
        };
        returned_on_invalid_input();
    }

    /// `x - rhs` for a symbolic well-formed Page<S>: (exact result in unbounded arithmetic, result of the call)
    fn page_sub_u64<S: PageSize>(size: u64, want_valid: bool) -> (i128, u64) {
        let (a, x) = any_page::<S>();
        let rhs: u64 = kani::any();
        let exact = a as i128 - rhs as i128 * size as i128;
        kani::assume(virt_ok(exact) == want_valid);
        let r = x - rhs;
        (exact, r.start_address().as_u64())
    }

    /// same through `-=`
    fn page_sub_assign_u64<S: PageSize>(size: u64, want_valid: bool) -> (i128, u64) {
        let (a, mut x) = any_page::<S>();
        let rhs: u64 = kani::any();
        let exact = a as i128 - rhs as i128 * size as i128;
        kani::assume(virt_ok(exact) == want_valid);
        x -= rhs;
        (exact, x.start_address().as_u64())
    }

    //@ obligation C07 C07.Page_sub_u64.exact_or_panic
    //@ obligation C03 C03.Page_sub_u64.valid
    #[kani::proof]
    fn c07_twin_page_sub_u64_exact() {
        let sel: u8 = kani::any();
        kani::assume(sel < 3);
        let size = size_of_sel(sel);
        let (exact, r) = match sel {
            0 => page_sub_u64::<Size4KiB>(size, true),
            1 => page_sub_u64::<Size2MiB>(size, true),
            _ => page_sub_u64::<Size1GiB>(size, true),
        };
        kani::cover!(true, "c07_twin_page_sub_u64_exact: reachable");
        kani::cover!(sel == 2, "c07_twin_page_sub_u64_exact: 1 GiB reachable");
        assert!(
            r as i128 == exact,
            "C07.Page_sub_u64.exact_or_panic: start - rhs * SIZE exactly, when that is representable and valid"
        );
        assert!(
            canonical(r) && r % size == 0,
            "C03.Page_sub_u64.valid: the result is a valid, size-aligned start address"
        );
    }

    //@ obligation C07 C07.Page_sub_u64.exact_or_panic
    //@ obligation C03 C03.Page_sub_u64.valid
    #[kani::proof]
    #[kani::should_panic]
    fn c07_twin_page_sub_u64_panics() {
        let sel: u8 = kani::any();
        kani::assume(sel < 3);
        let size = size_of_sel(sel);
        kani::cover!(true, "c07_twin_page_sub_u64_panics: reachable");
        let _ = match sel {
            0 => page_sub_u64::<Size4KiB>(size, false),
            1 => page_sub_u64::<Size2MiB>(size, false),
            _ => page_sub_u64::<Size1GiB>(size, false),
        };
        returned_on_invalid_input();
    }

    //@ obligation C07 C07.Page_sub_assign_u64.exact_or_panic
    //@ obligation C03 C03.Page_sub_assign_u64.valid
    #[kani::proof]
    fn c07_twin_page_sub_assign_u64_exact() {
        let sel: u8 = kani::any();
        kani::assume(sel < 3);
        let size = size_of_sel(sel);
        let (exact, r) = match sel {
            0 => page_sub_assign_u64::<Size4KiB>(size, true),
            1 => page_sub_assign_u64::<Size2MiB>(size, true),
            _ => page_sub_assign_u64::<Size1GiB>(size, true),
        };
        kani::cover!(true, "c07_twin_page_sub_assign_u64_exact: reachable");
        assert!(
            r as i128 == exact && r % size == 0,
            "C07.Page_sub_assign_u64.exact_or_panic: start - rhs * SIZE exactly, when that is representable and valid"
        );
    }

    //@ obligation C07 C07.Page_sub_assign_u64.exact_or_panic
    //@ obligation C03 C03.Page_sub_assign_u64.valid
    #[kani::proof]
    #[kani::should_panic]
    fn c07_twin_page_sub_assign_u64_panics() {
        let sel: u8 = kani::any();
        kani::assume(sel < 3);
        let size = size_of_sel(sel);
        kani::cover!(true, "c07_twin_page_sub_assign_u64_panics: reachable");
        let _ = match sel {
            0 => page_sub_assign_u64::<Size4KiB>(size, false),
            1 => page_sub_assign_u64::<Size2MiB>(size, false),
            _ => page_sub_assign_u64::<Size1GiB>(size, false),
        };
        returned_on_invalid_input();
    }

    /// `x - y` for two symbolic well-formed Page<S>: (start of x, start of y, result of the call)
    fn page_sub_page<S: PageSize>(want_valid: bool) -> (u64, u64, u64) {
        let (a, x) = any_page::<S>();
        let (b, y) = any_page::<S>();
        kani::assume((a >= b) == want_valid);
        let r: u64 = x - y;
        (a, b, r)
    }

    //@ obligation C07 C07.Page_sub_Page.exact_pages_or_panic
    #[kani::proof]
    fn c07_twin_page_sub_page_exact() {
        let sel: u8 = kani::any();
        kani::assume(sel < 3);
        let size = size_of_sel(sel);
        let (a, b, r) = match sel {
            0 => page_sub_page::<Size4KiB>(true),
            1 => page_sub_page::<Size2MiB>(true),
            _ => page_sub_page::<Size1GiB>(true),
        };
        kani::cover!(true, "c07_twin_page_sub_page_exact: reachable");
        assert!(
            r as u128 * size as u128 == (a - b) as u128 && r == (a - b) / size,
            "C07.Page_sub_Page.exact_pages_or_panic: the difference in units of SIZE, exactly (r * SIZE == start - rhs.start)"
        );
    }

    //@ obligation C07 C07.Page_sub_Page.exact_pages_or_panic
    #[kani::proof]
    #[kani::should_panic]
    fn c07_twin_page_sub_page_panics() {
        let sel: u8 = kani::any();
        kani::assume(sel < 3);
        kani::cover!(true, "c07_twin_page_sub_page_panics: reachable");
        let _ = match sel {
            0 => page_sub_page::<Size4KiB>(false),
            1 => page_sub_page::<Size2MiB>(false),
            _ => page_sub_page::<Size1GiB>(false),
        };
        returned_on_invalid_input();
    }

    // ================================================================ PhysFrame<S>

    /// `x + rhs` for a symbolic well-formed PhysFrame<S>: (exact result in unbounded arithmetic, result of the call)
    fn physframe_add_u64<S: PageSize>(size: u64, want_valid: bool) -> (i128, u64) {
        let (a, x) = any_frame::<S>();
        let rhs: u64 = kani::any();
        let exact = a as i128 + rhs as i128 * size as i128;
        kani::assume(phys_ok(exact) == want_valid);
        let r = x + rhs;
        (exact, r.start_address().as_u64())
    }

    /// same through `+=`
    fn physframe_add_assign_u64<S: PageSize>(size: u64, want_valid: bool) -> (i128, u64) {
        let (a, mut x) = any_frame::<S>();
        let rhs: u64 = kani::any();
        let exact = a as i128 + rhs as i128 * size as i128;
        kani::assume(phys_ok(exact) == want_valid);
        x += rhs;
        (exact, x.start_address().as_u64())
    }

    //@ obligation C07 C07.PhysFrame_add_u64.exact_or_panic
    //@ obligation C03 C03.PhysFrame_add_u64.valid
    #[kani::proof]
    fn c07_twin_physframe_add_u64_exact() {
        let sel: u8 = kani::any();
        kani::assume(sel < 3);
        let size = size_of_sel(sel);
        let (exact, r) = match sel {
            0 => physframe_add_u64::<Size4KiB>(size, true),
            1 => physframe_add_u64::<Size2MiB>(size, true),
            _ => physframe_add_u64::<Size1GiB>(size, true),
        };
        kani::cover!(true, "c07_twin_physframe_add_u64_exact: reachable");
        kani::cover!(sel == 2, "c07_twin_physframe_add_u64_exact: 1 GiB reachable");
        assert!(
            r as i128 == exact,
            "C07.PhysFrame_add_u64.exact_or_panic: start + rhs * SIZE exactly, when that is representable and valid"
        );
        assert!(
            (r as u128) < TWO52 && r % size == 0,
            "C03.PhysFrame_add_u64.valid: the result is a valid, size-aligned start address"
        );
    }

    //@ obligation C07 C07.PhysFrame_add_u64.exact_or_panic
    //@ obligation C03 C03.PhysFrame_add_u64.valid
    #[kani::proof]
    #[kani::should_panic]
    fn c07_twin_physframe_add_u64_panics() {
        let sel: u8 = kani::any();
        kani::assume(sel < 3);
        let size = size_of_sel(sel);
        kani::cover!(true, "c07_twin_physframe_add_u64_panics: reachable");
        let _ = match sel {
            0 => physframe_add_u64::<Size4KiB>(size, false),
            1 => physframe_add_u64::<Size2MiB>(size, false),
            _ => physframe_add_u64::<Size1GiB>(size, false),
        };
        returned_on_invalid_input();
    }

    //@ obligation C07 C07.PhysFrame_add_assign_u64.exact_or_panic
    //@ obligation C03 C03.PhysFrame_add_assign_u64.valid
    #[kani::proof]
    fn c07_twin_physframe_add_assign_u64_exact() {
        let sel: u8 = kani::any();
        kani::assume(sel < 3);
        let size = size_of_sel(sel);
        let (exact, r) = match sel {
            0 => physframe_add_assign_u64::<Size4KiB>(size, true),
            1 => physframe_add_assign_u64::<Size2MiB>(size, true),
            _ => physframe_add_assign_u64::<Size1GiB>(size, true),
        };
        kani::cover!(true, "c07_twin_physframe_add_assign_u64_exact: reachable");
        assert!(
            r as i128 == exact && r % size == 0,
            "C07.PhysFrame_add_assign_u64.exact_or_panic: start + rhs * SIZE exactly, when that is representable and valid"
        );
    }

    //@ obligation C07 C07.PhysFrame_add_assign_u64.exact_or_panic
    //@ obligation C03 C03.PhysFrame_add_assign_u64.valid
    #[kani::proof]
    #[kani::should_panic]
    fn c07_twin_physframe_add_assign_u64_panics() {
        let sel: u8 = kani::any();
        kani::assume(sel < 3);
        let size = size_of_sel(sel);
        kani::cover!(true, "c07_twin_physframe_add_assign_u64_panics: reachable");
        let _ = match sel {
            0 => physframe_add_assign_u64::<Size4KiB>(size, false),
            1 => physframe_add_assign_u64::<Size2MiB>(size, false),
            _ => physframe_add_assign_u64::<Size1GiB>(size, false),
        };
        returned_on_invalid_input();
    }

    /// `x - rhs` for a symbolic well-formed PhysFrame<S>: (exact result in unbounded arithmetic, result of the call)
    fn physframe_sub_u64<S: PageSize>(size: u64, want_valid: bool) -> (i128, u64) {
        let (a, x) = any_frame::<S>();
        let rhs: u64 = kani::any();
        let exact = a as i128 - rhs as i128 * size as i128;
        kani::assume(phys_ok(exact) == want_valid);
        let r = x - rhs;
        (exact, r.start_address().as_u64())
    }

    /// same through `-=`
    fn physframe_sub_assign_u64<S: PageSize>(size: u64, want_valid: bool) -> (i128, u64) {
        let (a, mut x) = any_frame::<S>();
        let rhs: u64 = kani::any();
        let exact = a as i128 - rhs as i128 * size as i128;
        kani::assume(phys_ok(exact) == want_valid);
        x -= rhs;
        (exact, x.start_address().as_u64())
    }

    //@ obligation C07 C07.PhysFrame_sub_u64.exact_or_panic
    //@ obligation C03 C03.PhysFrame_sub_u64.valid
    #[kani::proof]
    fn c07_twin_physframe_sub_u64_exact() {
        let sel: u8 = kani::any();
        kani::assume(sel < 3);
        let size = size_of_sel(sel);
        let (exact, r) = match sel {
            0 => physframe_sub_u64::<Size4KiB>(size, true),
            1 => physframe_sub_u64::<Size2MiB>(size, true),
            _ => physframe_sub_u64::<Size1GiB>(size, true),
        };
        kani::cover!(true, "c07_twin_physframe_sub_u64_exact: reachable");
        kani::cover!(sel == 2, "c07_twin_physframe_sub_u64_exact: 1 GiB reachable");
        assert!(
            r as i128 == exact,
            "C07.PhysFrame_sub_u64.exact_or_panic: start - rhs * SIZE exactly, when that is representable and valid"
        );
        assert!(
            (r as u128) < TWO52 && r % size == 0,
            "C03.PhysFrame_sub_u64.valid: the result is a valid, size-aligned start address"
        );
    }

    //@ obligation C07 C07.PhysFrame_sub_u64.exact_or_panic
    //@ obligation C03 C03.PhysFrame_sub_u64.valid
    #[kani::proof]
    #[kani::should_panic]
    fn c07_twin_physframe_sub_u64_panics() {
        let sel: u8 = kani::any();
        kani::assume(sel < 3);
        let size = size_of_sel(sel);
        kani::cover!(true, "c07_twin_physframe_sub_u64_panics: reachable");
        let _ = match sel {
            0 => physframe_sub_u64::<Size4KiB>(size, false),
            1 => physframe_sub_u64::<Size2MiB>(size, false),
            _ => physframe_sub_u64::<Size1GiB>(size, false),
        };
        returned_on_invalid_input();
    }

    //@ obligation C07 C07.PhysFrame_sub_assign_u64.exact_or_panic
    //@ obligation C03 C03.PhysFrame_sub_assign_u64.valid
    #[kani::proof]
    fn c07_twin_physframe_sub_assign_u64_exact() {
        let sel: u8 = kani::any();
        kani::assume(sel < 3);
        let size = size_of_sel(sel);
        let (exact, r) = match sel {
            0 => physframe_sub_assign_u64::<Size4KiB>(size, true),
            1 => physframe_sub_assign_u64::<Size2MiB>(size, true),
            _ => physframe_sub_assign_u64::<Size1GiB>(size, true),
        };
        kani::cover!(true, "c07_twin_physframe_sub_assign_u64_exact: reachable");
        assert!(
            r as i128 == exact && r % size == 0,
            "C07.PhysFrame_sub_assign_u64.exact_or_panic: start - rhs * SIZE exactly, when that is representable and valid"
        );
    }

    //@ obligation C07 C07.PhysFrame_sub_assign_u64.exact_or_panic
    //@ obligation C03 C03.PhysFrame_sub_assign_u64.valid
    #[kani::proof]
    #[kani::should_panic]
    fn c07_twin_physframe_sub_assign_u64_panics() {
        let sel: u8 = kani::any();
        kani::assume(sel < 3);
        let size = size_of_sel(sel);
        kani::cover!(true, "c07_twin_physframe_sub_assign_u64_panics: reachable");
        let _ = match sel {
            0 => physframe_sub_assign_u64::<Size4KiB>(size, false),
            1 => physframe_sub_assign_u64::<Size2MiB>(size, false),
            _ => physframe_sub_assign_u64::<Size1GiB>(size, false),
        };
        returned_on_invalid_input();
    }

    /// `x - y` for two symbolic well-formed PhysFrame<S>: (start of x, start of y, result of the call)
    fn physframe_sub_physframe<S: PageSize>(want_valid: bool) -> (u64, u64, u64) {
        let (a, x) = any_frame::<S>();
        let (b, y) = any_frame::<S>();
        kani::assume((a >= b) == want_valid);
        let r: u64 = x - y;
        (a, b, r)
    }

    //@ obligation C07 C07.PhysFrame_sub_PhysFrame.exact_frames_or_panic
    #[kani::proof]
    fn c07_twin_physframe_sub_physframe_exact() {
        let sel: u8 = kani::any();
        kani::assume(sel < 3);
        let size = size_of_sel(sel);
        let (a, b, r) = match sel {
            0 => physframe_sub_physframe::<Size4KiB>(true),
            1 => physframe_sub_physframe::<Size2MiB>(true),
            _ => physframe_sub_physframe::<Size1GiB>(true),
        };
        kani::cover!(true, "c07_twin_physframe_sub_physframe_exact: reachable");
        assert!(
            r as u128 * size as u128 == (a - b) as u128 && r == (a - b) / size,
            "C07.PhysFrame_sub_PhysFrame.exact_frames_or_panic: the difference in units of SIZE, exactly (r * SIZE == start - rhs.start)"
        );
    }

    //@ obligation C07 C07.PhysFrame_sub_PhysFrame.exact_frames_or_panic
    #[kani::proof]
    #[kani::should_panic]
    fn c07_twin_physframe_sub_physframe_panics() {
        let sel: u8 = kani::any();
        kani::assume(sel < 3);
        kani::cover!(true, "c07_twin_physframe_sub_physframe_panics: reachable");
        let _ = match sel {
            0 => physframe_sub_physframe::<Size4KiB>(false),
            1 => physframe_sub_physframe::<Size2MiB>(false),
            _ => physframe_sub_physframe::<Size1GiB>(false),
        };
        returned_on_invalid_input();
    }
}
