//@ include-into src/registers/control.rs
//
// C16 (sample): CR0 / CR2 / CR3 / CR4 wrappers against the abstract machine.
// The MODELLED masks are written from the SDM (vol. 3A 2.5), not taken from
// the crate, so that dropping a flag from the bitflags type is seen here.

#[cfg(kani)]
mod verif_c16_control {
    use super::*;
    use crate::structures::paging::PhysFrame;
    use crate::verif_hw::{self, Kind};
    use crate::PhysAddr;

    /// CR0 bits 0-5, 16, 18, 29, 30, 31.
    const CR0_MODELLED: u64 = 0xE005_003F;
    /// CR4 bits 0-14, 16-24.
    const CR4_MODELLED: u64 = 0x01FF_7FFF;
    /// CR3 bits 3, 4.
    const CR3_FLAG_BITS: u64 = 0x18;
    const PHYS_FRAME_MASK: u64 = 0x000f_ffff_ffff_f000;

    // ---------------------------------------------------------------- CR0

    // Contract form: the typed read is the raw register masked to the
    // architecturally defined bits. The wrapper carries the contract.
    #[kani::ensures(|r: &Cr0Flags| r.bits() == verif_hw::m().cr0 & CR0_MODELLED)]
    #[kani::modifies(verif_hw::m())]
    fn w_cr0_read() -> Cr0Flags {
        Cr0::read()
    }

    //@ obligation C16 C16.Cr0_read.truncated_raw
    #[kani::proof_for_contract(w_cr0_read)]
    fn c16_cr0_read_truncated_raw() {
        verif_hw::reset_symbolic();
        kani::cover!(true, "c16_cr0_read_truncated_raw: reachable");
        let _ = w_cr0_read();
    }

    //@ obligation C16 C16.Cr0_read_raw.value_and_event
    #[kani::proof]
    fn c16_cr0_read_raw_value_and_event() {
        verif_hw::reset_symbolic();
        let old = verif_hw::m().cr0;
        kani::cover!(true, "c16_cr0_read_raw_value_and_event: reachable");
        let r = Cr0::read_raw();
        let m = verif_hw::m();
        assert!(r == old, "C16.Cr0_read_raw.value_and_event: returns the register");
        assert!(m.cr0 == old, "C16.Cr0_read_raw.value_and_event: register unchanged");
        assert!(
            m.only_event_is(Kind::MovFromCr, 0, old, 0),
            "C16.Cr0_read_raw.value_and_event: exactly one mov from cr0"
        );
    }

    //@ obligation C16 C16.Cr0_write_raw.stores_exactly
    #[kani::proof]
    fn c16_cr0_write_raw_stores_exactly() {
        verif_hw::reset_symbolic();
        let before = *verif_hw::m();
        let v: u64 = kani::any();
        kani::cover!(true, "c16_cr0_write_raw_stores_exactly: reachable");
        unsafe { Cr0::write_raw(v) };
        let m = verif_hw::m();
        assert!(m.cr0 == v, "C16.Cr0_write_raw.stores_exactly: cr0 == value");
        assert!(
            m.cr2 == before.cr2 && m.cr3 == before.cr3 && m.cr4 == before.cr4,
            "C16.Cr0_write_raw.stores_exactly: other control registers unchanged"
        );
        assert!(
            m.only_event_is(Kind::MovToCr, 0, v, 0),
            "C16.Cr0_write_raw.stores_exactly: exactly one mov to cr0"
        );
    }

    //@ obligation C16 C16.Cr0_write.preserves_unmodelled
    #[kani::proof]
    fn c16_cr0_write_preserves_unmodelled() {
        verif_hw::reset_symbolic();
        let before = *verif_hw::m();
        let flags = Cr0Flags::from_bits_retain(kani::any::<u64>() & CR0_MODELLED);
        kani::cover!(true, "c16_cr0_write_preserves_unmodelled: reachable");
        unsafe { Cr0::write(flags) };
        let m = verif_hw::m();
        let expect = (before.cr0 & !CR0_MODELLED) | flags.bits();
        assert!(
            m.cr0 == expect,
            "C16.Cr0_write.preserves_unmodelled: new == (old & !MODELLED) | flags"
        );
        assert!(
            m.cr2 == before.cr2 && m.cr3 == before.cr3 && m.cr4 == before.cr4,
            "C16.Cr0_write.preserves_unmodelled: other control registers unchanged"
        );
        assert!(
            m.count(Kind::MovToCr) == 1 && !m.log_overflow && !m.unknown_asm_hit,
            "C16.Cr0_write.preserves_unmodelled: exactly one control register write"
        );
        let last = m.event(m.log_len - 1);
        assert!(
            last.is(Kind::MovToCr, 0, expect, 0),
            "C16.Cr0_write.preserves_unmodelled: the write is the last event and targets cr0"
        );
    }

    //@ obligation C16 C16.Cr0_update.read_f_write
    #[kani::proof]
    fn c16_cr0_update_read_f_write() {
        verif_hw::reset_symbolic();
        let old = verif_hw::m().cr0;
        let chosen = Cr0Flags::from_bits_retain(kani::any::<u64>() & CR0_MODELLED);
        kani::cover!(true, "c16_cr0_update_read_f_write: reachable");
        let mut calls: u8 = 0;
        let mut seen: u64 = 0;
        let mut writes_before_f: usize = 0;
        unsafe {
            Cr0::update(|f| {
                calls += 1;
                seen = f.bits();
                writes_before_f = verif_hw::count(Kind::MovToCr);
                *f = chosen;
            })
        };
        let m = verif_hw::m();
        assert!(calls == 1, "C16.Cr0_update.read_f_write: f runs exactly once");
        assert!(
            seen == old & CR0_MODELLED,
            "C16.Cr0_update.read_f_write: f sees the typed read of the old value"
        );
        assert!(
            writes_before_f == 0,
            "C16.Cr0_update.read_f_write: nothing is written before f ran"
        );
        assert!(
            m.cr0 == (old & !CR0_MODELLED) | chosen.bits(),
            "C16.Cr0_update.read_f_write: the result of f is written like Cr0::write"
        );
        assert!(
            m.count(Kind::MovToCr) == 1 && !m.log_overflow && !m.unknown_asm_hit,
            "C16.Cr0_update.read_f_write: exactly one control register write"
        );
    }

    // ---------------------------------------------------------------- CR2

    //@ obligation C16 C16.Cr2_read_raw.value_and_event
    #[kani::proof]
    fn c16_cr2_read_raw_value_and_event() {
        verif_hw::reset_symbolic();
        let old = verif_hw::m().cr2;
        kani::cover!(true, "c16_cr2_read_raw_value_and_event: reachable");
        let r = Cr2::read_raw();
        let m = verif_hw::m();
        assert!(r == old, "C16.Cr2_read_raw.value_and_event: returns the register");
        assert!(
            m.only_event_is(Kind::MovFromCr, 2, old, 0),
            "C16.Cr2_read_raw.value_and_event: exactly one mov from cr2"
        );
    }

    // ---------------------------------------------------------------- CR3

    //@ obligation C16 C16.Cr3_write.read_back
    #[kani::proof]
    fn c16_cr3_write_read_back() {
        verif_hw::reset_symbolic();
        let before = *verif_hw::m();
        let addr: u64 = kani::any::<u64>() & PHYS_FRAME_MASK;
        let frame: PhysFrame = PhysFrame::containing_address(PhysAddr::new(addr));
        let flags = Cr3Flags::from_bits_retain(kani::any::<u64>() & CR3_FLAG_BITS);
        kani::cover!(true, "c16_cr3_write_read_back: reachable");
        unsafe { Cr3::write(frame, flags) };
        {
            let m = verif_hw::m();
            assert!(
                m.cr3 == addr | flags.bits(),
                "C16.Cr3_write.read_back: cr3 == frame address | flags, bit 63 clear"
            );
            assert!(
                m.only_event_is(Kind::MovToCr, 3, addr | flags.bits(), 0),
                "C16.Cr3_write.read_back: exactly one mov to cr3"
            );
            assert!(
                m.cr0 == before.cr0 && m.cr2 == before.cr2 && m.cr4 == before.cr4,
                "C16.Cr3_write.read_back: other control registers unchanged"
            );
        }
        let (f2, fl2) = Cr3::read();
        assert!(
            f2 == frame && fl2 == flags,
            "C16.Cr3_write.read_back: read returns what was written"
        );
    }

    //@ obligation C16 C16.Cr3_read.decodes_register
    #[kani::proof]
    fn c16_cr3_read_decodes_register() {
        verif_hw::reset_symbolic();
        let old = verif_hw::m().cr3;
        kani::cover!(true, "c16_cr3_read_decodes_register: reachable");
        let (frame, flags) = Cr3::read();
        let m = verif_hw::m();
        assert!(
            frame.start_address().as_u64() == old & PHYS_FRAME_MASK,
            "C16.Cr3_read.decodes_register: frame is bits 12-51"
        );
        assert!(
            flags.bits() == old & CR3_FLAG_BITS,
            "C16.Cr3_read.decodes_register: flags are bits 3 and 4"
        );
        assert!(
            m.cr3 == old && m.only_event_is(Kind::MovFromCr, 3, old, 0),
            "C16.Cr3_read.decodes_register: one mov from cr3, register unchanged"
        );
    }

    // ---------------------------------------------------------------- CR4

    //@ obligation C16 C16.Cr4_read.truncated_raw
    #[kani::proof]
    fn c16_cr4_read_truncated_raw() {
        verif_hw::reset_symbolic();
        let old = verif_hw::m().cr4;
        kani::cover!(true, "c16_cr4_read_truncated_raw: reachable");
        let r = Cr4::read();
        let raw = Cr4::read_raw();
        assert!(
            r.bits() == old & CR4_MODELLED,
            "C16.Cr4_read.truncated_raw: typed read == raw & MODELLED"
        );
        assert!(raw == old, "C16.Cr4_read.truncated_raw: read_raw returns the register");
        let m = verif_hw::m();
        assert!(
            m.log_len == 2
                && m.event(0).is(Kind::MovFromCr, 4, old, 0)
                && m.event(1).is(Kind::MovFromCr, 4, old, 0)
                && !m.unknown_asm_hit,
            "C16.Cr4_read.truncated_raw: each read is one mov from cr4"
        );
    }

    //@ obligation C16 C16.Cr4_write_raw.stores_exactly
    #[kani::proof]
    fn c16_cr4_write_raw_stores_exactly() {
        verif_hw::reset_symbolic();
        let before = *verif_hw::m();
        let v: u64 = kani::any();
        kani::cover!(true, "c16_cr4_write_raw_stores_exactly: reachable");
        unsafe { Cr4::write_raw(v) };
        let m = verif_hw::m();
        assert!(m.cr4 == v, "C16.Cr4_write_raw.stores_exactly: cr4 == value");
        assert!(
            m.cr0 == before.cr0 && m.cr2 == before.cr2 && m.cr3 == before.cr3,
            "C16.Cr4_write_raw.stores_exactly: other control registers unchanged"
        );
        assert!(
            m.only_event_is(Kind::MovToCr, 4, v, 0),
            "C16.Cr4_write_raw.stores_exactly: exactly one mov to cr4"
        );
    }

    //@ obligation C16 C16.Cr4_write.preserves_unmodelled
    #[kani::proof]
    fn c16_cr4_write_preserves_unmodelled() {
        verif_hw::reset_symbolic();
        let before = *verif_hw::m();
        let flags = Cr4Flags::from_bits_retain(kani::any::<u64>() & CR4_MODELLED);
        kani::cover!(true, "c16_cr4_write_preserves_unmodelled: reachable");
        unsafe { Cr4::write(flags) };
        let m = verif_hw::m();
        let expect = (before.cr4 & !CR4_MODELLED) | flags.bits();
        assert!(
            m.cr4 == expect,
            "C16.Cr4_write.preserves_unmodelled: new == (old & !MODELLED) | flags"
        );
        assert!(
            m.cr0 == before.cr0 && m.cr2 == before.cr2 && m.cr3 == before.cr3,
            "C16.Cr4_write.preserves_unmodelled: other control registers unchanged"
        );
        assert!(
            m.count(Kind::MovToCr) == 1 && !m.log_overflow && !m.unknown_asm_hit,
            "C16.Cr4_write.preserves_unmodelled: exactly one control register write"
        );
        let last = m.event(m.log_len - 1);
        assert!(
            last.is(Kind::MovToCr, 4, expect, 0),
            "C16.Cr4_write.preserves_unmodelled: the write is the last event and targets cr4"
        );
    }

    //@ obligation C16 C16.Cr4_update.read_f_write
    #[kani::proof]
    fn c16_cr4_update_read_f_write() {
        verif_hw::reset_symbolic();
        let old = verif_hw::m().cr4;
        let chosen = Cr4Flags::from_bits_retain(kani::any::<u64>() & CR4_MODELLED);
        kani::cover!(true, "c16_cr4_update_read_f_write: reachable");
        let mut calls: u8 = 0;
        let mut seen: u64 = 0;
        unsafe {
            Cr4::update(|f| {
                calls += 1;
                seen = f.bits();
                *f = chosen;
            })
        };
        let m = verif_hw::m();
        assert!(calls == 1, "C16.Cr4_update.read_f_write: f runs exactly once");
        assert!(
            seen == old & CR4_MODELLED,
            "C16.Cr4_update.read_f_write: f sees the typed read of the old value"
        );
        assert!(
            m.cr4 == (old & !CR4_MODELLED) | chosen.bits(),
            "C16.Cr4_update.read_f_write: the result of f is written like Cr4::write"
        );
        assert!(
            m.count(Kind::MovToCr) == 1 && !m.log_overflow && !m.unknown_asm_hit,
            "C16.Cr4_update.read_f_write: exactly one control register write"
        );
    }

    // ------------------------------------------------- MSR (public API only)
    // Msr lives in model_specific.rs; only its public read/write are used, so
    // the harnesses can sit in this file. They pin the ecx / edx:eax binding.

    //@ obligation C16 C16.Msr_read.edx_eax_of_index
    #[kani::proof]
    fn c16_msr_read_edx_eax_of_index() {
        use crate::registers::model_specific::Msr;
        verif_hw::reset_symbolic();
        let idx = verif_hw::m().msr_index;
        let val = verif_hw::m().msr_value;
        // the three base MSRs alias fs_base / gs_base / kernel_gs_base in the model
        kani::assume(idx < 0xC000_0100 || idx > 0xC000_0102);
        kani::cover!(true, "c16_msr_read_edx_eax_of_index: reachable");
        let r = unsafe { Msr::new(idx).read() };
        let m = verif_hw::m();
        assert!(
            r == val,
            "C16.Msr_read.edx_eax_of_index: result == (edx << 32) | eax of MSR[index]"
        );
        assert!(
            m.only_event_is(Kind::Rdmsr, idx as u64, val & 0xffff_ffff, val >> 32),
            "C16.Msr_read.edx_eax_of_index: exactly one rdmsr with ecx == index"
        );
        assert!(
            m.msr_value == val,
            "C16.Msr_read.edx_eax_of_index: the register is unchanged"
        );
    }

    //@ obligation C16 C16.Msr_write.edx_eax_to_index
    #[kani::proof]
    fn c16_msr_write_edx_eax_to_index() {
        use crate::registers::model_specific::Msr;
        verif_hw::reset_symbolic();
        let idx = verif_hw::m().msr_index;
        let val: u64 = kani::any();
        kani::assume(idx < 0xC000_0100 || idx > 0xC000_0102);
        kani::cover!(true, "c16_msr_write_edx_eax_to_index: reachable");
        unsafe { Msr::new(idx).write(val) };
        let m = verif_hw::m();
        assert!(
            m.msr_value == val,
            "C16.Msr_write.edx_eax_to_index: MSR[index] == value"
        );
        assert!(
            m.only_event_is(Kind::Wrmsr, idx as u64, val & 0xffff_ffff, val >> 32),
            "C16.Msr_write.edx_eax_to_index: exactly one wrmsr, ecx == index, eax low half, edx high half"
        );
    }
}
