//@ include-into src/registers/control.rs
//
// C16: CR0 / CR2 / CR3 / CR4 wrappers against the abstract machine.
// (Msr::read / Msr::write and the typed MSR wrappers are in c16_msr.rs.)
// The MODELLED masks are written from the SDM (vol. 3A 2.5), not taken from
// the crate, so that dropping a flag from the bitflags type is seen here.
//
// Which wrappers preserve unmodelled bits follows each wrapper's own doc
// comment: Cr0::write / Cr4::write say "Preserves the value of reserved
// fields"; Cr3::write* build the whole register from their arguments.

#[cfg(kani)]
mod verif_c16_control {
    use super::*;
    use crate::instructions::tlb::Pcid;
    use crate::structures::paging::PhysFrame;
    use crate::verif_hw::{self, field, Kind};
    use crate::PhysAddr;

    /// CR0 bits 0-5, 16, 18, 29, 30, 31.
    const CR0_MODELLED: u64 = 0xE005_003F;
    /// CR4 bits 0-14, 16-24.
    const CR4_MODELLED: u64 = 0x01FF_7FFF;
    /// CR3 bits 3, 4.
    const CR3_FLAG_BITS: u64 = 0x18;
    const PHYS_FRAME_MASK: u64 = 0x000f_ffff_ffff_f000;

    fn any_frame() -> (PhysFrame, u64) {
        let addr: u64 = kani::any::<u64>() & PHYS_FRAME_MASK;
        (PhysFrame::containing_address(PhysAddr::new(addr)), addr)
    }
    fn any_pcid() -> Pcid {
        // all 4096 PCIDs
        Pcid::new(kani::any::<u16>() & 0xfff).unwrap()
    }

    // ---------------------------------------------------------------- CR0

    // Contract form: the typed read is the raw register masked to the
    // architecturally defined bits. The wrapper carries the contract.
    #[kani::ensures(|r: &Cr0Flags| r.bits() == verif_hw::m().cr0 & CR0_MODELLED)]
    #[kani::modifies(verif_hw::m())]
    fn w_cr0_read() -> Cr0Flags {
        Cr0::read()
    }

    //@ obligation C16 C16.Cr0_read.truncated_raw
    #[kani::proof_for_contract(w_cr0_read)]
    fn c16_cr0_read_truncated_raw() {
        verif_hw::reset_symbolic();
        kani::cover!(true, "c16_cr0_read_truncated_raw: reachable");
        let _ = w_cr0_read();
    }

    //@ obligation C16 C16.Cr0_read.event_and_frame
    #[kani::proof]
    fn c16_cr0_read_event_and_frame() {
        verif_hw::reset_symbolic();
        let before = *verif_hw::m();
        kani::cover!(true, "c16_cr0_read_event_and_frame: reachable");
        let r = Cr0::read();
        let m = verif_hw::m();
        assert!(
            r.bits() == before.cr0 & CR0_MODELLED,
            "C16.Cr0_read.event_and_frame: typed read == raw & MODELLED"
        );
        assert!(
            m.only_event_is(Kind::MovFromCr, 0, before.cr0, 0) && m.regs_same_except(&before, field::NONE),
            "C16.Cr0_read.event_and_frame: exactly one mov from cr0, no register changes"
        );
    }

    //@ obligation C16 C16.Cr0_read_raw.value_and_event
    #[kani::proof]
    fn c16_cr0_read_raw_value_and_event() {
        verif_hw::reset_symbolic();
        let before = *verif_hw::m();
        let old = before.cr0;
        kani::cover!(true, "c16_cr0_read_raw_value_and_event: reachable");
        let r = Cr0::read_raw();
        let m = verif_hw::m();
        assert!(r == old, "C16.Cr0_read_raw.value_and_event: returns the register");
        assert!(
            m.regs_same_except(&before, field::NONE),
            "C16.Cr0_read_raw.value_and_event: register unchanged"
        );
        assert!(
            m.only_event_is(Kind::MovFromCr, 0, old, 0),
            "C16.Cr0_read_raw.value_and_event: exactly one mov from cr0"
        );
    }

    //@ obligation C16 C16.Cr0_write_raw.stores_exactly
    #[kani::proof]
    fn c16_cr0_write_raw_stores_exactly() {
        verif_hw::reset_symbolic();
        let before = *verif_hw::m();
        let v: u64 = kani::any();
        kani::cover!(true, "c16_cr0_write_raw_stores_exactly: reachable");
        unsafe { Cr0::write_raw(v) };
        let m = verif_hw::m();
        assert!(m.cr0 == v, "C16.Cr0_write_raw.stores_exactly: cr0 == value");
        assert!(
            m.regs_same_except(&before, field::CR0),
            "C16.Cr0_write_raw.stores_exactly: no other register changes"
        );
        assert!(
            m.only_event_is(Kind::MovToCr, 0, v, 0),
            "C16.Cr0_write_raw.stores_exactly: exactly one mov to cr0"
        );
    }

    //@ obligation C16 C16.Cr0_write.preserves_unmodelled
    #[kani::proof]
    fn c16_cr0_write_preserves_unmodelled() {
        verif_hw::reset_symbolic();
        let before = *verif_hw::m();
        let flags = Cr0Flags::from_bits_retain(kani::any::<u64>() & CR0_MODELLED);
        kani::cover!(true, "c16_cr0_write_preserves_unmodelled: reachable");
        unsafe { Cr0::write(flags) };
        let expect = (before.cr0 & !CR0_MODELLED) | flags.bits();
        {
            let m = verif_hw::m();
            assert!(
                m.cr0 == expect,
                "C16.Cr0_write.preserves_unmodelled: new == (old & !MODELLED) | flags"
            );
            assert!(
                m.regs_same_except(&before, field::CR0),
                "C16.Cr0_write.preserves_unmodelled: no other register changes"
            );
            assert!(
                m.count(Kind::MovToCr) == 1 && !m.log_overflow && !m.unknown_asm_hit,
                "C16.Cr0_write.preserves_unmodelled: exactly one control register write"
            );
            assert!(
                m.only_events_are((Kind::MovFromCr, 0, before.cr0, 0), (Kind::MovToCr, 0, expect, 0)),
                "C16.Cr0_write.preserves_unmodelled: the write is the last event and targets cr0"
            );
        }
        assert!(
            Cr0::read() == flags,
            "C16.Cr0_write.preserves_unmodelled: the next typed read returns the flags written"
        );
    }

    //@ obligation C16 C16.Cr0_update.read_f_write
    #[kani::proof]
    fn c16_cr0_update_read_f_write() {
        verif_hw::reset_symbolic();
        let before = *verif_hw::m();
        let old = before.cr0;
        let chosen = Cr0Flags::from_bits_retain(kani::any::<u64>() & CR0_MODELLED);
        kani::cover!(true, "c16_cr0_update_read_f_write: reachable");
        let mut calls: u8 = 0;
        let mut seen: u64 = 0;
        let mut writes_before_f: usize = 0;
        unsafe {
            Cr0::update(|f| {
                calls += 1;
                seen = f.bits();
                writes_before_f = verif_hw::count(Kind::MovToCr);
                *f = chosen;
            })
        };
        let m = verif_hw::m();
        assert!(calls == 1, "C16.Cr0_update.read_f_write: f runs exactly once");
        assert!(
            seen == old & CR0_MODELLED,
            "C16.Cr0_update.read_f_write: f sees the typed read of the old value"
        );
        assert!(
            writes_before_f == 0,
            "C16.Cr0_update.read_f_write: nothing is written before f ran"
        );
        assert!(
            m.cr0 == (old & !CR0_MODELLED) | chosen.bits(),
            "C16.Cr0_update.read_f_write: the result of f is written like Cr0::write"
        );
        assert!(
            m.count(Kind::MovToCr) == 1 && !m.log_overflow && !m.unknown_asm_hit,
            "C16.Cr0_update.read_f_write: exactly one control register write"
        );
        assert!(
            m.log_len == 3 && m.event(2).is(Kind::MovToCr, 0, m.cr0, 0) && m.regs_same_except(&before, field::CR0),
            "C16.Cr0_update.read_f_write: the write is the last event, targets cr0, nothing else changes"
        );
    }

    // ---------------------------------------------------------------- CR2

    //@ obligation C16 C16.Cr2_read_raw.value_and_event
    #[kani::proof]
    fn c16_cr2_read_raw_value_and_event() {
        verif_hw::reset_symbolic();
        let before = *verif_hw::m();
        let old = before.cr2;
        kani::cover!(true, "c16_cr2_read_raw_value_and_event: reachable");
        let r = Cr2::read_raw();
        let m = verif_hw::m();
        assert!(r == old, "C16.Cr2_read_raw.value_and_event: returns the register");
        assert!(
            m.only_event_is(Kind::MovFromCr, 2, old, 0) && m.regs_same_except(&before, field::NONE),
            "C16.Cr2_read_raw.value_and_event: exactly one mov from cr2, no register changes"
        );
    }

    /// Cr2::read uses VirtAddr::try_new: documented to return
    /// Err(VirtAddrNotValid) for non-canonical register contents instead of
    /// panicking (CR2 is writable with any value, so such contents are possible).
    //@ obligation C16 C16.Cr2_read.ok_iff_canonical
    #[kani::proof]
    fn c16_cr2_read_ok_iff_canonical() {
        verif_hw::reset_symbolic();
        let before = *verif_hw::m();
        let old = before.cr2;
        let top = old >> 47;
        let canonical = top == 0 || top == 0x1_ffff;
        kani::cover!(true, "c16_cr2_read_ok_iff_canonical: reachable");
        kani::cover!(canonical, "c16_cr2_read_ok_iff_canonical: canonical contents");
        kani::cover!(!canonical, "c16_cr2_read_ok_iff_canonical: non-canonical contents");
        let r = Cr2::read();
        let m = verif_hw::m();
        match r {
            Ok(a) => assert!(
                canonical && a.as_u64() == old,
                "C16.Cr2_read.ok_iff_canonical: Ok(address == all 64 bits) only for canonical contents"
            ),
            Err(e) => assert!(
                !canonical && e.0 == old,
                "C16.Cr2_read.ok_iff_canonical: Err carrying the raw value only for non-canonical contents"
            ),
        }
        assert!(
            m.only_event_is(Kind::MovFromCr, 2, old, 0) && m.regs_same_except(&before, field::NONE),
            "C16.Cr2_read.ok_iff_canonical: exactly one mov from cr2, no register changes"
        );
    }

    // ---------------------------------------------------------------- CR3

    //@ obligation C16 C16.Cr3_write.read_back
    #[kani::proof]
    fn c16_cr3_write_read_back() {
        verif_hw::reset_symbolic();
        let before = *verif_hw::m();
        let (frame, addr) = any_frame();
        let flags = Cr3Flags::from_bits_retain(kani::any::<u64>() & CR3_FLAG_BITS);
        kani::cover!(true, "c16_cr3_write_read_back: reachable");
        unsafe { Cr3::write(frame, flags) };
        {
            let m = verif_hw::m();
            assert!(
                m.cr3 == addr | flags.bits(),
                "C16.Cr3_write.read_back: cr3 == frame address | flags, bit 63 clear"
            );
            assert!(
                m.only_event_is(Kind::MovToCr, 3, addr | flags.bits(), 0),
                "C16.Cr3_write.read_back: exactly one mov to cr3"
            );
            assert!(
                m.regs_same_except(&before, field::CR3),
                "C16.Cr3_write.read_back: no other register changes"
            );
        }
        let (f2, fl2) = Cr3::read();
        assert!(
            f2 == frame && fl2 == flags,
            "C16.Cr3_write.read_back: read returns what was written"
        );
    }

    //@ obligation C16 C16.Cr3_write_pcid.read_back
    #[kani::proof]
    fn c16_cr3_write_pcid_read_back() {
        verif_hw::reset_symbolic();
        let before = *verif_hw::m();
        let (frame, addr) = any_frame();
        let pcid = any_pcid();
        kani::cover!(true, "c16_cr3_write_pcid_read_back: reachable");
        unsafe { Cr3::write_pcid(frame, pcid) };
        let expect = addr | pcid.value() as u64;
        {
            let m = verif_hw::m();
            assert!(
                m.cr3 == expect,
                "C16.Cr3_write_pcid.read_back: cr3 == frame address | PCID, bit 63 clear"
            );
            assert!(
                m.only_event_is(Kind::MovToCr, 3, expect, 0) && m.regs_same_except(&before, field::CR3),
                "C16.Cr3_write_pcid.read_back: exactly one mov to cr3, no other register changes"
            );
        }
        let (f2, p2) = Cr3::read_pcid();
        assert!(
            f2 == frame && p2.value() == pcid.value(),
            "C16.Cr3_write_pcid.read_back: read_pcid returns the frame and the PCID written"
        );
    }

    //@ obligation C16 C16.Cr3_write_pcid_no_flush.bit63_and_read_back
    #[kani::proof]
    fn c16_cr3_write_pcid_no_flush_bit63() {
        verif_hw::reset_symbolic();
        let before = *verif_hw::m();
        let (frame, addr) = any_frame();
        let pcid = any_pcid();
        kani::cover!(true, "c16_cr3_write_pcid_no_flush_bit63: reachable");
        unsafe { Cr3::write_pcid_no_flush(frame, pcid) };
        let expect = (1u64 << 63) | addr | pcid.value() as u64;
        {
            let m = verif_hw::m();
            assert!(
                m.only_event_is(Kind::MovToCr, 3, expect, 0),
                "C16.Cr3_write_pcid_no_flush.bit63_and_read_back: the value moved to cr3 is bit 63 | frame | PCID"
            );
            assert!(
                m.regs_same_except(&before, field::CR3),
                "C16.Cr3_write_pcid_no_flush.bit63_and_read_back: no other register changes"
            );
        }
        // (hardware does not store bit 63; the model does. read_pcid must not care.)
        let (f2, p2) = Cr3::read_pcid();
        assert!(
            f2 == frame && p2.value() == pcid.value(),
            "C16.Cr3_write_pcid_no_flush.bit63_and_read_back: read_pcid returns the frame and the PCID written"
        );
    }

    //@ obligation C16 C16.Cr3_write_raw.stores_frame_and_low_bits
    #[kani::proof]
    fn c16_cr3_write_raw_stores_frame_and_low_bits() {
        verif_hw::reset_symbolic();
        let before = *verif_hw::m();
        let (frame, addr) = any_frame();
        let val: u16 = kani::any::<u16>() & 0xfff;
        kani::cover!(true, "c16_cr3_write_raw_stores_frame_and_low_bits: reachable");
        unsafe { Cr3::write_raw(frame, val) };
        let expect = addr | val as u64;
        {
            let m = verif_hw::m();
            assert!(
                m.cr3 == expect,
                "C16.Cr3_write_raw.stores_frame_and_low_bits: cr3 == frame address | value, bit 63 clear"
            );
            assert!(
                m.only_event_is(Kind::MovToCr, 3, expect, 0) && m.regs_same_except(&before, field::CR3),
                "C16.Cr3_write_raw.stores_frame_and_low_bits: exactly one mov to cr3, no other register changes"
            );
        }
        let (f2, v2) = Cr3::read_raw();
        assert!(
            f2 == frame && v2 == val,
            "C16.Cr3_write_raw.stores_frame_and_low_bits: read_raw returns what was written"
        );
    }

    //@ obligation C16 C16.Cr3_read.decodes_register
    //@ obligation C20 C20.Cr3_read.decodes_register
    #[kani::proof]
    fn c16_cr3_read_decodes_register() {
        verif_hw::reset_symbolic();
        let before = *verif_hw::m();
        let old = before.cr3;
        kani::cover!(true, "c16_cr3_read_decodes_register: reachable");
        let (frame, flags) = Cr3::read();
        let m = verif_hw::m();
        assert!(
            frame.start_address().as_u64() == old & PHYS_FRAME_MASK,
            "C16.Cr3_read.decodes_register: frame is bits 12-51"
        );
        assert!(
            flags.bits() == old & CR3_FLAG_BITS,
            "C16.Cr3_read.decodes_register: flags are bits 3 and 4"
        );
        assert!(
            m.only_event_is(Kind::MovFromCr, 3, old, 0) && m.regs_same_except(&before, field::NONE),
            "C16.Cr3_read.decodes_register: one mov from cr3, register unchanged"
        );
    }

    //@ obligation C16 C16.Cr3_read_raw.decodes_register
    //@ obligation C20 C20.Cr3_read_raw.decodes_register
    //@ obligation C16 C16.Cr3_read_pcid.decodes_register
    #[kani::proof]
    fn c16_cr3_read_raw_and_pcid_decode_register() {
        verif_hw::reset_symbolic();
        let before = *verif_hw::m();
        let old = before.cr3;
        kani::cover!(true, "c16_cr3_read_raw_and_pcid_decode_register: reachable");
        let (frame, low) = Cr3::read_raw();
        {
            let m = verif_hw::m();
            assert!(
                frame.start_address().as_u64() == old & PHYS_FRAME_MASK && low as u64 == old & 0xfff,
                "C16.Cr3_read_raw.decodes_register: (frame of bits 12-51, bits 0-11)"
            );
            assert!(
                m.only_event_is(Kind::MovFromCr, 3, old, 0) && m.regs_same_except(&before, field::NONE),
                "C16.Cr3_read_raw.decodes_register: one mov from cr3, register unchanged"
            );
        }
        let (frame2, pcid) = Cr3::read_pcid();
        let m = verif_hw::m();
        assert!(
            frame2.start_address().as_u64() == old & PHYS_FRAME_MASK && pcid.value() as u64 == old & 0xfff,
            "C16.Cr3_read_pcid.decodes_register: (frame of bits 12-51, PCID = bits 0-11), never panics"
        );
        assert!(
            m.log_len == 2 && m.event(1).is(Kind::MovFromCr, 3, old, 0) && m.regs_same_except(&before, field::NONE),
            "C16.Cr3_read_pcid.decodes_register: one mov from cr3, register unchanged"
        );
    }

    //@ obligation C16 C16.Cr3_update.read_f_write
    #[kani::proof]
    fn c16_cr3_update_read_f_write() {
        verif_hw::reset_symbolic();
        let before = *verif_hw::m();
        let old = before.cr3;
        let (chosen_frame, chosen_addr) = any_frame();
        let chosen_flags = Cr3Flags::from_bits_retain(kani::any::<u64>() & CR3_FLAG_BITS);
        kani::cover!(true, "c16_cr3_update_read_f_write: reachable");
        let mut calls: u8 = 0;
        let mut seen: (u64, u64) = (0, 0);
        let mut writes_before_f: usize = 0;
        unsafe {
            Cr3::update(|fr, fl| {
                calls += 1;
                seen = (fr.start_address().as_u64(), fl.bits());
                writes_before_f = verif_hw::count(Kind::MovToCr);
                *fr = chosen_frame;
                *fl = chosen_flags;
            })
        };
        let m = verif_hw::m();
        let expect = chosen_addr | chosen_flags.bits();
        assert!(calls == 1, "C16.Cr3_update.read_f_write: f runs exactly once");
        assert!(
            seen == (old & PHYS_FRAME_MASK, old & CR3_FLAG_BITS),
            "C16.Cr3_update.read_f_write: f sees the typed read of the old value"
        );
        assert!(writes_before_f == 0, "C16.Cr3_update.read_f_write: nothing is written before f ran");
        assert!(m.cr3 == expect, "C16.Cr3_update.read_f_write: the result of f is written like Cr3::write");
        assert!(
            m.only_events_are((Kind::MovFromCr, 3, old, 0), (Kind::MovToCr, 3, expect, 0))
                && m.regs_same_except(&before, field::CR3),
            "C16.Cr3_update.read_f_write: one mov from cr3, then exactly one mov to cr3, nothing else changes"
        );
    }

    //@ obligation C16 C16.Cr3_update_pcid.read_f_write
    #[kani::proof]
    fn c16_cr3_update_pcid_read_f_write() {
        verif_hw::reset_symbolic();
        let before = *verif_hw::m();
        let old = before.cr3;
        let (chosen_frame, chosen_addr) = any_frame();
        let chosen_pcid = any_pcid();
        kani::cover!(true, "c16_cr3_update_pcid_read_f_write: reachable");
        let mut calls: u8 = 0;
        let mut seen: (u64, u64) = (0, 0);
        let mut writes_before_f: usize = 0;
        unsafe {
            Cr3::update_pcid(|fr, pc| {
                calls += 1;
                seen = (fr.start_address().as_u64(), pc.value() as u64);
                writes_before_f = verif_hw::count(Kind::MovToCr);
                *fr = chosen_frame;
                *pc = chosen_pcid;
            })
        };
        let m = verif_hw::m();
        let expect = chosen_addr | chosen_pcid.value() as u64;
        assert!(calls == 1, "C16.Cr3_update_pcid.read_f_write: f runs exactly once");
        assert!(
            seen == (old & PHYS_FRAME_MASK, old & 0xfff),
            "C16.Cr3_update_pcid.read_f_write: f sees read_pcid of the old value"
        );
        assert!(writes_before_f == 0, "C16.Cr3_update_pcid.read_f_write: nothing is written before f ran");
        assert!(
            m.only_events_are((Kind::MovFromCr, 3, old, 0), (Kind::MovToCr, 3, expect, 0))
                && m.cr3 == expect
                && m.regs_same_except(&before, field::CR3),
            "C16.Cr3_update_pcid.read_f_write: the result of f is written like write_pcid (bit 63 clear), one read, one write"
        );
    }

    //@ obligation C16 C16.Cr3_update_pcid_no_flush.read_f_write
    #[kani::proof]
    fn c16_cr3_update_pcid_no_flush_read_f_write() {
        verif_hw::reset_symbolic();
        let before = *verif_hw::m();
        let old = before.cr3;
        let (chosen_frame, chosen_addr) = any_frame();
        let chosen_pcid = any_pcid();
        kani::cover!(true, "c16_cr3_update_pcid_no_flush_read_f_write: reachable");
        let mut calls: u8 = 0;
        let mut seen: (u64, u64) = (0, 0);
        let mut writes_before_f: usize = 0;
        unsafe {
            Cr3::update_pcid_no_flush(|fr, pc| {
                calls += 1;
                seen = (fr.start_address().as_u64(), pc.value() as u64);
                writes_before_f = verif_hw::count(Kind::MovToCr);
                *fr = chosen_frame;
                *pc = chosen_pcid;
            })
        };
        let m = verif_hw::m();
        let expect = (1u64 << 63) | chosen_addr | chosen_pcid.value() as u64;
        assert!(calls == 1, "C16.Cr3_update_pcid_no_flush.read_f_write: f runs exactly once");
        assert!(
            seen == (old & PHYS_FRAME_MASK, old & 0xfff),
            "C16.Cr3_update_pcid_no_flush.read_f_write: f sees read_pcid of the old value"
        );
        assert!(
            writes_before_f == 0,
            "C16.Cr3_update_pcid_no_flush.read_f_write: nothing is written before f ran"
        );
        assert!(
            m.only_events_are((Kind::MovFromCr, 3, old, 0), (Kind::MovToCr, 3, expect, 0))
                && m.regs_same_except(&before, field::CR3),
            "C16.Cr3_update_pcid_no_flush.read_f_write: the result of f is written with bit 63 set, one read, one write"
        );
    }

    // ---------------------------------------------------------------- CR4

    //@ obligation C16 C16.Cr4_read.truncated_raw
    #[kani::proof]
    fn c16_cr4_read_truncated_raw() {
        verif_hw::reset_symbolic();
        let before = *verif_hw::m();
        let old = before.cr4;
        kani::cover!(true, "c16_cr4_read_truncated_raw: reachable");
        let r = Cr4::read();
        let raw = Cr4::read_raw();
        assert!(
            r.bits() == old & CR4_MODELLED,
            "C16.Cr4_read.truncated_raw: typed read == raw & MODELLED"
        );
        assert!(raw == old, "C16.Cr4_read.truncated_raw: read_raw returns the register");
        let m = verif_hw::m();
        assert!(
            m.only_events_are((Kind::MovFromCr, 4, old, 0), (Kind::MovFromCr, 4, old, 0))
                && m.regs_same_except(&before, field::NONE),
            "C16.Cr4_read.truncated_raw: each read is one mov from cr4, no register changes"
        );
    }

    //@ obligation C16 C16.Cr4_write_raw.stores_exactly
    #[kani::proof]
    fn c16_cr4_write_raw_stores_exactly() {
        verif_hw::reset_symbolic();
        let before = *verif_hw::m();
        let v: u64 = kani::any();
        kani::cover!(true, "c16_cr4_write_raw_stores_exactly: reachable");
        unsafe { Cr4::write_raw(v) };
        let m = verif_hw::m();
        assert!(m.cr4 == v, "C16.Cr4_write_raw.stores_exactly: cr4 == value");
        assert!(
            m.regs_same_except(&before, field::CR4),
            "C16.Cr4_write_raw.stores_exactly: no other register changes"
        );
        assert!(
            m.only_event_is(Kind::MovToCr, 4, v, 0),
            "C16.Cr4_write_raw.stores_exactly: exactly one mov to cr4"
        );
    }

    //@ obligation C16 C16.Cr4_write.preserves_unmodelled
    #[kani::proof]
    fn c16_cr4_write_preserves_unmodelled() {
        verif_hw::reset_symbolic();
        let before = *verif_hw::m();
        let flags = Cr4Flags::from_bits_retain(kani::any::<u64>() & CR4_MODELLED);
        kani::cover!(true, "c16_cr4_write_preserves_unmodelled: reachable");
        unsafe { Cr4::write(flags) };
        let expect = (before.cr4 & !CR4_MODELLED) | flags.bits();
        {
            let m = verif_hw::m();
            assert!(
                m.cr4 == expect,
                "C16.Cr4_write.preserves_unmodelled: new == (old & !MODELLED) | flags"
            );
            assert!(
                m.regs_same_except(&before, field::CR4),
                "C16.Cr4_write.preserves_unmodelled: no other register changes"
            );
            assert!(
                m.count(Kind::MovToCr) == 1 && !m.log_overflow && !m.unknown_asm_hit,
                "C16.Cr4_write.preserves_unmodelled: exactly one control register write"
            );
            assert!(
                m.only_events_are((Kind::MovFromCr, 4, before.cr4, 0), (Kind::MovToCr, 4, expect, 0)),
                "C16.Cr4_write.preserves_unmodelled: the write is the last event and targets cr4"
            );
        }
        assert!(
            Cr4::read() == flags,
            "C16.Cr4_write.preserves_unmodelled: the next typed read returns the flags written"
        );
    }

    //@ obligation C16 C16.Cr4_update.read_f_write
    #[kani::proof]
    fn c16_cr4_update_read_f_write() {
        verif_hw::reset_symbolic();
        let before = *verif_hw::m();
        let old = before.cr4;
        let chosen = Cr4Flags::from_bits_retain(kani::any::<u64>() & CR4_MODELLED);
        kani::cover!(true, "c16_cr4_update_read_f_write: reachable");
        let mut calls: u8 = 0;
        let mut seen: u64 = 0;
        let mut writes_before_f: usize = 0;
        unsafe {
            Cr4::update(|f| {
                calls += 1;
                seen = f.bits();
                writes_before_f = verif_hw::count(Kind::MovToCr);
                *f = chosen;
            })
        };
        let m = verif_hw::m();
        assert!(calls == 1, "C16.Cr4_update.read_f_write: f runs exactly once");
        assert!(
            seen == old & CR4_MODELLED,
            "C16.Cr4_update.read_f_write: f sees the typed read of the old value"
        );
        assert!(writes_before_f == 0, "C16.Cr4_update.read_f_write: nothing is written before f ran");
        assert!(
            m.cr4 == (old & !CR4_MODELLED) | chosen.bits(),
            "C16.Cr4_update.read_f_write: the result of f is written like Cr4::write"
        );
        assert!(
            m.count(Kind::MovToCr) == 1 && !m.log_overflow && !m.unknown_asm_hit,
            "C16.Cr4_update.read_f_write: exactly one control register write"
        );
        assert!(
            m.log_len == 3 && m.event(2).is(Kind::MovToCr, 4, m.cr4, 0) && m.regs_same_except(&before, field::CR4),
            "C16.Cr4_update.read_f_write: the write is the last event, targets cr4, nothing else changes"
        );
    }
}
