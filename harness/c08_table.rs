//@ include-into src/structures/paging/page_table.rs
//
// C08, part 2: `PageTable` is exactly 512 eight-byte little-endian entries in
// index order in one 4 KiB-aligned 4 KiB block; every access path addresses
// the same slots; new / zero / is_empty agree that empty == 4096 zero bytes.
//
// Everything is checked on the REAL type (no model of the table). Addresses
// are compared as integers (`as usize`) against `base + 8 * i`, bytes are
// read through a `*const u8` derived from the table's base pointer, so the
// claims are about memory layout and not about API round trips.
//
// Loops: the iterators are walked with `for` loops whose bound is the
// constant 512 (`#[kani::unwind(513)]`, unwinding assertions on), and inside
// the loop the expected address is computed from the concrete iteration
// count, i.e. all 512 slots are checked individually. No loop has a symbolic
// bound. `zero()` and `is_empty()` contain one constant-bound loop each.
//
// Measured earlier (memory of the design round): several page tables in ONE
// array make Kani hang; every table here is a separate local.
#[cfg(kani)]
#[allow(unused_imports, clippy::all)]
mod verif_c08_table {
    use super::*;

    /// "the call returned although the input is invalid": see lib/C19_NOTES.md.
    #[inline(never)]
    fn returned_on_invalid_input() {
        unsafe { core::hint::unreachable_unchecked() }
    }

    fn base_of(t: &PageTable) -> usize {
        t as *const PageTable as usize
    }

    fn addr_of(e: &PageTableEntry) -> usize {
        e as *const PageTableEntry as usize
    }

    /// A table whose 512 words are unconstrained.
    fn any_table() -> PageTable {
        let words: [u64; 512] = kani::any();
        // same size (checked by rustc for transmute), every bit pattern is a valid PageTable
        unsafe { core::mem::transmute::<[u64; 512], PageTable>(words) }
    }

    // ------------------------------------------------------------------ constants

    //@ obligation C08 C08.PageTable_layout.size_4096_align_4096
    //@ obligation C08 C08.PageTableEntry_layout.size_8
    #[kani::proof]
    fn c08_table_size_align() {
        kani::cover!(true, "c08_table_size_align: reachable");
        assert!(
            core::mem::size_of::<PageTable>() == 4096,
            "C08.PageTable_layout.size_4096_align_4096: size_of == 4096"
        );
        assert!(
            core::mem::align_of::<PageTable>() == 4096,
            "C08.PageTable_layout.size_4096_align_4096: align_of == 4096"
        );
        assert!(
            core::mem::size_of::<PageTableEntry>() == 8 && core::mem::align_of::<PageTableEntry>() == 8,
            "C08.PageTableEntry_layout.size_8: an entry is one naturally aligned 8-byte word"
        );
    }

    // ------------------------------------------------- indexing, symbolic slot i

    // Index<usize>, IndexMut<usize>, Index<PageTableIndex>, IndexMut<PageTableIndex>
    // all address base + 8*i; a store through one path is seen through the others.
    //@ obligation C08 C08.PageTable_index_usize.slot_at_base_plus_8i
    //@ obligation C08 C08.PageTable_index_mut_usize.slot_at_base_plus_8i
    //@ obligation C08 C08.PageTable_index_table_index.slot_at_base_plus_8i
    //@ obligation C08 C08.PageTable_index_mut_table_index.slot_at_base_plus_8i
    //@ obligation C08 C08.PageTable_index_usize.returns_if_lt_512
    #[kani::proof]
    fn c08_table_index_paths_same_slot() {
        let mut t = PageTable::new();
        let i: usize = kani::any();
        kani::assume(i < 512);
        let v: u64 = kani::any();
        kani::cover!(true, "c08_table_index_paths_same_slot: reachable");
        let base = base_of(&t);
        let want = base + 8 * i;
        assert!(
            addr_of(&t[i]) == want,
            "C08.PageTable_index_usize.slot_at_base_plus_8i: &t[i] == base + 8*i"
        );
        let pti = PageTableIndex::new(i as u16);
        assert!(
            addr_of(&t[pti]) == want,
            "C08.PageTable_index_table_index.slot_at_base_plus_8i: &t[PageTableIndex(i)] == base + 8*i"
        );
        let p_mut = &mut t[i] as *mut PageTableEntry as usize;
        assert!(
            p_mut == want,
            "C08.PageTable_index_mut_usize.slot_at_base_plus_8i: &mut t[i] == base + 8*i"
        );
        let p_mut2 = &mut t[pti] as *mut PageTableEntry as usize;
        assert!(
            p_mut2 == want,
            "C08.PageTable_index_mut_table_index.slot_at_base_plus_8i: &mut t[PageTableIndex(i)] == base + 8*i"
        );
        // aliasing, observed: store through IndexMut<usize>, read through the other paths
        t[i].entry = v;
        assert!(
            t[pti].entry == v && t.entries[i].entry == v,
            "C08.PageTable_index_table_index.slot_at_base_plus_8i: reads the word stored through t[i]"
        );
        let w: u64 = kani::any();
        t[pti].entry = w;
        assert!(
            t[i].entry == w,
            "C08.PageTable_index_mut_table_index.slot_at_base_plus_8i: t[i] reads the word stored through t[PageTableIndex(i)]"
        );
    }

    //@ obligation C08 C08.PageTable_index_usize.panics_if_ge_512
    #[kani::proof]
    #[kani::should_panic]
    fn c08_table_index_usize_rejects_ge_512() {
        let t = PageTable::new();
        let i: usize = kani::any();
        kani::assume(i >= 512);
        kani::cover!(true, "c08_table_index_usize_rejects_ge_512: reachable");
        let _e = &t[i];
        returned_on_invalid_input();
    }

    //@ obligation C08 C08.PageTable_index_mut_usize.panics_if_ge_512
    #[kani::proof]
    #[kani::should_panic]
    fn c08_table_index_mut_usize_rejects_ge_512() {
        let mut t = PageTable::new();
        let i: usize = kani::any();
        kani::assume(i >= 512);
        kani::cover!(true, "c08_table_index_mut_usize_rejects_ge_512: reachable");
        let _e = &mut t[i];
        returned_on_invalid_input();
    }

    // ----------------------------------------------------- bytes: little endian

    // The word stored in slot i is found, least significant byte first, in the
    // eight bytes at base + 8*i .. base + 8*i + 8 (symbolic slot, symbolic byte).
    //@ obligation C08 C08.PageTable_layout.entries_little_endian_in_index_order
    #[kani::proof]
    #[kani::solver(minisat)] // measured: 20 s instead of 63 s with the default solver
    fn c08_table_bytes_little_endian() {
        let mut t = PageTable::new();
        let i: usize = kani::any();
        kani::assume(i < 512);
        let k: usize = kani::any();
        kani::assume(k < 8);
        let a: u64 = kani::any();
        kani::assume(a < (1u64 << 52) && a & 0xfff == 0);
        let x: u64 = kani::any();
        kani::assume(x & !0xfff0_0000_0000_0fffu64 == 0);
        kani::cover!(true, "c08_table_bytes_little_endian: reachable");
        // store through the public API
        t[i].set_addr(PhysAddr::new(a), PageTableFlags::from_bits_truncate(x));
        let raw = a | x;
        let bytes = &t as *const PageTable as *const u8;
        let b = unsafe { *bytes.add(8 * i + k) };
        assert!(
            b == (raw >> (8 * k)) as u8,
            "C08.PageTable_layout.entries_little_endian_in_index_order: byte k of slot i is bits 8k..8k+7 of the entry"
        );
        let word = unsafe { core::ptr::read_unaligned(bytes.add(8 * i) as *const u64) };
        assert!(
            u64::from_le(word) == raw,
            "C08.PageTable_layout.entries_little_endian_in_index_order: the u64 at base + 8*i is the little-endian entry"
        );
    }

    // A store to slot i (through the public API) changes no byte of the table outside
    // base + 8*i .. base + 8*i + 8 (symbolic slot, symbolic other byte; the table is fresh, so
    // "unchanged" is "still zero").
    //@ obligation C08 C08.PageTable_layout.store_to_slot_leaves_other_bytes
    #[kani::proof]
    fn c08_table_store_leaves_other_bytes() {
        let mut t = PageTable::new();
        let i: usize = kani::any();
        kani::assume(i < 512);
        let a: u64 = kani::any();
        kani::assume(a < (1u64 << 52) && a & 0xfff == 0);
        let x: u64 = kani::any();
        kani::assume(x & !0xfff0_0000_0000_0fffu64 == 0);
        let j: usize = kani::any();
        kani::assume(j < 4096 && (j < 8 * i || j >= 8 * i + 8));
        kani::cover!(true, "c08_table_store_leaves_other_bytes: reachable");
        t[i].set_addr(PhysAddr::new(a), PageTableFlags::from_bits_truncate(x));
        let bytes = &t as *const PageTable as *const u8;
        let other = unsafe { *bytes.add(j) };
        assert!(
            other == 0,
            "C08.PageTable_layout.store_to_slot_leaves_other_bytes: a store to slot i leaves every other byte"
        );
    }

    // ---------------------------------------------------------------- iterators

    // iter(): exactly 512 items, item k is the slot at base + 8*k (all 512
    // checked, k is concrete after unwinding). Also tagged for C10 / C01: clean_up decides "this table is
    // empty" with `iter().all(is_unused)` and scans with `iter_mut()`; a table whose only entry sits in a slot
    // the iterator skips would be freed while in use (seed C01-r4m1).
    //@ obligation C08 C08.PageTable_iter.kth_item_is_slot_k
    //@ obligation C10 C10.PageTable_iter.kth_item_is_slot_k
    //@ obligation C01 C01.PageTable_iter.kth_item_is_slot_k
    //@ obligation C08 C08.PageTable_iter.yields_512
    //@ obligation C10 C10.PageTable_iter.yields_512
    //@ obligation C01 C01.PageTable_iter.yields_512
    #[kani::proof]
    #[kani::unwind(513)]
    fn c08_table_iter_slots() {
        let t = PageTable::new();
        kani::cover!(true, "c08_table_iter_slots: reachable");
        let base = base_of(&t);
        let mut k: usize = 0;
        for e in t.iter() {
            assert!(
                addr_of(e) == base + 8 * k,
                "C08.PageTable_iter.kth_item_is_slot_k: item k is at base + 8*k"
            );
            k += 1;
        }
        assert!(k == 512, "C08.PageTable_iter.yields_512: iter() yields exactly 512 items");
    }

    //@ obligation C08 C08.PageTable_iter_mut.kth_item_is_slot_k
    //@ obligation C10 C10.PageTable_iter_mut.kth_item_is_slot_k
    //@ obligation C01 C01.PageTable_iter_mut.kth_item_is_slot_k
    //@ obligation C08 C08.PageTable_iter_mut.yields_512
    //@ obligation C10 C10.PageTable_iter_mut.yields_512
    //@ obligation C01 C01.PageTable_iter_mut.yields_512
    #[kani::proof]
    #[kani::unwind(513)]
    fn c08_table_iter_mut_slots() {
        let mut t = PageTable::new();
        kani::cover!(true, "c08_table_iter_mut_slots: reachable");
        let base = base_of(&t);
        let mut k: usize = 0;
        for e in t.iter_mut() {
            assert!(
                e as *mut PageTableEntry as usize == base + 8 * k,
                "C08.PageTable_iter_mut.kth_item_is_slot_k: item k is at base + 8*k"
            );
            k += 1;
        }
        assert!(k == 512, "C08.PageTable_iter_mut.yields_512: iter_mut() yields exactly 512 items");
    }

    // A store through the i-th item of iter_mut() is read back through t[i]
    // (symbolic i, observed aliasing; iter() is tied to the same slots by address above).
    //@ obligation C08 C08.PageTable_iter_mut.store_seen_by_index
    #[kani::proof]
    #[kani::unwind(513)]
    #[kani::solver(minisat)] // measured: 45 s instead of 58 s with the default solver
    fn c08_table_iter_mut_store_seen() {
        let mut t = PageTable::new();
        let i: usize = kani::any();
        kani::assume(i < 512);
        let v: u64 = kani::any();
        kani::cover!(true, "c08_table_iter_mut_store_seen: reachable");
        let mut k: usize = 0;
        for e in t.iter_mut() {
            if k == i {
                e.entry = v;
            }
            k += 1;
        }
        assert!(
            t[i].entry == v,
            "C08.PageTable_iter_mut.store_seen_by_index: t[i] reads the word stored through item i"
        );
    }

    // --------------------------------------------------------- new / zero / empty

    //@ obligation C08 C08.PageTable_new.all_4096_bytes_zero
    #[kani::proof]
    fn c08_table_new_zero_bytes() {
        let t = PageTable::new();
        let j: usize = kani::any();
        kani::assume(j < 4096);
        kani::cover!(true, "c08_table_new_zero_bytes: reachable");
        let bytes = &t as *const PageTable as *const u8;
        assert!(
            unsafe { *bytes.add(j) } == 0,
            "C08.PageTable_new.all_4096_bytes_zero: every byte of PageTable::new() is zero"
        );
        let d = <PageTable as Default>::default();
        let dbytes = &d as *const PageTable as *const u8;
        assert!(
            unsafe { *dbytes.add(j) } == 0,
            "C08.PageTable_new.all_4096_bytes_zero: every byte of PageTable::default() is zero"
        );
    }

    /// A table between two guard blocks that touch it on both sides
    /// (`before` is 4096 bytes, so with repr(C) the table starts right after it).
    #[repr(C)]
    struct Guarded {
        before: [u64; 512],
        table: PageTable,
        after: [u64; 8],
    }

    // zero(): from ANY prior contents every byte of the table is zero afterwards
    // (symbolic byte index => all 4096), every slot is unused, and the words
    // directly before and after the table keep their (symbolic) values.
    //@ obligation C08 C08.PageTable_zero.every_slot_unused tier=thorough
    //@ obligation C08 C08.PageTable_zero.all_4096_bytes_zero tier=thorough
    //@ obligation C08 C08.PageTable_zero.writes_nothing_outside tier=thorough
    #[kani::proof]
    #[kani::unwind(513)]
    fn c08_table_zero_clears_all_and_only_table() {
        let gb: u64 = kani::any();
        let ga: u64 = kani::any();
        let mut g = Guarded {
            before: [gb; 512],
            table: any_table(),
            after: [ga; 8],
        };
        let i: usize = kani::any();
        kani::assume(i < 512);
        let j: usize = kani::any();
        kani::assume(j < 4096);
        let kb: usize = kani::any();
        kani::assume(kb < 512);
        let ka: usize = kani::any();
        kani::assume(ka < 8);
        kani::cover!(true, "c08_table_zero_clears_all_and_only_table: reachable");
        assert!(
            &g.table as *const PageTable as usize == &g.before as *const [u64; 512] as usize + 4096
                && &g.after as *const [u64; 8] as usize == &g.table as *const PageTable as usize + 4096,
            "C08.PageTable_zero.writes_nothing_outside: (harness) the guards touch the table"
        );
        g.table.zero();
        assert!(
            g.table[i].is_unused(),
            "C08.PageTable_zero.every_slot_unused: slot i is unused after zero()"
        );
        let bytes = &g.table as *const PageTable as *const u8;
        assert!(
            unsafe { *bytes.add(j) } == 0,
            "C08.PageTable_zero.all_4096_bytes_zero: byte j is zero after zero()"
        );
        assert!(
            g.before[kb] == gb && g.after[ka] == ga,
            "C08.PageTable_zero.writes_nothing_outside: the words around the table are unchanged"
        );
    }

    // is_empty() iff all 512 words are zero, in two halves:
    // (a) the all-zero table (there is only one) is empty;
    // (b) ANY table with a non-zero word in some slot i is not empty.
    //@ obligation C08 C08.PageTable_is_empty.true_if_all_zero
    #[kani::proof]
    #[kani::unwind(513)]
    fn c08_table_is_empty_all_zero() {
        let t = PageTable::new();
        kani::cover!(true, "c08_table_is_empty_all_zero: reachable");
        assert!(
            t.is_empty(),
            "C08.PageTable_is_empty.true_if_all_zero: the all-zero table is empty"
        );
    }

    //@ obligation C08 C08.PageTable_is_empty.false_if_any_word_nonzero tier=thorough
    #[kani::proof]
    #[kani::unwind(513)]
    fn c08_table_is_empty_false_if_nonzero() {
        let t = any_table();
        let i: usize = kani::any();
        kani::assume(i < 512);
        kani::assume(t.entries[i].entry != 0);
        kani::cover!(true, "c08_table_is_empty_false_if_nonzero: reachable");
        assert!(
            !t.is_empty(),
            "C08.PageTable_is_empty.false_if_any_word_nonzero: a table with a non-zero word is not empty"
        );
    }

    // (No quick-tier stand-in for (b): as soon as ONE word of the table is symbolic the 512-fold
    // unwinding of `all()` costs ~0.35 s per iteration wherever that word is; measured 162 s with a
    // symbolic word in slot 511 only, 183 s with one in one of five concrete slots, 262 s with a
    // symbolic slot index, 181 s for the general harness above. So the general harness is as cheap
    // as any stand-in, and the quick tier has only the `true_if_all_zero` half: an `all` -> `any`
    // mutant is seen by the thorough tier only.)

    // new / zero / is_empty agree: zero() of any table gives an empty table.
    //@ obligation C08 C08.PageTable_zero.then_is_empty tier=thorough
    #[kani::proof]
    #[kani::unwind(513)]
    fn c08_table_zero_then_is_empty() {
        let mut t = any_table();
        kani::cover!(true, "c08_table_zero_then_is_empty: reachable");
        t.zero();
        assert!(
            t.is_empty(),
            "C08.PageTable_zero.then_is_empty: is_empty() after zero()"
        );
    }

    // Clone copies all 512 words (symbolic contents, symbolic slot).
    //@ obligation C08 C08.PageTable_clone.same_words tier=thorough
    #[kani::proof]
    fn c08_table_clone_same_words() {
        let t = any_table();
        let i: usize = kani::any();
        kani::assume(i < 512);
        kani::cover!(true, "c08_table_clone_same_words: reachable");
        let c = t.clone();
        assert!(
            c.entries[i].entry == t.entries[i].entry,
            "C08.PageTable_clone.same_words: word i of the clone equals word i of the original"
        );
    }
}
