//@ include-into src/structures/paging/mapper/mapped_page_table.rs
//
// C01 / C02 / C09 / C11 step harnesses for the parent-flag calls `set_flags_p4_entry`,
// `set_flags_p3_entry`, `set_flags_p2_entry` (4 KiB, 2 MiB, 1 GiB) of MappedPageTable<P> over the
// 7-table pool of c01_pool.rs. Same scheme as c01_step_map.rs.
//
// What the calls are documented to do: replace the flags of the EXISTING level-N entry on the
// page's path (the address stays), and answer PageNotMapped when an entry on the way is absent and
// ParentEntryHugePage when "an upper level page table entry has the HUGE_PAGE flag set, which means
// that the given page is part of a huge page". A parent-flag call changes no leaf: frame, size and
// leaf flags of every address stay as they were (C01).
//
// Shapes: p4_absent, p3_absent, p2_absent (an entry at or above level N is 0), p3_huge (a larger
// huge page above level N), pN_table (the level-N entry points to a table: the defined success
// case), huge_leaf (the level-N entry itself is the leaf of a 1 GiB / 2 MiB page: the page lies
// inside a huge page, so C02 demands ParentEntryHugePage and no change).
// Levels that do not exist above the leaf of the page size (P3/P2 for 1 GiB, P2 for 2 MiB) must
// fail and change nothing, whatever the state (`shape_any`).

#[cfg(kani)]
mod verif_c01_step_flags {
    use super::verif_c01_pool::*;
    use super::*;

    const OK: u8 = 0;
    const E_NOT_MAPPED: u8 = 1;
    const E_PARENT_HUGE: u8 = 2;

    /// Documented outcome of set_flags_p<N>_entry, `n` = level index of that entry (P4 = 0).
    fn model_outcome(sh: Shape, pre: &Pre, n: usize) -> u8 {
        match model_reach(sh, pre, n) {
            NOT_MAPPED_ABOVE => E_NOT_MAPPED,
            HUGE_ABOVE => E_PARENT_HUGE,
            _ => match entry_kind(sh, pre, n) {
                E_ABSENT => E_NOT_MAPPED,
                E_TABLE => OK,
                // the entry is itself a huge leaf: the page is part of a huge page
                _ => E_PARENT_HUGE,
            },
        }
    }

    macro_rules! ob {
        ($prop:literal, $lv:literal, $sz:literal, $shape:literal, $clause:literal) => {
            concat!($prop, ".set_flags_", $lv, "_entry_", $sz, ".shape_", $shape, ".", $clause)
        };
    }

    macro_rules! set_flags_step {
        ($S:ty, $sz:literal, $shape:literal, $SH:expr, $ix:expr, $method:ident, $lv:literal, $n:expr) => {{
            let ix: Idx = $ix;
            let sh: Shape = $SH;
            mk_pool!(pool);
            let pre = build_path(&pool, &ix, sh);
            add_background(&pool, &ix);
            let page: Page<$S> = page_of::<$S>(&ix);
            let flags = any_parent_flags();
            let (inside, jx) = any_inside::<$S>(&ix);
            let probe = any_canonical();
            let w_in_pre = hw_walk_ix(&pool, &jx, inside);
            let w_pr_pre = hw_walk(&pool, probe);
            kani::assume(w_in_pre.kind != MALFORMED && w_pr_pre.kind != MALFORMED);
            let (fk, fs, f_pre) = any_slot(&pool);
            const N: usize = $n;
            const APPLICABLE: bool = N < <$S as Sz>::L;

            let mut mapper = unsafe { MappedPageTable::new(&mut *pool.p[0], pool) };
            let res: Result<MapperFlushAll, FlagUpdateError> = unsafe { Mapper::<$S>::$method(&mut mapper, page, flags) };

            let outcome = if APPLICABLE { model_outcome(sh, &pre, N) } else { E_PARENT_HUGE };
            let mut dict = Dict::new();
            if outcome == OK {
                dict.set(N, ix.0[N], (pre.e[N] & ADDR) | flags.bits(), 0);
            }
            let w_in = hw_walk_ix(&pool, &jx, inside);
            let w_pr = hw_walk(&pool, probe);
            let f_post = pool.rd(fk, fs);

            // ---- every clause is evaluated first, then each is checked on its own path (each!)
            let ok = res.is_ok();
            // the level-N entry is itself the leaf of a huge page (the page lies inside a huge page)
            let huge_leaf_case = APPLICABLE && outcome == E_PARENT_HUGE && sh.d == N;
            // a success there is attributed to ONE clause
            let bogus = huge_leaf_case && ok;
            let c_huge_leaf = !huge_leaf_case || (matches!(res, Err(FlagUpdateError::ParentEntryHugePage)) && pool.rd(N, ix.0[N]) == pre.e[N]);
            let c_na = APPLICABLE || !ok;
            let outcome_ok = !APPLICABLE
                || huge_leaf_case
                || match &res {
                    Ok(_) => outcome == OK,
                    Err(FlagUpdateError::PageNotMapped) => outcome == E_NOT_MAPPED,
                    Err(FlagUpdateError::ParentEntryHugePage) => outcome == E_PARENT_HUGE,
                };
            let good = ok && !bogus;
            let c_noleaf = !good || (same_mapping(&w_in_pre, &w_in) && same_mapping(&w_pr_pre, &w_pr));
            let c_entry = !good || !APPLICABLE || pool.rd(N, ix.0[N]) == (pre.e[N] & ADDR) | flags.bits();
            let c_err_same = ok || (same_mapping(&w_in_pre, &w_in) && same_mapping(&w_pr_pre, &w_pr) && rights_only_added(&w_in_pre, &w_in, 0) && rights_only_added(&w_pr_pre, &w_pr, 0));
            let c_wf = bogus || (w_in.kind != MALFORMED && w_pr.kind != MALFORMED);
            let c_frame = bogus || dict.agrees(fk, fs, f_pre, f_post);
            let g = ghost();
            let c_noalloc = g.seq == 0 && g.zero_elsewhere == 0;
            let c_outside = g.outside == 0;
            each! {
                c_na => ob!("C02", $lv, $sz, $shape, "level_above_leaf_does_not_exist_is_error: a page of this size has no parent entry at this level"),
                c_huge_leaf => ob!("C02", $lv, $sz, $shape, "reports_parent_entry_huge_page_and_unchanged: the page lies inside a huge page whose leaf is this entry; ParentEntryHugePage and the leaf bit-identical"),
                outcome_ok => ob!("C02", $lv, $sz, $shape, "documented_outcome: Ok iff the entry exists and points to a table, PageNotMapped iff an entry down to this level is absent, ParentEntryHugePage iff the page lies inside a huge page"),
                // C11: a change to a parent entry returns the flush-all token: Result<MapperFlushAll, _> by type
                true => ob!("C11", $lv, $sz, $shape, "flush_all_token"),
                c_noleaf => ob!("C01", $lv, $sz, $shape, "no_leaf_changes: frame, size and leaf flags of the target and of an arbitrary address as before"),
                c_entry => ob!("C01", $lv, $sz, $shape, "entry_flags_replaced_address_kept: the level-N entry holds its old address with exactly the given flags"),
                c_err_same => ob!("C02", $lv, $sz, $shape, "error_leaves_every_mapping: frame, size, leaf flags and rights of the target and of an arbitrary address as before"),
                c_wf => ob!("C09", $lv, $sz, $shape, "no_dangling_table_pointer: every present non-leaf entry still points to a page table"),
                c_frame => ob!("C09", $lv, $sz, $shape, "only_dictated_slots_change: only the level-N entry of a successful call changes; nothing else is written"),
                c_noalloc => ob!("C09", $lv, $sz, $shape, "no_frames_requested_or_zeroed: the call has no allocator and never runs zero()"),
                c_outside => ob!("C09", $lv, $sz, $shape, "no_access_outside_page_tables: no pointer was requested for a frame that is not a page table of the hierarchy"),
            }
            kani::cover(outcome == OK, concat!("set_flags_", $lv, "_", $sz, " ", $shape, ": Ok"));
            kani::cover(outcome == E_NOT_MAPPED, concat!("set_flags_", $lv, "_", $sz, " ", $shape, ": PageNotMapped"));
            kani::cover(outcome == E_PARENT_HUGE, concat!("set_flags_", $lv, "_", $sz, " ", $shape, ": ParentEntryHugePage"));
        }};
    }

    //@ obligation C02 C02.set_flags_p4_entry_4kib.shape_p4_absent.documented_outcome bounded="pool of 7 tables (4 path + 3 allocatable); tree-shaped sparse pre-state (target path, one neighbour word per path table, garbage in allocatable frames); page-table indices (0,1,511,2)"
    //@ obligation C02 C02.set_flags_p4_entry_4kib.shape_p4_absent.error_leaves_every_mapping bounded="pool of 7 tables (4 path + 3 allocatable); tree-shaped sparse pre-state (target path, one neighbour word per path table, garbage in allocatable frames); page-table indices (0,1,511,2)"
    //@ obligation C09 C09.set_flags_p4_entry_4kib.shape_p4_absent.only_dictated_slots_change bounded="pool of 7 tables (4 path + 3 allocatable); tree-shaped sparse pre-state (target path, one neighbour word per path table, garbage in allocatable frames); page-table indices (0,1,511,2)"
    //@ obligation C09 C09.set_flags_p4_entry_4kib.shape_p4_absent.no_frames_requested_or_zeroed bounded="pool of 7 tables (4 path + 3 allocatable); tree-shaped sparse pre-state (target path, one neighbour word per path table, garbage in allocatable frames); page-table indices (0,1,511,2)"
    //@ obligation C09 C09.set_flags_p4_entry_4kib.shape_p4_absent.no_dangling_table_pointer bounded="pool of 7 tables (4 path + 3 allocatable); tree-shaped sparse pre-state (target path, one neighbour word per path table, garbage in allocatable frames); page-table indices (0,1,511,2)"
    //@ obligation C09 C09.set_flags_p4_entry_4kib.shape_p4_absent.no_access_outside_page_tables bounded="pool of 7 tables (4 path + 3 allocatable); tree-shaped sparse pre-state (target path, one neighbour word per path table, garbage in allocatable frames); page-table indices (0,1,511,2)"
    #[kani::proof]
    #[kani::stub(PageTable::zero, zero_stub)]
    fn c02_set_flags_p4_entry_4kib_p4_absent_lo() {
        set_flags_step!(Size4KiB, "4kib", "p4_absent", P4_ABSENT, IDX_LO, set_flags_p4_entry, "p4", 0);
        kani::cover!(true, "c02_set_flags_p4_entry_4kib_p4_absent_lo: reachable");
    }

    //@ obligation C02 C02.set_flags_p4_entry_4kib.shape_p4_absent.documented_outcome tier=thorough bounded="pool of 7 tables (4 path + 3 allocatable); tree-shaped sparse pre-state (target path, one neighbour word per path table, garbage in allocatable frames); page-table indices (511,510,1,0)"
    //@ obligation C02 C02.set_flags_p4_entry_4kib.shape_p4_absent.error_leaves_every_mapping tier=thorough bounded="pool of 7 tables (4 path + 3 allocatable); tree-shaped sparse pre-state (target path, one neighbour word per path table, garbage in allocatable frames); page-table indices (511,510,1,0)"
    //@ obligation C09 C09.set_flags_p4_entry_4kib.shape_p4_absent.only_dictated_slots_change tier=thorough bounded="pool of 7 tables (4 path + 3 allocatable); tree-shaped sparse pre-state (target path, one neighbour word per path table, garbage in allocatable frames); page-table indices (511,510,1,0)"
    //@ obligation C09 C09.set_flags_p4_entry_4kib.shape_p4_absent.no_frames_requested_or_zeroed tier=thorough bounded="pool of 7 tables (4 path + 3 allocatable); tree-shaped sparse pre-state (target path, one neighbour word per path table, garbage in allocatable frames); page-table indices (511,510,1,0)"
    //@ obligation C09 C09.set_flags_p4_entry_4kib.shape_p4_absent.no_dangling_table_pointer tier=thorough bounded="pool of 7 tables (4 path + 3 allocatable); tree-shaped sparse pre-state (target path, one neighbour word per path table, garbage in allocatable frames); page-table indices (511,510,1,0)"
    //@ obligation C09 C09.set_flags_p4_entry_4kib.shape_p4_absent.no_access_outside_page_tables tier=thorough bounded="pool of 7 tables (4 path + 3 allocatable); tree-shaped sparse pre-state (target path, one neighbour word per path table, garbage in allocatable frames); page-table indices (511,510,1,0)"
    #[kani::proof]
    #[kani::stub(PageTable::zero, zero_stub)]
    fn c02_set_flags_p4_entry_4kib_p4_absent_hi() {
        set_flags_step!(Size4KiB, "4kib", "p4_absent", P4_ABSENT, IDX_HI, set_flags_p4_entry, "p4", 0);
        kani::cover!(true, "c02_set_flags_p4_entry_4kib_p4_absent_hi: reachable");
    }

    //@ obligation C02 C02.set_flags_p4_entry_4kib.shape_p4_absent.documented_outcome tier=thorough bounded="pool of 7 tables (4 path + 3 allocatable); tree-shaped sparse pre-state (target path, one neighbour word per path table, garbage in allocatable frames); page-table indices (255,511,0,256)"
    //@ obligation C02 C02.set_flags_p4_entry_4kib.shape_p4_absent.error_leaves_every_mapping tier=thorough bounded="pool of 7 tables (4 path + 3 allocatable); tree-shaped sparse pre-state (target path, one neighbour word per path table, garbage in allocatable frames); page-table indices (255,511,0,256)"
    //@ obligation C09 C09.set_flags_p4_entry_4kib.shape_p4_absent.only_dictated_slots_change tier=thorough bounded="pool of 7 tables (4 path + 3 allocatable); tree-shaped sparse pre-state (target path, one neighbour word per path table, garbage in allocatable frames); page-table indices (255,511,0,256)"
    //@ obligation C09 C09.set_flags_p4_entry_4kib.shape_p4_absent.no_frames_requested_or_zeroed tier=thorough bounded="pool of 7 tables (4 path + 3 allocatable); tree-shaped sparse pre-state (target path, one neighbour word per path table, garbage in allocatable frames); page-table indices (255,511,0,256)"
    //@ obligation C09 C09.set_flags_p4_entry_4kib.shape_p4_absent.no_dangling_table_pointer tier=thorough bounded="pool of 7 tables (4 path + 3 allocatable); tree-shaped sparse pre-state (target path, one neighbour word per path table, garbage in allocatable frames); page-table indices (255,511,0,256)"
    //@ obligation C09 C09.set_flags_p4_entry_4kib.shape_p4_absent.no_access_outside_page_tables tier=thorough bounded="pool of 7 tables (4 path + 3 allocatable); tree-shaped sparse pre-state (target path, one neighbour word per path table, garbage in allocatable frames); page-table indices (255,511,0,256)"
    #[kani::proof]
    #[kani::stub(PageTable::zero, zero_stub)]
    fn c02_set_flags_p4_entry_4kib_p4_absent_mid() {
        set_flags_step!(Size4KiB, "4kib", "p4_absent", P4_ABSENT, IDX_MID, set_flags_p4_entry, "p4", 0);
        kani::cover!(true, "c02_set_flags_p4_entry_4kib_p4_absent_mid: reachable");
    }

    //@ obligation C02 C02.set_flags_p4_entry_4kib.shape_p4_absent.documented_outcome tier=thorough bounded="pool of 7 tables (4 path + 3 allocatable); tree-shaped sparse pre-state (target path, one neighbour word per path table, garbage in allocatable frames); page-table indices (256,0,510,511)"
    //@ obligation C02 C02.set_flags_p4_entry_4kib.shape_p4_absent.error_leaves_every_mapping tier=thorough bounded="pool of 7 tables (4 path + 3 allocatable); tree-shaped sparse pre-state (target path, one neighbour word per path table, garbage in allocatable frames); page-table indices (256,0,510,511)"
    //@ obligation C09 C09.set_flags_p4_entry_4kib.shape_p4_absent.only_dictated_slots_change tier=thorough bounded="pool of 7 tables (4 path + 3 allocatable); tree-shaped sparse pre-state (target path, one neighbour word per path table, garbage in allocatable frames); page-table indices (256,0,510,511)"
    //@ obligation C09 C09.set_flags_p4_entry_4kib.shape_p4_absent.no_frames_requested_or_zeroed tier=thorough bounded="pool of 7 tables (4 path + 3 allocatable); tree-shaped sparse pre-state (target path, one neighbour word per path table, garbage in allocatable frames); page-table indices (256,0,510,511)"
    //@ obligation C09 C09.set_flags_p4_entry_4kib.shape_p4_absent.no_dangling_table_pointer tier=thorough bounded="pool of 7 tables (4 path + 3 allocatable); tree-shaped sparse pre-state (target path, one neighbour word per path table, garbage in allocatable frames); page-table indices (256,0,510,511)"
    //@ obligation C09 C09.set_flags_p4_entry_4kib.shape_p4_absent.no_access_outside_page_tables tier=thorough bounded="pool of 7 tables (4 path + 3 allocatable); tree-shaped sparse pre-state (target path, one neighbour word per path table, garbage in allocatable frames); page-table indices (256,0,510,511)"
    #[kani::proof]
    #[kani::stub(PageTable::zero, zero_stub)]
    fn c02_set_flags_p4_entry_4kib_p4_absent_up() {
        set_flags_step!(Size4KiB, "4kib", "p4_absent", P4_ABSENT, IDX_UP, set_flags_p4_entry, "p4", 0);
        kani::cover!(true, "c02_set_flags_p4_entry_4kib_p4_absent_up: reachable");
    }

    //@ obligation C02 C02.set_flags_p4_entry_4kib.shape_p4_table.documented_outcome tier=thorough bounded="pool of 7 tables (4 path + 3 allocatable); tree-shaped sparse pre-state (target path, one neighbour word per path table, garbage in allocatable frames); page-table indices (0,1,511,2)"
    //@ obligation C01 C01.set_flags_p4_entry_4kib.shape_p4_table.no_leaf_changes tier=thorough bounded="pool of 7 tables (4 path + 3 allocatable); tree-shaped sparse pre-state (target path, one neighbour word per path table, garbage in allocatable frames); page-table indices (0,1,511,2)"
    //@ obligation C01 C01.set_flags_p4_entry_4kib.shape_p4_table.entry_flags_replaced_address_kept tier=thorough bounded="pool of 7 tables (4 path + 3 allocatable); tree-shaped sparse pre-state (target path, one neighbour word per path table, garbage in allocatable frames); page-table indices (0,1,511,2)"
    //@ obligation C11 C11.set_flags_p4_entry_4kib.shape_p4_table.flush_all_token tier=thorough bounded="pool of 7 tables (4 path + 3 allocatable); tree-shaped sparse pre-state (target path, one neighbour word per path table, garbage in allocatable frames); page-table indices (0,1,511,2)"
    //@ obligation C09 C09.set_flags_p4_entry_4kib.shape_p4_table.only_dictated_slots_change tier=thorough bounded="pool of 7 tables (4 path + 3 allocatable); tree-shaped sparse pre-state (target path, one neighbour word per path table, garbage in allocatable frames); page-table indices (0,1,511,2)"
    //@ obligation C09 C09.set_flags_p4_entry_4kib.shape_p4_table.no_frames_requested_or_zeroed tier=thorough bounded="pool of 7 tables (4 path + 3 allocatable); tree-shaped sparse pre-state (target path, one neighbour word per path table, garbage in allocatable frames); page-table indices (0,1,511,2)"
    //@ obligation C09 C09.set_flags_p4_entry_4kib.shape_p4_table.no_dangling_table_pointer tier=thorough bounded="pool of 7 tables (4 path + 3 allocatable); tree-shaped sparse pre-state (target path, one neighbour word per path table, garbage in allocatable frames); page-table indices (0,1,511,2)"
    //@ obligation C09 C09.set_flags_p4_entry_4kib.shape_p4_table.no_access_outside_page_tables tier=thorough bounded="pool of 7 tables (4 path + 3 allocatable); tree-shaped sparse pre-state (target path, one neighbour word per path table, garbage in allocatable frames); page-table indices (0,1,511,2)"
    #[kani::proof]
    #[kani::stub(PageTable::zero, zero_stub)]
    fn c01_set_flags_p4_entry_4kib_p4_table_lo() {
        set_flags_step!(Size4KiB, "4kib", "p4_table", P3_ABSENT, IDX_LO, set_flags_p4_entry, "p4", 0);
        kani::cover!(true, "c01_set_flags_p4_entry_4kib_p4_table_lo: reachable");
    }

    //@ obligation C02 C02.set_flags_p4_entry_4kib.shape_p4_table.documented_outcome tier=thorough bounded="pool of 7 tables (4 path + 3 allocatable); tree-shaped sparse pre-state (target path, one neighbour word per path table, garbage in allocatable frames); page-table indices (511,510,1,0)"
    //@ obligation C01 C01.set_flags_p4_entry_4kib.shape_p4_table.no_leaf_changes tier=thorough bounded="pool of 7 tables (4 path + 3 allocatable); tree-shaped sparse pre-state (target path, one neighbour word per path table, garbage in allocatable frames); page-table indices (511,510,1,0)"
    //@ obligation C01 C01.set_flags_p4_entry_4kib.shape_p4_table.entry_flags_replaced_address_kept tier=thorough bounded="pool of 7 tables (4 path + 3 allocatable); tree-shaped sparse pre-state (target path, one neighbour word per path table, garbage in allocatable frames); page-table indices (511,510,1,0)"
    //@ obligation C11 C11.set_flags_p4_entry_4kib.shape_p4_table.flush_all_token tier=thorough bounded="pool of 7 tables (4 path + 3 allocatable); tree-shaped sparse pre-state (target path, one neighbour word per path table, garbage in allocatable frames); page-table indices (511,510,1,0)"
    //@ obligation C09 C09.set_flags_p4_entry_4kib.shape_p4_table.only_dictated_slots_change tier=thorough bounded="pool of 7 tables (4 path + 3 allocatable); tree-shaped sparse pre-state (target path, one neighbour word per path table, garbage in allocatable frames); page-table indices (511,510,1,0)"
    //@ obligation C09 C09.set_flags_p4_entry_4kib.shape_p4_table.no_frames_requested_or_zeroed tier=thorough bounded="pool of 7 tables (4 path + 3 allocatable); tree-shaped sparse pre-state (target path, one neighbour word per path table, garbage in allocatable frames); page-table indices (511,510,1,0)"
    //@ obligation C09 C09.set_flags_p4_entry_4kib.shape_p4_table.no_dangling_table_pointer tier=thorough bounded="pool of 7 tables (4 path + 3 allocatable); tree-shaped sparse pre-state (target path, one neighbour word per path table, garbage in allocatable frames); page-table indices (511,510,1,0)"
    //@ obligation C09 C09.set_flags_p4_entry_4kib.shape_p4_table.no_access_outside_page_tables tier=thorough bounded="pool of 7 tables (4 path + 3 allocatable); tree-shaped sparse pre-state (target path, one neighbour word per path table, garbage in allocatable frames); page-table indices (511,510,1,0)"
    #[kani::proof]
    #[kani::stub(PageTable::zero, zero_stub)]
    fn c01_set_flags_p4_entry_4kib_p4_table_hi() {
        set_flags_step!(Size4KiB, "4kib", "p4_table", P3_ABSENT, IDX_HI, set_flags_p4_entry, "p4", 0);
        kani::cover!(true, "c01_set_flags_p4_entry_4kib_p4_table_hi: reachable");
    }

    //@ obligation C02 C02.set_flags_p4_entry_4kib.shape_p4_table.documented_outcome tier=thorough bounded="pool of 7 tables (4 path + 3 allocatable); tree-shaped sparse pre-state (target path, one neighbour word per path table, garbage in allocatable frames); page-table indices (255,511,0,256)"
    //@ obligation C01 C01.set_flags_p4_entry_4kib.shape_p4_table.no_leaf_changes tier=thorough bounded="pool of 7 tables (4 path + 3 allocatable); tree-shaped sparse pre-state (target path, one neighbour word per path table, garbage in allocatable frames); page-table indices (255,511,0,256)"
    //@ obligation C01 C01.set_flags_p4_entry_4kib.shape_p4_table.entry_flags_replaced_address_kept tier=thorough bounded="pool of 7 tables (4 path + 3 allocatable); tree-shaped sparse pre-state (target path, one neighbour word per path table, garbage in allocatable frames); page-table indices (255,511,0,256)"
    //@ obligation C11 C11.set_flags_p4_entry_4kib.shape_p4_table.flush_all_token tier=thorough bounded="pool of 7 tables (4 path + 3 allocatable); tree-shaped sparse pre-state (target path, one neighbour word per path table, garbage in allocatable frames); page-table indices (255,511,0,256)"
    //@ obligation C09 C09.set_flags_p4_entry_4kib.shape_p4_table.only_dictated_slots_change tier=thorough bounded="pool of 7 tables (4 path + 3 allocatable); tree-shaped sparse pre-state (target path, one neighbour word per path table, garbage in allocatable frames); page-table indices (255,511,0,256)"
    //@ obligation C09 C09.set_flags_p4_entry_4kib.shape_p4_table.no_frames_requested_or_zeroed tier=thorough bounded="pool of 7 tables (4 path + 3 allocatable); tree-shaped sparse pre-state (target path, one neighbour word per path table, garbage in allocatable frames); page-table indices (255,511,0,256)"
    //@ obligation C09 C09.set_flags_p4_entry_4kib.shape_p4_table.no_dangling_table_pointer tier=thorough bounded="pool of 7 tables (4 path + 3 allocatable); tree-shaped sparse pre-state (target path, one neighbour word per path table, garbage in allocatable frames); page-table indices (255,511,0,256)"
    //@ obligation C09 C09.set_flags_p4_entry_4kib.shape_p4_table.no_access_outside_page_tables tier=thorough bounded="pool of 7 tables (4 path + 3 allocatable); tree-shaped sparse pre-state (target path, one neighbour word per path table, garbage in allocatable frames); page-table indices (255,511,0,256)"
    #[kani::proof]
    #[kani::stub(PageTable::zero, zero_stub)]
    fn c01_set_flags_p4_entry_4kib_p4_table_mid() {
        set_flags_step!(Size4KiB, "4kib", "p4_table", P3_ABSENT, IDX_MID, set_flags_p4_entry, "p4", 0);
        kani::cover!(true, "c01_set_flags_p4_entry_4kib_p4_table_mid: reachable");
    }

    //@ obligation C02 C02.set_flags_p4_entry_4kib.shape_p4_table.documented_outcome bounded="pool of 7 tables (4 path + 3 allocatable); tree-shaped sparse pre-state (target path, one neighbour word per path table, garbage in allocatable frames); page-table indices (256,0,510,511)"
    //@ obligation C01 C01.set_flags_p4_entry_4kib.shape_p4_table.no_leaf_changes bounded="pool of 7 tables (4 path + 3 allocatable); tree-shaped sparse pre-state (target path, one neighbour word per path table, garbage in allocatable frames); page-table indices (256,0,510,511)"
    //@ obligation C01 C01.set_flags_p4_entry_4kib.shape_p4_table.entry_flags_replaced_address_kept bounded="pool of 7 tables (4 path + 3 allocatable); tree-shaped sparse pre-state (target path, one neighbour word per path table, garbage in allocatable frames); page-table indices (256,0,510,511)"
    //@ obligation C11 C11.set_flags_p4_entry_4kib.shape_p4_table.flush_all_token bounded="pool of 7 tables (4 path + 3 allocatable); tree-shaped sparse pre-state (target path, one neighbour word per path table, garbage in allocatable frames); page-table indices (256,0,510,511)"
    //@ obligation C09 C09.set_flags_p4_entry_4kib.shape_p4_table.only_dictated_slots_change bounded="pool of 7 tables (4 path + 3 allocatable); tree-shaped sparse pre-state (target path, one neighbour word per path table, garbage in allocatable frames); page-table indices (256,0,510,511)"
    //@ obligation C09 C09.set_flags_p4_entry_4kib.shape_p4_table.no_frames_requested_or_zeroed bounded="pool of 7 tables (4 path + 3 allocatable); tree-shaped sparse pre-state (target path, one neighbour word per path table, garbage in allocatable frames); page-table indices (256,0,510,511)"
    //@ obligation C09 C09.set_flags_p4_entry_4kib.shape_p4_table.no_dangling_table_pointer bounded="pool of 7 tables (4 path + 3 allocatable); tree-shaped sparse pre-state (target path, one neighbour word per path table, garbage in allocatable frames); page-table indices (256,0,510,511)"
    //@ obligation C09 C09.set_flags_p4_entry_4kib.shape_p4_table.no_access_outside_page_tables bounded="pool of 7 tables (4 path + 3 allocatable); tree-shaped sparse pre-state (target path, one neighbour word per path table, garbage in allocatable frames); page-table indices (256,0,510,511)"
    #[kani::proof]
    #[kani::stub(PageTable::zero, zero_stub)]
    fn c01_set_flags_p4_entry_4kib_p4_table_up() {
        set_flags_step!(Size4KiB, "4kib", "p4_table", P3_ABSENT, IDX_UP, set_flags_p4_entry, "p4", 0);
        kani::cover!(true, "c01_set_flags_p4_entry_4kib_p4_table_up: reachable");
    }

    //@ obligation C02 C02.set_flags_p4_entry_2mib.shape_p4_absent.documented_outcome bounded="pool of 7 tables (4 path + 3 allocatable); tree-shaped sparse pre-state (target path, one neighbour word per path table, garbage in allocatable frames); page-table indices (0,1,511,2)"
    //@ obligation C02 C02.set_flags_p4_entry_2mib.shape_p4_absent.error_leaves_every_mapping bounded="pool of 7 tables (4 path + 3 allocatable); tree-shaped sparse pre-state (target path, one neighbour word per path table, garbage in allocatable frames); page-table indices (0,1,511,2)"
    //@ obligation C09 C09.set_flags_p4_entry_2mib.shape_p4_absent.only_dictated_slots_change bounded="pool of 7 tables (4 path + 3 allocatable); tree-shaped sparse pre-state (target path, one neighbour word per path table, garbage in allocatable frames); page-table indices (0,1,511,2)"
    //@ obligation C09 C09.set_flags_p4_entry_2mib.shape_p4_absent.no_frames_requested_or_zeroed bounded="pool of 7 tables (4 path + 3 allocatable); tree-shaped sparse pre-state (target path, one neighbour word per path table, garbage in allocatable frames); page-table indices (0,1,511,2)"
    //@ obligation C09 C09.set_flags_p4_entry_2mib.shape_p4_absent.no_dangling_table_pointer bounded="pool of 7 tables (4 path + 3 allocatable); tree-shaped sparse pre-state (target path, one neighbour word per path table, garbage in allocatable frames); page-table indices (0,1,511,2)"
    //@ obligation C09 C09.set_flags_p4_entry_2mib.shape_p4_absent.no_access_outside_page_tables bounded="pool of 7 tables (4 path + 3 allocatable); tree-shaped sparse pre-state (target path, one neighbour word per path table, garbage in allocatable frames); page-table indices (0,1,511,2)"
    #[kani::proof]
    #[kani::stub(PageTable::zero, zero_stub)]
    fn c02_set_flags_p4_entry_2mib_p4_absent_lo() {
        set_flags_step!(Size2MiB, "2mib", "p4_absent", P4_ABSENT, IDX_LO, set_flags_p4_entry, "p4", 0);
        kani::cover!(true, "c02_set_flags_p4_entry_2mib_p4_absent_lo: reachable");
    }

    //@ obligation C02 C02.set_flags_p4_entry_2mib.shape_p4_absent.documented_outcome tier=thorough bounded="pool of 7 tables (4 path + 3 allocatable); tree-shaped sparse pre-state (target path, one neighbour word per path table, garbage in allocatable frames); page-table indices (511,510,1,0)"
    //@ obligation C02 C02.set_flags_p4_entry_2mib.shape_p4_absent.error_leaves_every_mapping tier=thorough bounded="pool of 7 tables (4 path + 3 allocatable); tree-shaped sparse pre-state (target path, one neighbour word per path table, garbage in allocatable frames); page-table indices (511,510,1,0)"
    //@ obligation C09 C09.set_flags_p4_entry_2mib.shape_p4_absent.only_dictated_slots_change tier=thorough bounded="pool of 7 tables (4 path + 3 allocatable); tree-shaped sparse pre-state (target path, one neighbour word per path table, garbage in allocatable frames); page-table indices (511,510,1,0)"
    //@ obligation C09 C09.set_flags_p4_entry_2mib.shape_p4_absent.no_frames_requested_or_zeroed tier=thorough bounded="pool of 7 tables (4 path + 3 allocatable); tree-shaped sparse pre-state (target path, one neighbour word per path table, garbage in allocatable frames); page-table indices (511,510,1,0)"
    //@ obligation C09 C09.set_flags_p4_entry_2mib.shape_p4_absent.no_dangling_table_pointer tier=thorough bounded="pool of 7 tables (4 path + 3 allocatable); tree-shaped sparse pre-state (target path, one neighbour word per path table, garbage in allocatable frames); page-table indices (511,510,1,0)"
    //@ obligation C09 C09.set_flags_p4_entry_2mib.shape_p4_absent.no_access_outside_page_tables tier=thorough bounded="pool of 7 tables (4 path + 3 allocatable); tree-shaped sparse pre-state (target path, one neighbour word per path table, garbage in allocatable frames); page-table indices (511,510,1,0)"
    #[kani::proof]
    #[kani::stub(PageTable::zero, zero_stub)]
    fn c02_set_flags_p4_entry_2mib_p4_absent_hi() {
        set_flags_step!(Size2MiB, "2mib", "p4_absent", P4_ABSENT, IDX_HI, set_flags_p4_entry, "p4", 0);
        kani::cover!(true, "c02_set_flags_p4_entry_2mib_p4_absent_hi: reachable");
    }

    //@ obligation C02 C02.set_flags_p4_entry_2mib.shape_p4_absent.documented_outcome tier=thorough bounded="pool of 7 tables (4 path + 3 allocatable); tree-shaped sparse pre-state (target path, one neighbour word per path table, garbage in allocatable frames); page-table indices (255,511,0,256)"
    //@ obligation C02 C02.set_flags_p4_entry_2mib.shape_p4_absent.error_leaves_every_mapping tier=thorough bounded="pool of 7 tables (4 path + 3 allocatable); tree-shaped sparse pre-state (target path, one neighbour word per path table, garbage in allocatable frames); page-table indices (255,511,0,256)"
    //@ obligation C09 C09.set_flags_p4_entry_2mib.shape_p4_absent.only_dictated_slots_change tier=thorough bounded="pool of 7 tables (4 path + 3 allocatable); tree-shaped sparse pre-state (target path, one neighbour word per path table, garbage in allocatable frames); page-table indices (255,511,0,256)"
    //@ obligation C09 C09.set_flags_p4_entry_2mib.shape_p4_absent.no_frames_requested_or_zeroed tier=thorough bounded="pool of 7 tables (4 path + 3 allocatable); tree-shaped sparse pre-state (target path, one neighbour word per path table, garbage in allocatable frames); page-table indices (255,511,0,256)"
    //@ obligation C09 C09.set_flags_p4_entry_2mib.shape_p4_absent.no_dangling_table_pointer tier=thorough bounded="pool of 7 tables (4 path + 3 allocatable); tree-shaped sparse pre-state (target path, one neighbour word per path table, garbage in allocatable frames); page-table indices (255,511,0,256)"
    //@ obligation C09 C09.set_flags_p4_entry_2mib.shape_p4_absent.no_access_outside_page_tables tier=thorough bounded="pool of 7 tables (4 path + 3 allocatable); tree-shaped sparse pre-state (target path, one neighbour word per path table, garbage in allocatable frames); page-table indices (255,511,0,256)"
    #[kani::proof]
    #[kani::stub(PageTable::zero, zero_stub)]
    fn c02_set_flags_p4_entry_2mib_p4_absent_mid() {
        set_flags_step!(Size2MiB, "2mib", "p4_absent", P4_ABSENT, IDX_MID, set_flags_p4_entry, "p4", 0);
        kani::cover!(true, "c02_set_flags_p4_entry_2mib_p4_absent_mid: reachable");
    }

    //@ obligation C02 C02.set_flags_p4_entry_2mib.shape_p4_absent.documented_outcome tier=thorough bounded="pool of 7 tables (4 path + 3 allocatable); tree-shaped sparse pre-state (target path, one neighbour word per path table, garbage in allocatable frames); page-table indices (256,0,510,511)"
    //@ obligation C02 C02.set_flags_p4_entry_2mib.shape_p4_absent.error_leaves_every_mapping tier=thorough bounded="pool of 7 tables (4 path + 3 allocatable); tree-shaped sparse pre-state (target path, one neighbour word per path table, garbage in allocatable frames); page-table indices (256,0,510,511)"
    //@ obligation C09 C09.set_flags_p4_entry_2mib.shape_p4_absent.only_dictated_slots_change tier=thorough bounded="pool of 7 tables (4 path + 3 allocatable); tree-shaped sparse pre-state (target path, one neighbour word per path table, garbage in allocatable frames); page-table indices (256,0,510,511)"
    //@ obligation C09 C09.set_flags_p4_entry_2mib.shape_p4_absent.no_frames_requested_or_zeroed tier=thorough bounded="pool of 7 tables (4 path + 3 allocatable); tree-shaped sparse pre-state (target path, one neighbour word per path table, garbage in allocatable frames); page-table indices (256,0,510,511)"
    //@ obligation C09 C09.set_flags_p4_entry_2mib.shape_p4_absent.no_dangling_table_pointer tier=thorough bounded="pool of 7 tables (4 path + 3 allocatable); tree-shaped sparse pre-state (target path, one neighbour word per path table, garbage in allocatable frames); page-table indices (256,0,510,511)"
    //@ obligation C09 C09.set_flags_p4_entry_2mib.shape_p4_absent.no_access_outside_page_tables tier=thorough bounded="pool of 7 tables (4 path + 3 allocatable); tree-shaped sparse pre-state (target path, one neighbour word per path table, garbage in allocatable frames); page-table indices (256,0,510,511)"
    #[kani::proof]
    #[kani::stub(PageTable::zero, zero_stub)]
    fn c02_set_flags_p4_entry_2mib_p4_absent_up() {
        set_flags_step!(Size2MiB, "2mib", "p4_absent", P4_ABSENT, IDX_UP, set_flags_p4_entry, "p4", 0);
        kani::cover!(true, "c02_set_flags_p4_entry_2mib_p4_absent_up: reachable");
    }

    //@ obligation C02 C02.set_flags_p4_entry_2mib.shape_p4_table.documented_outcome tier=thorough bounded="pool of 7 tables (4 path + 3 allocatable); tree-shaped sparse pre-state (target path, one neighbour word per path table, garbage in allocatable frames); page-table indices (0,1,511,2)"
    //@ obligation C01 C01.set_flags_p4_entry_2mib.shape_p4_table.no_leaf_changes tier=thorough bounded="pool of 7 tables (4 path + 3 allocatable); tree-shaped sparse pre-state (target path, one neighbour word per path table, garbage in allocatable frames); page-table indices (0,1,511,2)"
    //@ obligation C01 C01.set_flags_p4_entry_2mib.shape_p4_table.entry_flags_replaced_address_kept tier=thorough bounded="pool of 7 tables (4 path + 3 allocatable); tree-shaped sparse pre-state (target path, one neighbour word per path table, garbage in allocatable frames); page-table indices (0,1,511,2)"
    //@ obligation C11 C11.set_flags_p4_entry_2mib.shape_p4_table.flush_all_token tier=thorough bounded="pool of 7 tables (4 path + 3 allocatable); tree-shaped sparse pre-state (target path, one neighbour word per path table, garbage in allocatable frames); page-table indices (0,1,511,2)"
    //@ obligation C09 C09.set_flags_p4_entry_2mib.shape_p4_table.only_dictated_slots_change tier=thorough bounded="pool of 7 tables (4 path + 3 allocatable); tree-shaped sparse pre-state (target path, one neighbour word per path table, garbage in allocatable frames); page-table indices (0,1,511,2)"
    //@ obligation C09 C09.set_flags_p4_entry_2mib.shape_p4_table.no_frames_requested_or_zeroed tier=thorough bounded="pool of 7 tables (4 path + 3 allocatable); tree-shaped sparse pre-state (target path, one neighbour word per path table, garbage in allocatable frames); page-table indices (0,1,511,2)"
    //@ obligation C09 C09.set_flags_p4_entry_2mib.shape_p4_table.no_dangling_table_pointer tier=thorough bounded="pool of 7 tables (4 path + 3 allocatable); tree-shaped sparse pre-state (target path, one neighbour word per path table, garbage in allocatable frames); page-table indices (0,1,511,2)"
    //@ obligation C09 C09.set_flags_p4_entry_2mib.shape_p4_table.no_access_outside_page_tables tier=thorough bounded="pool of 7 tables (4 path + 3 allocatable); tree-shaped sparse pre-state (target path, one neighbour word per path table, garbage in allocatable frames); page-table indices (0,1,511,2)"
    #[kani::proof]
    #[kani::stub(PageTable::zero, zero_stub)]
    fn c01_set_flags_p4_entry_2mib_p4_table_lo() {
        set_flags_step!(Size2MiB, "2mib", "p4_table", P3_ABSENT, IDX_LO, set_flags_p4_entry, "p4", 0);
        kani::cover!(true, "c01_set_flags_p4_entry_2mib_p4_table_lo: reachable");
    }

    //@ obligation C02 C02.set_flags_p4_entry_2mib.shape_p4_table.documented_outcome tier=thorough bounded="pool of 7 tables (4 path + 3 allocatable); tree-shaped sparse pre-state (target path, one neighbour word per path table, garbage in allocatable frames); page-table indices (511,510,1,0)"
    //@ obligation C01 C01.set_flags_p4_entry_2mib.shape_p4_table.no_leaf_changes tier=thorough bounded="pool of 7 tables (4 path + 3 allocatable); tree-shaped sparse pre-state (target path, one neighbour word per path table, garbage in allocatable frames); page-table indices (511,510,1,0)"
    //@ obligation C01 C01.set_flags_p4_entry_2mib.shape_p4_table.entry_flags_replaced_address_kept tier=thorough bounded="pool of 7 tables (4 path + 3 allocatable); tree-shaped sparse pre-state (target path, one neighbour word per path table, garbage in allocatable frames); page-table indices (511,510,1,0)"
    //@ obligation C11 C11.set_flags_p4_entry_2mib.shape_p4_table.flush_all_token tier=thorough bounded="pool of 7 tables (4 path + 3 allocatable); tree-shaped sparse pre-state (target path, one neighbour word per path table, garbage in allocatable frames); page-table indices (511,510,1,0)"
    //@ obligation C09 C09.set_flags_p4_entry_2mib.shape_p4_table.only_dictated_slots_change tier=thorough bounded="pool of 7 tables (4 path + 3 allocatable); tree-shaped sparse pre-state (target path, one neighbour word per path table, garbage in allocatable frames); page-table indices (511,510,1,0)"
    //@ obligation C09 C09.set_flags_p4_entry_2mib.shape_p4_table.no_frames_requested_or_zeroed tier=thorough bounded="pool of 7 tables (4 path + 3 allocatable); tree-shaped sparse pre-state (target path, one neighbour word per path table, garbage in allocatable frames); page-table indices (511,510,1,0)"
    //@ obligation C09 C09.set_flags_p4_entry_2mib.shape_p4_table.no_dangling_table_pointer tier=thorough bounded="pool of 7 tables (4 path + 3 allocatable); tree-shaped sparse pre-state (target path, one neighbour word per path table, garbage in allocatable frames); page-table indices (511,510,1,0)"
    //@ obligation C09 C09.set_flags_p4_entry_2mib.shape_p4_table.no_access_outside_page_tables tier=thorough bounded="pool of 7 tables (4 path + 3 allocatable); tree-shaped sparse pre-state (target path, one neighbour word per path table, garbage in allocatable frames); page-table indices (511,510,1,0)"
    #[kani::proof]
    #[kani::stub(PageTable::zero, zero_stub)]
    fn c01_set_flags_p4_entry_2mib_p4_table_hi() {
        set_flags_step!(Size2MiB, "2mib", "p4_table", P3_ABSENT, IDX_HI, set_flags_p4_entry, "p4", 0);
        kani::cover!(true, "c01_set_flags_p4_entry_2mib_p4_table_hi: reachable");
    }

    //@ obligation C02 C02.set_flags_p4_entry_2mib.shape_p4_table.documented_outcome bounded="pool of 7 tables (4 path + 3 allocatable); tree-shaped sparse pre-state (target path, one neighbour word per path table, garbage in allocatable frames); page-table indices (255,511,0,256)"
    //@ obligation C01 C01.set_flags_p4_entry_2mib.shape_p4_table.no_leaf_changes bounded="pool of 7 tables (4 path + 3 allocatable); tree-shaped sparse pre-state (target path, one neighbour word per path table, garbage in allocatable frames); page-table indices (255,511,0,256)"
    //@ obligation C01 C01.set_flags_p4_entry_2mib.shape_p4_table.entry_flags_replaced_address_kept bounded="pool of 7 tables (4 path + 3 allocatable); tree-shaped sparse pre-state (target path, one neighbour word per path table, garbage in allocatable frames); page-table indices (255,511,0,256)"
    //@ obligation C11 C11.set_flags_p4_entry_2mib.shape_p4_table.flush_all_token bounded="pool of 7 tables (4 path + 3 allocatable); tree-shaped sparse pre-state (target path, one neighbour word per path table, garbage in allocatable frames); page-table indices (255,511,0,256)"
    //@ obligation C09 C09.set_flags_p4_entry_2mib.shape_p4_table.only_dictated_slots_change bounded="pool of 7 tables (4 path + 3 allocatable); tree-shaped sparse pre-state (target path, one neighbour word per path table, garbage in allocatable frames); page-table indices (255,511,0,256)"
    //@ obligation C09 C09.set_flags_p4_entry_2mib.shape_p4_table.no_frames_requested_or_zeroed bounded="pool of 7 tables (4 path + 3 allocatable); tree-shaped sparse pre-state (target path, one neighbour word per path table, garbage in allocatable frames); page-table indices (255,511,0,256)"
    //@ obligation C09 C09.set_flags_p4_entry_2mib.shape_p4_table.no_dangling_table_pointer bounded="pool of 7 tables (4 path + 3 allocatable); tree-shaped sparse pre-state (target path, one neighbour word per path table, garbage in allocatable frames); page-table indices (255,511,0,256)"
    //@ obligation C09 C09.set_flags_p4_entry_2mib.shape_p4_table.no_access_outside_page_tables bounded="pool of 7 tables (4 path + 3 allocatable); tree-shaped sparse pre-state (target path, one neighbour word per path table, garbage in allocatable frames); page-table indices (255,511,0,256)"
    #[kani::proof]
    #[kani::stub(PageTable::zero, zero_stub)]
    fn c01_set_flags_p4_entry_2mib_p4_table_mid() {
        set_flags_step!(Size2MiB, "2mib", "p4_table", P3_ABSENT, IDX_MID, set_flags_p4_entry, "p4", 0);
        kani::cover!(true, "c01_set_flags_p4_entry_2mib_p4_table_mid: reachable");
    }

    //@ obligation C02 C02.set_flags_p4_entry_2mib.shape_p4_table.documented_outcome tier=thorough bounded="pool of 7 tables (4 path + 3 allocatable); tree-shaped sparse pre-state (target path, one neighbour word per path table, garbage in allocatable frames); page-table indices (256,0,510,511)"
    //@ obligation C01 C01.set_flags_p4_entry_2mib.shape_p4_table.no_leaf_changes tier=thorough bounded="pool of 7 tables (4 path + 3 allocatable); tree-shaped sparse pre-state (target path, one neighbour word per path table, garbage in allocatable frames); page-table indices (256,0,510,511)"
    //@ obligation C01 C01.set_flags_p4_entry_2mib.shape_p4_table.entry_flags_replaced_address_kept tier=thorough bounded="pool of 7 tables (4 path + 3 allocatable); tree-shaped sparse pre-state (target path, one neighbour word per path table, garbage in allocatable frames); page-table indices (256,0,510,511)"
    //@ obligation C11 C11.set_flags_p4_entry_2mib.shape_p4_table.flush_all_token tier=thorough bounded="pool of 7 tables (4 path + 3 allocatable); tree-shaped sparse pre-state (target path, one neighbour word per path table, garbage in allocatable frames); page-table indices (256,0,510,511)"
    //@ obligation C09 C09.set_flags_p4_entry_2mib.shape_p4_table.only_dictated_slots_change tier=thorough bounded="pool of 7 tables (4 path + 3 allocatable); tree-shaped sparse pre-state (target path, one neighbour word per path table, garbage in allocatable frames); page-table indices (256,0,510,511)"
    //@ obligation C09 C09.set_flags_p4_entry_2mib.shape_p4_table.no_frames_requested_or_zeroed tier=thorough bounded="pool of 7 tables (4 path + 3 allocatable); tree-shaped sparse pre-state (target path, one neighbour word per path table, garbage in allocatable frames); page-table indices (256,0,510,511)"
    //@ obligation C09 C09.set_flags_p4_entry_2mib.shape_p4_table.no_dangling_table_pointer tier=thorough bounded="pool of 7 tables (4 path + 3 allocatable); tree-shaped sparse pre-state (target path, one neighbour word per path table, garbage in allocatable frames); page-table indices (256,0,510,511)"
    //@ obligation C09 C09.set_flags_p4_entry_2mib.shape_p4_table.no_access_outside_page_tables tier=thorough bounded="pool of 7 tables (4 path + 3 allocatable); tree-shaped sparse pre-state (target path, one neighbour word per path table, garbage in allocatable frames); page-table indices (256,0,510,511)"
    #[kani::proof]
    #[kani::stub(PageTable::zero, zero_stub)]
    fn c01_set_flags_p4_entry_2mib_p4_table_up() {
        set_flags_step!(Size2MiB, "2mib", "p4_table", P3_ABSENT, IDX_UP, set_flags_p4_entry, "p4", 0);
        kani::cover!(true, "c01_set_flags_p4_entry_2mib_p4_table_up: reachable");
    }

    //@ obligation C02 C02.set_flags_p4_entry_1gib.shape_p4_absent.documented_outcome tier=thorough bounded="pool of 7 tables (4 path + 3 allocatable); tree-shaped sparse pre-state (target path, one neighbour word per path table, garbage in allocatable frames); page-table indices (0,1,511,2)"
    //@ obligation C02 C02.set_flags_p4_entry_1gib.shape_p4_absent.error_leaves_every_mapping tier=thorough bounded="pool of 7 tables (4 path + 3 allocatable); tree-shaped sparse pre-state (target path, one neighbour word per path table, garbage in allocatable frames); page-table indices (0,1,511,2)"
    //@ obligation C09 C09.set_flags_p4_entry_1gib.shape_p4_absent.only_dictated_slots_change tier=thorough bounded="pool of 7 tables (4 path + 3 allocatable); tree-shaped sparse pre-state (target path, one neighbour word per path table, garbage in allocatable frames); page-table indices (0,1,511,2)"
    //@ obligation C09 C09.set_flags_p4_entry_1gib.shape_p4_absent.no_frames_requested_or_zeroed tier=thorough bounded="pool of 7 tables (4 path + 3 allocatable); tree-shaped sparse pre-state (target path, one neighbour word per path table, garbage in allocatable frames); page-table indices (0,1,511,2)"
    //@ obligation C09 C09.set_flags_p4_entry_1gib.shape_p4_absent.no_dangling_table_pointer tier=thorough bounded="pool of 7 tables (4 path + 3 allocatable); tree-shaped sparse pre-state (target path, one neighbour word per path table, garbage in allocatable frames); page-table indices (0,1,511,2)"
    //@ obligation C09 C09.set_flags_p4_entry_1gib.shape_p4_absent.no_access_outside_page_tables tier=thorough bounded="pool of 7 tables (4 path + 3 allocatable); tree-shaped sparse pre-state (target path, one neighbour word per path table, garbage in allocatable frames); page-table indices (0,1,511,2)"
    #[kani::proof]
    #[kani::stub(PageTable::zero, zero_stub)]
    fn c02_set_flags_p4_entry_1gib_p4_absent_lo() {
        set_flags_step!(Size1GiB, "1gib", "p4_absent", P4_ABSENT, IDX_LO, set_flags_p4_entry, "p4", 0);
        kani::cover!(true, "c02_set_flags_p4_entry_1gib_p4_absent_lo: reachable");
    }

    //@ obligation C02 C02.set_flags_p4_entry_1gib.shape_p4_absent.documented_outcome bounded="pool of 7 tables (4 path + 3 allocatable); tree-shaped sparse pre-state (target path, one neighbour word per path table, garbage in allocatable frames); page-table indices (511,510,1,0)"
    //@ obligation C02 C02.set_flags_p4_entry_1gib.shape_p4_absent.error_leaves_every_mapping bounded="pool of 7 tables (4 path + 3 allocatable); tree-shaped sparse pre-state (target path, one neighbour word per path table, garbage in allocatable frames); page-table indices (511,510,1,0)"
    //@ obligation C09 C09.set_flags_p4_entry_1gib.shape_p4_absent.only_dictated_slots_change bounded="pool of 7 tables (4 path + 3 allocatable); tree-shaped sparse pre-state (target path, one neighbour word per path table, garbage in allocatable frames); page-table indices (511,510,1,0)"
    //@ obligation C09 C09.set_flags_p4_entry_1gib.shape_p4_absent.no_frames_requested_or_zeroed bounded="pool of 7 tables (4 path + 3 allocatable); tree-shaped sparse pre-state (target path, one neighbour word per path table, garbage in allocatable frames); page-table indices (511,510,1,0)"
    //@ obligation C09 C09.set_flags_p4_entry_1gib.shape_p4_absent.no_dangling_table_pointer bounded="pool of 7 tables (4 path + 3 allocatable); tree-shaped sparse pre-state (target path, one neighbour word per path table, garbage in allocatable frames); page-table indices (511,510,1,0)"
    //@ obligation C09 C09.set_flags_p4_entry_1gib.shape_p4_absent.no_access_outside_page_tables bounded="pool of 7 tables (4 path + 3 allocatable); tree-shaped sparse pre-state (target path, one neighbour word per path table, garbage in allocatable frames); page-table indices (511,510,1,0)"
    #[kani::proof]
    #[kani::stub(PageTable::zero, zero_stub)]
    fn c02_set_flags_p4_entry_1gib_p4_absent_hi() {
        set_flags_step!(Size1GiB, "1gib", "p4_absent", P4_ABSENT, IDX_HI, set_flags_p4_entry, "p4", 0);
        kani::cover!(true, "c02_set_flags_p4_entry_1gib_p4_absent_hi: reachable");
    }

    //@ obligation C02 C02.set_flags_p4_entry_1gib.shape_p4_absent.documented_outcome tier=thorough bounded="pool of 7 tables (4 path + 3 allocatable); tree-shaped sparse pre-state (target path, one neighbour word per path table, garbage in allocatable frames); page-table indices (255,511,0,256)"
    //@ obligation C02 C02.set_flags_p4_entry_1gib.shape_p4_absent.error_leaves_every_mapping tier=thorough bounded="pool of 7 tables (4 path + 3 allocatable); tree-shaped sparse pre-state (target path, one neighbour word per path table, garbage in allocatable frames); page-table indices (255,511,0,256)"
    //@ obligation C09 C09.set_flags_p4_entry_1gib.shape_p4_absent.only_dictated_slots_change tier=thorough bounded="pool of 7 tables (4 path + 3 allocatable); tree-shaped sparse pre-state (target path, one neighbour word per path table, garbage in allocatable frames); page-table indices (255,511,0,256)"
    //@ obligation C09 C09.set_flags_p4_entry_1gib.shape_p4_absent.no_frames_requested_or_zeroed tier=thorough bounded="pool of 7 tables (4 path + 3 allocatable); tree-shaped sparse pre-state (target path, one neighbour word per path table, garbage in allocatable frames); page-table indices (255,511,0,256)"
    //@ obligation C09 C09.set_flags_p4_entry_1gib.shape_p4_absent.no_dangling_table_pointer tier=thorough bounded="pool of 7 tables (4 path + 3 allocatable); tree-shaped sparse pre-state (target path, one neighbour word per path table, garbage in allocatable frames); page-table indices (255,511,0,256)"
    //@ obligation C09 C09.set_flags_p4_entry_1gib.shape_p4_absent.no_access_outside_page_tables tier=thorough bounded="pool of 7 tables (4 path + 3 allocatable); tree-shaped sparse pre-state (target path, one neighbour word per path table, garbage in allocatable frames); page-table indices (255,511,0,256)"
    #[kani::proof]
    #[kani::stub(PageTable::zero, zero_stub)]
    fn c02_set_flags_p4_entry_1gib_p4_absent_mid() {
        set_flags_step!(Size1GiB, "1gib", "p4_absent", P4_ABSENT, IDX_MID, set_flags_p4_entry, "p4", 0);
        kani::cover!(true, "c02_set_flags_p4_entry_1gib_p4_absent_mid: reachable");
    }

    //@ obligation C02 C02.set_flags_p4_entry_1gib.shape_p4_absent.documented_outcome tier=thorough bounded="pool of 7 tables (4 path + 3 allocatable); tree-shaped sparse pre-state (target path, one neighbour word per path table, garbage in allocatable frames); page-table indices (256,0,510,511)"
    //@ obligation C02 C02.set_flags_p4_entry_1gib.shape_p4_absent.error_leaves_every_mapping tier=thorough bounded="pool of 7 tables (4 path + 3 allocatable); tree-shaped sparse pre-state (target path, one neighbour word per path table, garbage in allocatable frames); page-table indices (256,0,510,511)"
    //@ obligation C09 C09.set_flags_p4_entry_1gib.shape_p4_absent.only_dictated_slots_change tier=thorough bounded="pool of 7 tables (4 path + 3 allocatable); tree-shaped sparse pre-state (target path, one neighbour word per path table, garbage in allocatable frames); page-table indices (256,0,510,511)"
    //@ obligation C09 C09.set_flags_p4_entry_1gib.shape_p4_absent.no_frames_requested_or_zeroed tier=thorough bounded="pool of 7 tables (4 path + 3 allocatable); tree-shaped sparse pre-state (target path, one neighbour word per path table, garbage in allocatable frames); page-table indices (256,0,510,511)"
    //@ obligation C09 C09.set_flags_p4_entry_1gib.shape_p4_absent.no_dangling_table_pointer tier=thorough bounded="pool of 7 tables (4 path + 3 allocatable); tree-shaped sparse pre-state (target path, one neighbour word per path table, garbage in allocatable frames); page-table indices (256,0,510,511)"
    //@ obligation C09 C09.set_flags_p4_entry_1gib.shape_p4_absent.no_access_outside_page_tables tier=thorough bounded="pool of 7 tables (4 path + 3 allocatable); tree-shaped sparse pre-state (target path, one neighbour word per path table, garbage in allocatable frames); page-table indices (256,0,510,511)"
    #[kani::proof]
    #[kani::stub(PageTable::zero, zero_stub)]
    fn c02_set_flags_p4_entry_1gib_p4_absent_up() {
        set_flags_step!(Size1GiB, "1gib", "p4_absent", P4_ABSENT, IDX_UP, set_flags_p4_entry, "p4", 0);
        kani::cover!(true, "c02_set_flags_p4_entry_1gib_p4_absent_up: reachable");
    }

    //@ obligation C02 C02.set_flags_p4_entry_1gib.shape_p4_table.documented_outcome tier=thorough bounded="pool of 7 tables (4 path + 3 allocatable); tree-shaped sparse pre-state (target path, one neighbour word per path table, garbage in allocatable frames); page-table indices (0,1,511,2)"
    //@ obligation C01 C01.set_flags_p4_entry_1gib.shape_p4_table.no_leaf_changes tier=thorough bounded="pool of 7 tables (4 path + 3 allocatable); tree-shaped sparse pre-state (target path, one neighbour word per path table, garbage in allocatable frames); page-table indices (0,1,511,2)"
    //@ obligation C01 C01.set_flags_p4_entry_1gib.shape_p4_table.entry_flags_replaced_address_kept tier=thorough bounded="pool of 7 tables (4 path + 3 allocatable); tree-shaped sparse pre-state (target path, one neighbour word per path table, garbage in allocatable frames); page-table indices (0,1,511,2)"
    //@ obligation C11 C11.set_flags_p4_entry_1gib.shape_p4_table.flush_all_token tier=thorough bounded="pool of 7 tables (4 path + 3 allocatable); tree-shaped sparse pre-state (target path, one neighbour word per path table, garbage in allocatable frames); page-table indices (0,1,511,2)"
    //@ obligation C09 C09.set_flags_p4_entry_1gib.shape_p4_table.only_dictated_slots_change tier=thorough bounded="pool of 7 tables (4 path + 3 allocatable); tree-shaped sparse pre-state (target path, one neighbour word per path table, garbage in allocatable frames); page-table indices (0,1,511,2)"
    //@ obligation C09 C09.set_flags_p4_entry_1gib.shape_p4_table.no_frames_requested_or_zeroed tier=thorough bounded="pool of 7 tables (4 path + 3 allocatable); tree-shaped sparse pre-state (target path, one neighbour word per path table, garbage in allocatable frames); page-table indices (0,1,511,2)"
    //@ obligation C09 C09.set_flags_p4_entry_1gib.shape_p4_table.no_dangling_table_pointer tier=thorough bounded="pool of 7 tables (4 path + 3 allocatable); tree-shaped sparse pre-state (target path, one neighbour word per path table, garbage in allocatable frames); page-table indices (0,1,511,2)"
    //@ obligation C09 C09.set_flags_p4_entry_1gib.shape_p4_table.no_access_outside_page_tables tier=thorough bounded="pool of 7 tables (4 path + 3 allocatable); tree-shaped sparse pre-state (target path, one neighbour word per path table, garbage in allocatable frames); page-table indices (0,1,511,2)"
    #[kani::proof]
    #[kani::stub(PageTable::zero, zero_stub)]
    fn c01_set_flags_p4_entry_1gib_p4_table_lo() {
        set_flags_step!(Size1GiB, "1gib", "p4_table", P3_ABSENT, IDX_LO, set_flags_p4_entry, "p4", 0);
        kani::cover!(true, "c01_set_flags_p4_entry_1gib_p4_table_lo: reachable");
    }

    //@ obligation C02 C02.set_flags_p4_entry_1gib.shape_p4_table.documented_outcome tier=thorough bounded="pool of 7 tables (4 path + 3 allocatable); tree-shaped sparse pre-state (target path, one neighbour word per path table, garbage in allocatable frames); page-table indices (511,510,1,0)"
    //@ obligation C01 C01.set_flags_p4_entry_1gib.shape_p4_table.no_leaf_changes tier=thorough bounded="pool of 7 tables (4 path + 3 allocatable); tree-shaped sparse pre-state (target path, one neighbour word per path table, garbage in allocatable frames); page-table indices (511,510,1,0)"
    //@ obligation C01 C01.set_flags_p4_entry_1gib.shape_p4_table.entry_flags_replaced_address_kept tier=thorough bounded="pool of 7 tables (4 path + 3 allocatable); tree-shaped sparse pre-state (target path, one neighbour word per path table, garbage in allocatable frames); page-table indices (511,510,1,0)"
    //@ obligation C11 C11.set_flags_p4_entry_1gib.shape_p4_table.flush_all_token tier=thorough bounded="pool of 7 tables (4 path + 3 allocatable); tree-shaped sparse pre-state (target path, one neighbour word per path table, garbage in allocatable frames); page-table indices (511,510,1,0)"
    //@ obligation C09 C09.set_flags_p4_entry_1gib.shape_p4_table.only_dictated_slots_change tier=thorough bounded="pool of 7 tables (4 path + 3 allocatable); tree-shaped sparse pre-state (target path, one neighbour word per path table, garbage in allocatable frames); page-table indices (511,510,1,0)"
    //@ obligation C09 C09.set_flags_p4_entry_1gib.shape_p4_table.no_frames_requested_or_zeroed tier=thorough bounded="pool of 7 tables (4 path + 3 allocatable); tree-shaped sparse pre-state (target path, one neighbour word per path table, garbage in allocatable frames); page-table indices (511,510,1,0)"
    //@ obligation C09 C09.set_flags_p4_entry_1gib.shape_p4_table.no_dangling_table_pointer tier=thorough bounded="pool of 7 tables (4 path + 3 allocatable); tree-shaped sparse pre-state (target path, one neighbour word per path table, garbage in allocatable frames); page-table indices (511,510,1,0)"
    //@ obligation C09 C09.set_flags_p4_entry_1gib.shape_p4_table.no_access_outside_page_tables tier=thorough bounded="pool of 7 tables (4 path + 3 allocatable); tree-shaped sparse pre-state (target path, one neighbour word per path table, garbage in allocatable frames); page-table indices (511,510,1,0)"
    #[kani::proof]
    #[kani::stub(PageTable::zero, zero_stub)]
    fn c01_set_flags_p4_entry_1gib_p4_table_hi() {
        set_flags_step!(Size1GiB, "1gib", "p4_table", P3_ABSENT, IDX_HI, set_flags_p4_entry, "p4", 0);
        kani::cover!(true, "c01_set_flags_p4_entry_1gib_p4_table_hi: reachable");
    }

    //@ obligation C02 C02.set_flags_p4_entry_1gib.shape_p4_table.documented_outcome bounded="pool of 7 tables (4 path + 3 allocatable); tree-shaped sparse pre-state (target path, one neighbour word per path table, garbage in allocatable frames); page-table indices (255,511,0,256)"
    //@ obligation C01 C01.set_flags_p4_entry_1gib.shape_p4_table.no_leaf_changes bounded="pool of 7 tables (4 path + 3 allocatable); tree-shaped sparse pre-state (target path, one neighbour word per path table, garbage in allocatable frames); page-table indices (255,511,0,256)"
    //@ obligation C01 C01.set_flags_p4_entry_1gib.shape_p4_table.entry_flags_replaced_address_kept bounded="pool of 7 tables (4 path + 3 allocatable); tree-shaped sparse pre-state (target path, one neighbour word per path table, garbage in allocatable frames); page-table indices (255,511,0,256)"
    //@ obligation C11 C11.set_flags_p4_entry_1gib.shape_p4_table.flush_all_token bounded="pool of 7 tables (4 path + 3 allocatable); tree-shaped sparse pre-state (target path, one neighbour word per path table, garbage in allocatable frames); page-table indices (255,511,0,256)"
    //@ obligation C09 C09.set_flags_p4_entry_1gib.shape_p4_table.only_dictated_slots_change bounded="pool of 7 tables (4 path + 3 allocatable); tree-shaped sparse pre-state (target path, one neighbour word per path table, garbage in allocatable frames); page-table indices (255,511,0,256)"
    //@ obligation C09 C09.set_flags_p4_entry_1gib.shape_p4_table.no_frames_requested_or_zeroed bounded="pool of 7 tables (4 path + 3 allocatable); tree-shaped sparse pre-state (target path, one neighbour word per path table, garbage in allocatable frames); page-table indices (255,511,0,256)"
    //@ obligation C09 C09.set_flags_p4_entry_1gib.shape_p4_table.no_dangling_table_pointer bounded="pool of 7 tables (4 path + 3 allocatable); tree-shaped sparse pre-state (target path, one neighbour word per path table, garbage in allocatable frames); page-table indices (255,511,0,256)"
    //@ obligation C09 C09.set_flags_p4_entry_1gib.shape_p4_table.no_access_outside_page_tables bounded="pool of 7 tables (4 path + 3 allocatable); tree-shaped sparse pre-state (target path, one neighbour word per path table, garbage in allocatable frames); page-table indices (255,511,0,256)"
    #[kani::proof]
    #[kani::stub(PageTable::zero, zero_stub)]
    fn c01_set_flags_p4_entry_1gib_p4_table_mid() {
        set_flags_step!(Size1GiB, "1gib", "p4_table", P3_ABSENT, IDX_MID, set_flags_p4_entry, "p4", 0);
        kani::cover!(true, "c01_set_flags_p4_entry_1gib_p4_table_mid: reachable");
    }

    //@ obligation C02 C02.set_flags_p4_entry_1gib.shape_p4_table.documented_outcome tier=thorough bounded="pool of 7 tables (4 path + 3 allocatable); tree-shaped sparse pre-state (target path, one neighbour word per path table, garbage in allocatable frames); page-table indices (256,0,510,511)"
    //@ obligation C01 C01.set_flags_p4_entry_1gib.shape_p4_table.no_leaf_changes tier=thorough bounded="pool of 7 tables (4 path + 3 allocatable); tree-shaped sparse pre-state (target path, one neighbour word per path table, garbage in allocatable frames); page-table indices (256,0,510,511)"
    //@ obligation C01 C01.set_flags_p4_entry_1gib.shape_p4_table.entry_flags_replaced_address_kept tier=thorough bounded="pool of 7 tables (4 path + 3 allocatable); tree-shaped sparse pre-state (target path, one neighbour word per path table, garbage in allocatable frames); page-table indices (256,0,510,511)"
    //@ obligation C11 C11.set_flags_p4_entry_1gib.shape_p4_table.flush_all_token tier=thorough bounded="pool of 7 tables (4 path + 3 allocatable); tree-shaped sparse pre-state (target path, one neighbour word per path table, garbage in allocatable frames); page-table indices (256,0,510,511)"
    //@ obligation C09 C09.set_flags_p4_entry_1gib.shape_p4_table.only_dictated_slots_change tier=thorough bounded="pool of 7 tables (4 path + 3 allocatable); tree-shaped sparse pre-state (target path, one neighbour word per path table, garbage in allocatable frames); page-table indices (256,0,510,511)"
    //@ obligation C09 C09.set_flags_p4_entry_1gib.shape_p4_table.no_frames_requested_or_zeroed tier=thorough bounded="pool of 7 tables (4 path + 3 allocatable); tree-shaped sparse pre-state (target path, one neighbour word per path table, garbage in allocatable frames); page-table indices (256,0,510,511)"
    //@ obligation C09 C09.set_flags_p4_entry_1gib.shape_p4_table.no_dangling_table_pointer tier=thorough bounded="pool of 7 tables (4 path + 3 allocatable); tree-shaped sparse pre-state (target path, one neighbour word per path table, garbage in allocatable frames); page-table indices (256,0,510,511)"
    //@ obligation C09 C09.set_flags_p4_entry_1gib.shape_p4_table.no_access_outside_page_tables tier=thorough bounded="pool of 7 tables (4 path + 3 allocatable); tree-shaped sparse pre-state (target path, one neighbour word per path table, garbage in allocatable frames); page-table indices (256,0,510,511)"
    #[kani::proof]
    #[kani::stub(PageTable::zero, zero_stub)]
    fn c01_set_flags_p4_entry_1gib_p4_table_up() {
        set_flags_step!(Size1GiB, "1gib", "p4_table", P3_ABSENT, IDX_UP, set_flags_p4_entry, "p4", 0);
        kani::cover!(true, "c01_set_flags_p4_entry_1gib_p4_table_up: reachable");
    }

    //@ obligation C02 C02.set_flags_p3_entry_4kib.shape_p4_absent.documented_outcome tier=thorough bounded="pool of 7 tables (4 path + 3 allocatable); tree-shaped sparse pre-state (target path, one neighbour word per path table, garbage in allocatable frames); page-table indices (0,1,511,2)"
    //@ obligation C02 C02.set_flags_p3_entry_4kib.shape_p4_absent.error_leaves_every_mapping tier=thorough bounded="pool of 7 tables (4 path + 3 allocatable); tree-shaped sparse pre-state (target path, one neighbour word per path table, garbage in allocatable frames); page-table indices (0,1,511,2)"
    //@ obligation C09 C09.set_flags_p3_entry_4kib.shape_p4_absent.only_dictated_slots_change tier=thorough bounded="pool of 7 tables (4 path + 3 allocatable); tree-shaped sparse pre-state (target path, one neighbour word per path table, garbage in allocatable frames); page-table indices (0,1,511,2)"
    //@ obligation C09 C09.set_flags_p3_entry_4kib.shape_p4_absent.no_frames_requested_or_zeroed tier=thorough bounded="pool of 7 tables (4 path + 3 allocatable); tree-shaped sparse pre-state (target path, one neighbour word per path table, garbage in allocatable frames); page-table indices (0,1,511,2)"
    //@ obligation C09 C09.set_flags_p3_entry_4kib.shape_p4_absent.no_dangling_table_pointer tier=thorough bounded="pool of 7 tables (4 path + 3 allocatable); tree-shaped sparse pre-state (target path, one neighbour word per path table, garbage in allocatable frames); page-table indices (0,1,511,2)"
    //@ obligation C09 C09.set_flags_p3_entry_4kib.shape_p4_absent.no_access_outside_page_tables tier=thorough bounded="pool of 7 tables (4 path + 3 allocatable); tree-shaped sparse pre-state (target path, one neighbour word per path table, garbage in allocatable frames); page-table indices (0,1,511,2)"
    #[kani::proof]
    #[kani::stub(PageTable::zero, zero_stub)]
    fn c02_set_flags_p3_entry_4kib_p4_absent_lo() {
        set_flags_step!(Size4KiB, "4kib", "p4_absent", P4_ABSENT, IDX_LO, set_flags_p3_entry, "p3", 1);
        kani::cover!(true, "c02_set_flags_p3_entry_4kib_p4_absent_lo: reachable");
    }

    //@ obligation C02 C02.set_flags_p3_entry_4kib.shape_p4_absent.documented_outcome bounded="pool of 7 tables (4 path + 3 allocatable); tree-shaped sparse pre-state (target path, one neighbour word per path table, garbage in allocatable frames); page-table indices (511,510,1,0)"
    //@ obligation C02 C02.set_flags_p3_entry_4kib.shape_p4_absent.error_leaves_every_mapping bounded="pool of 7 tables (4 path + 3 allocatable); tree-shaped sparse pre-state (target path, one neighbour word per path table, garbage in allocatable frames); page-table indices (511,510,1,0)"
    //@ obligation C09 C09.set_flags_p3_entry_4kib.shape_p4_absent.only_dictated_slots_change bounded="pool of 7 tables (4 path + 3 allocatable); tree-shaped sparse pre-state (target path, one neighbour word per path table, garbage in allocatable frames); page-table indices (511,510,1,0)"
    //@ obligation C09 C09.set_flags_p3_entry_4kib.shape_p4_absent.no_frames_requested_or_zeroed bounded="pool of 7 tables (4 path + 3 allocatable); tree-shaped sparse pre-state (target path, one neighbour word per path table, garbage in allocatable frames); page-table indices (511,510,1,0)"
    //@ obligation C09 C09.set_flags_p3_entry_4kib.shape_p4_absent.no_dangling_table_pointer bounded="pool of 7 tables (4 path + 3 allocatable); tree-shaped sparse pre-state (target path, one neighbour word per path table, garbage in allocatable frames); page-table indices (511,510,1,0)"
    //@ obligation C09 C09.set_flags_p3_entry_4kib.shape_p4_absent.no_access_outside_page_tables bounded="pool of 7 tables (4 path + 3 allocatable); tree-shaped sparse pre-state (target path, one neighbour word per path table, garbage in allocatable frames); page-table indices (511,510,1,0)"
    #[kani::proof]
    #[kani::stub(PageTable::zero, zero_stub)]
    fn c02_set_flags_p3_entry_4kib_p4_absent_hi() {
        set_flags_step!(Size4KiB, "4kib", "p4_absent", P4_ABSENT, IDX_HI, set_flags_p3_entry, "p3", 1);
        kani::cover!(true, "c02_set_flags_p3_entry_4kib_p4_absent_hi: reachable");
    }

    //@ obligation C02 C02.set_flags_p3_entry_4kib.shape_p4_absent.documented_outcome tier=thorough bounded="pool of 7 tables (4 path + 3 allocatable); tree-shaped sparse pre-state (target path, one neighbour word per path table, garbage in allocatable frames); page-table indices (255,511,0,256)"
    //@ obligation C02 C02.set_flags_p3_entry_4kib.shape_p4_absent.error_leaves_every_mapping tier=thorough bounded="pool of 7 tables (4 path + 3 allocatable); tree-shaped sparse pre-state (target path, one neighbour word per path table, garbage in allocatable frames); page-table indices (255,511,0,256)"
    //@ obligation C09 C09.set_flags_p3_entry_4kib.shape_p4_absent.only_dictated_slots_change tier=thorough bounded="pool of 7 tables (4 path + 3 allocatable); tree-shaped sparse pre-state (target path, one neighbour word per path table, garbage in allocatable frames); page-table indices (255,511,0,256)"
    //@ obligation C09 C09.set_flags_p3_entry_4kib.shape_p4_absent.no_frames_requested_or_zeroed tier=thorough bounded="pool of 7 tables (4 path + 3 allocatable); tree-shaped sparse pre-state (target path, one neighbour word per path table, garbage in allocatable frames); page-table indices (255,511,0,256)"
    //@ obligation C09 C09.set_flags_p3_entry_4kib.shape_p4_absent.no_dangling_table_pointer tier=thorough bounded="pool of 7 tables (4 path + 3 allocatable); tree-shaped sparse pre-state (target path, one neighbour word per path table, garbage in allocatable frames); page-table indices (255,511,0,256)"
    //@ obligation C09 C09.set_flags_p3_entry_4kib.shape_p4_absent.no_access_outside_page_tables tier=thorough bounded="pool of 7 tables (4 path + 3 allocatable); tree-shaped sparse pre-state (target path, one neighbour word per path table, garbage in allocatable frames); page-table indices (255,511,0,256)"
    #[kani::proof]
    #[kani::stub(PageTable::zero, zero_stub)]
    fn c02_set_flags_p3_entry_4kib_p4_absent_mid() {
        set_flags_step!(Size4KiB, "4kib", "p4_absent", P4_ABSENT, IDX_MID, set_flags_p3_entry, "p3", 1);
        kani::cover!(true, "c02_set_flags_p3_entry_4kib_p4_absent_mid: reachable");
    }

    //@ obligation C02 C02.set_flags_p3_entry_4kib.shape_p4_absent.documented_outcome tier=thorough bounded="pool of 7 tables (4 path + 3 allocatable); tree-shaped sparse pre-state (target path, one neighbour word per path table, garbage in allocatable frames); page-table indices (256,0,510,511)"
    //@ obligation C02 C02.set_flags_p3_entry_4kib.shape_p4_absent.error_leaves_every_mapping tier=thorough bounded="pool of 7 tables (4 path + 3 allocatable); tree-shaped sparse pre-state (target path, one neighbour word per path table, garbage in allocatable frames); page-table indices (256,0,510,511)"
    //@ obligation C09 C09.set_flags_p3_entry_4kib.shape_p4_absent.only_dictated_slots_change tier=thorough bounded="pool of 7 tables (4 path + 3 allocatable); tree-shaped sparse pre-state (target path, one neighbour word per path table, garbage in allocatable frames); page-table indices (256,0,510,511)"
    //@ obligation C09 C09.set_flags_p3_entry_4kib.shape_p4_absent.no_frames_requested_or_zeroed tier=thorough bounded="pool of 7 tables (4 path + 3 allocatable); tree-shaped sparse pre-state (target path, one neighbour word per path table, garbage in allocatable frames); page-table indices (256,0,510,511)"
    //@ obligation C09 C09.set_flags_p3_entry_4kib.shape_p4_absent.no_dangling_table_pointer tier=thorough bounded="pool of 7 tables (4 path + 3 allocatable); tree-shaped sparse pre-state (target path, one neighbour word per path table, garbage in allocatable frames); page-table indices (256,0,510,511)"
    //@ obligation C09 C09.set_flags_p3_entry_4kib.shape_p4_absent.no_access_outside_page_tables tier=thorough bounded="pool of 7 tables (4 path + 3 allocatable); tree-shaped sparse pre-state (target path, one neighbour word per path table, garbage in allocatable frames); page-table indices (256,0,510,511)"
    #[kani::proof]
    #[kani::stub(PageTable::zero, zero_stub)]
    fn c02_set_flags_p3_entry_4kib_p4_absent_up() {
        set_flags_step!(Size4KiB, "4kib", "p4_absent", P4_ABSENT, IDX_UP, set_flags_p3_entry, "p3", 1);
        kani::cover!(true, "c02_set_flags_p3_entry_4kib_p4_absent_up: reachable");
    }

    //@ obligation C02 C02.set_flags_p3_entry_4kib.shape_p3_absent.documented_outcome tier=thorough bounded="pool of 7 tables (4 path + 3 allocatable); tree-shaped sparse pre-state (target path, one neighbour word per path table, garbage in allocatable frames); page-table indices (0,1,511,2)"
    //@ obligation C02 C02.set_flags_p3_entry_4kib.shape_p3_absent.error_leaves_every_mapping tier=thorough bounded="pool of 7 tables (4 path + 3 allocatable); tree-shaped sparse pre-state (target path, one neighbour word per path table, garbage in allocatable frames); page-table indices (0,1,511,2)"
    //@ obligation C09 C09.set_flags_p3_entry_4kib.shape_p3_absent.only_dictated_slots_change tier=thorough bounded="pool of 7 tables (4 path + 3 allocatable); tree-shaped sparse pre-state (target path, one neighbour word per path table, garbage in allocatable frames); page-table indices (0,1,511,2)"
    //@ obligation C09 C09.set_flags_p3_entry_4kib.shape_p3_absent.no_frames_requested_or_zeroed tier=thorough bounded="pool of 7 tables (4 path + 3 allocatable); tree-shaped sparse pre-state (target path, one neighbour word per path table, garbage in allocatable frames); page-table indices (0,1,511,2)"
    //@ obligation C09 C09.set_flags_p3_entry_4kib.shape_p3_absent.no_dangling_table_pointer tier=thorough bounded="pool of 7 tables (4 path + 3 allocatable); tree-shaped sparse pre-state (target path, one neighbour word per path table, garbage in allocatable frames); page-table indices (0,1,511,2)"
    //@ obligation C09 C09.set_flags_p3_entry_4kib.shape_p3_absent.no_access_outside_page_tables tier=thorough bounded="pool of 7 tables (4 path + 3 allocatable); tree-shaped sparse pre-state (target path, one neighbour word per path table, garbage in allocatable frames); page-table indices (0,1,511,2)"
    #[kani::proof]
    #[kani::stub(PageTable::zero, zero_stub)]
    fn c02_set_flags_p3_entry_4kib_p3_absent_lo() {
        set_flags_step!(Size4KiB, "4kib", "p3_absent", P3_ABSENT, IDX_LO, set_flags_p3_entry, "p3", 1);
        kani::cover!(true, "c02_set_flags_p3_entry_4kib_p3_absent_lo: reachable");
    }

    //@ obligation C02 C02.set_flags_p3_entry_4kib.shape_p3_absent.documented_outcome tier=thorough bounded="pool of 7 tables (4 path + 3 allocatable); tree-shaped sparse pre-state (target path, one neighbour word per path table, garbage in allocatable frames); page-table indices (511,510,1,0)"
    //@ obligation C02 C02.set_flags_p3_entry_4kib.shape_p3_absent.error_leaves_every_mapping tier=thorough bounded="pool of 7 tables (4 path + 3 allocatable); tree-shaped sparse pre-state (target path, one neighbour word per path table, garbage in allocatable frames); page-table indices (511,510,1,0)"
    //@ obligation C09 C09.set_flags_p3_entry_4kib.shape_p3_absent.only_dictated_slots_change tier=thorough bounded="pool of 7 tables (4 path + 3 allocatable); tree-shaped sparse pre-state (target path, one neighbour word per path table, garbage in allocatable frames); page-table indices (511,510,1,0)"
    //@ obligation C09 C09.set_flags_p3_entry_4kib.shape_p3_absent.no_frames_requested_or_zeroed tier=thorough bounded="pool of 7 tables (4 path + 3 allocatable); tree-shaped sparse pre-state (target path, one neighbour word per path table, garbage in allocatable frames); page-table indices (511,510,1,0)"
    //@ obligation C09 C09.set_flags_p3_entry_4kib.shape_p3_absent.no_dangling_table_pointer tier=thorough bounded="pool of 7 tables (4 path + 3 allocatable); tree-shaped sparse pre-state (target path, one neighbour word per path table, garbage in allocatable frames); page-table indices (511,510,1,0)"
    //@ obligation C09 C09.set_flags_p3_entry_4kib.shape_p3_absent.no_access_outside_page_tables tier=thorough bounded="pool of 7 tables (4 path + 3 allocatable); tree-shaped sparse pre-state (target path, one neighbour word per path table, garbage in allocatable frames); page-table indices (511,510,1,0)"
    #[kani::proof]
    #[kani::stub(PageTable::zero, zero_stub)]
    fn c02_set_flags_p3_entry_4kib_p3_absent_hi() {
        set_flags_step!(Size4KiB, "4kib", "p3_absent", P3_ABSENT, IDX_HI, set_flags_p3_entry, "p3", 1);
        kani::cover!(true, "c02_set_flags_p3_entry_4kib_p3_absent_hi: reachable");
    }

    //@ obligation C02 C02.set_flags_p3_entry_4kib.shape_p3_absent.documented_outcome tier=thorough bounded="pool of 7 tables (4 path + 3 allocatable); tree-shaped sparse pre-state (target path, one neighbour word per path table, garbage in allocatable frames); page-table indices (255,511,0,256)"
    //@ obligation C02 C02.set_flags_p3_entry_4kib.shape_p3_absent.error_leaves_every_mapping tier=thorough bounded="pool of 7 tables (4 path + 3 allocatable); tree-shaped sparse pre-state (target path, one neighbour word per path table, garbage in allocatable frames); page-table indices (255,511,0,256)"
    //@ obligation C09 C09.set_flags_p3_entry_4kib.shape_p3_absent.only_dictated_slots_change tier=thorough bounded="pool of 7 tables (4 path + 3 allocatable); tree-shaped sparse pre-state (target path, one neighbour word per path table, garbage in allocatable frames); page-table indices (255,511,0,256)"
    //@ obligation C09 C09.set_flags_p3_entry_4kib.shape_p3_absent.no_frames_requested_or_zeroed tier=thorough bounded="pool of 7 tables (4 path + 3 allocatable); tree-shaped sparse pre-state (target path, one neighbour word per path table, garbage in allocatable frames); page-table indices (255,511,0,256)"
    //@ obligation C09 C09.set_flags_p3_entry_4kib.shape_p3_absent.no_dangling_table_pointer tier=thorough bounded="pool of 7 tables (4 path + 3 allocatable); tree-shaped sparse pre-state (target path, one neighbour word per path table, garbage in allocatable frames); page-table indices (255,511,0,256)"
    //@ obligation C09 C09.set_flags_p3_entry_4kib.shape_p3_absent.no_access_outside_page_tables tier=thorough bounded="pool of 7 tables (4 path + 3 allocatable); tree-shaped sparse pre-state (target path, one neighbour word per path table, garbage in allocatable frames); page-table indices (255,511,0,256)"
    #[kani::proof]
    #[kani::stub(PageTable::zero, zero_stub)]
    fn c02_set_flags_p3_entry_4kib_p3_absent_mid() {
        set_flags_step!(Size4KiB, "4kib", "p3_absent", P3_ABSENT, IDX_MID, set_flags_p3_entry, "p3", 1);
        kani::cover!(true, "c02_set_flags_p3_entry_4kib_p3_absent_mid: reachable");
    }

    //@ obligation C02 C02.set_flags_p3_entry_4kib.shape_p3_absent.documented_outcome bounded="pool of 7 tables (4 path + 3 allocatable); tree-shaped sparse pre-state (target path, one neighbour word per path table, garbage in allocatable frames); page-table indices (256,0,510,511)"
    //@ obligation C02 C02.set_flags_p3_entry_4kib.shape_p3_absent.error_leaves_every_mapping bounded="pool of 7 tables (4 path + 3 allocatable); tree-shaped sparse pre-state (target path, one neighbour word per path table, garbage in allocatable frames); page-table indices (256,0,510,511)"
    //@ obligation C09 C09.set_flags_p3_entry_4kib.shape_p3_absent.only_dictated_slots_change bounded="pool of 7 tables (4 path + 3 allocatable); tree-shaped sparse pre-state (target path, one neighbour word per path table, garbage in allocatable frames); page-table indices (256,0,510,511)"
    //@ obligation C09 C09.set_flags_p3_entry_4kib.shape_p3_absent.no_frames_requested_or_zeroed bounded="pool of 7 tables (4 path + 3 allocatable); tree-shaped sparse pre-state (target path, one neighbour word per path table, garbage in allocatable frames); page-table indices (256,0,510,511)"
    //@ obligation C09 C09.set_flags_p3_entry_4kib.shape_p3_absent.no_dangling_table_pointer bounded="pool of 7 tables (4 path + 3 allocatable); tree-shaped sparse pre-state (target path, one neighbour word per path table, garbage in allocatable frames); page-table indices (256,0,510,511)"
    //@ obligation C09 C09.set_flags_p3_entry_4kib.shape_p3_absent.no_access_outside_page_tables bounded="pool of 7 tables (4 path + 3 allocatable); tree-shaped sparse pre-state (target path, one neighbour word per path table, garbage in allocatable frames); page-table indices (256,0,510,511)"
    #[kani::proof]
    #[kani::stub(PageTable::zero, zero_stub)]
    fn c02_set_flags_p3_entry_4kib_p3_absent_up() {
        set_flags_step!(Size4KiB, "4kib", "p3_absent", P3_ABSENT, IDX_UP, set_flags_p3_entry, "p3", 1);
        kani::cover!(true, "c02_set_flags_p3_entry_4kib_p3_absent_up: reachable");
    }

    //@ obligation C02 C02.set_flags_p3_entry_4kib.shape_huge_leaf.reports_parent_entry_huge_page_and_unchanged tier=thorough bounded="pool of 7 tables (4 path + 3 allocatable); tree-shaped sparse pre-state (target path, one neighbour word per path table, garbage in allocatable frames); page-table indices (0,1,511,2)"
    //@ obligation C02 C02.set_flags_p3_entry_4kib.shape_huge_leaf.error_leaves_every_mapping tier=thorough bounded="pool of 7 tables (4 path + 3 allocatable); tree-shaped sparse pre-state (target path, one neighbour word per path table, garbage in allocatable frames); page-table indices (0,1,511,2)"
    //@ obligation C09 C09.set_flags_p3_entry_4kib.shape_huge_leaf.only_dictated_slots_change tier=thorough bounded="pool of 7 tables (4 path + 3 allocatable); tree-shaped sparse pre-state (target path, one neighbour word per path table, garbage in allocatable frames); page-table indices (0,1,511,2)"
    //@ obligation C09 C09.set_flags_p3_entry_4kib.shape_huge_leaf.no_frames_requested_or_zeroed tier=thorough bounded="pool of 7 tables (4 path + 3 allocatable); tree-shaped sparse pre-state (target path, one neighbour word per path table, garbage in allocatable frames); page-table indices (0,1,511,2)"
    //@ obligation C09 C09.set_flags_p3_entry_4kib.shape_huge_leaf.no_dangling_table_pointer tier=thorough bounded="pool of 7 tables (4 path + 3 allocatable); tree-shaped sparse pre-state (target path, one neighbour word per path table, garbage in allocatable frames); page-table indices (0,1,511,2)"
    //@ obligation C09 C09.set_flags_p3_entry_4kib.shape_huge_leaf.no_access_outside_page_tables tier=thorough bounded="pool of 7 tables (4 path + 3 allocatable); tree-shaped sparse pre-state (target path, one neighbour word per path table, garbage in allocatable frames); page-table indices (0,1,511,2)"
    #[kani::proof]
    #[kani::stub(PageTable::zero, zero_stub)]
    fn c02_set_flags_p3_entry_4kib_huge_leaf_lo() {
        set_flags_step!(Size4KiB, "4kib", "huge_leaf", P3_HUGE, IDX_LO, set_flags_p3_entry, "p3", 1);
        kani::cover!(true, "c02_set_flags_p3_entry_4kib_huge_leaf_lo: reachable");
    }

    //@ obligation C02 C02.set_flags_p3_entry_4kib.shape_huge_leaf.reports_parent_entry_huge_page_and_unchanged tier=thorough bounded="pool of 7 tables (4 path + 3 allocatable); tree-shaped sparse pre-state (target path, one neighbour word per path table, garbage in allocatable frames); page-table indices (511,510,1,0)"
    //@ obligation C02 C02.set_flags_p3_entry_4kib.shape_huge_leaf.error_leaves_every_mapping tier=thorough bounded="pool of 7 tables (4 path + 3 allocatable); tree-shaped sparse pre-state (target path, one neighbour word per path table, garbage in allocatable frames); page-table indices (511,510,1,0)"
    //@ obligation C09 C09.set_flags_p3_entry_4kib.shape_huge_leaf.only_dictated_slots_change tier=thorough bounded="pool of 7 tables (4 path + 3 allocatable); tree-shaped sparse pre-state (target path, one neighbour word per path table, garbage in allocatable frames); page-table indices (511,510,1,0)"
    //@ obligation C09 C09.set_flags_p3_entry_4kib.shape_huge_leaf.no_frames_requested_or_zeroed tier=thorough bounded="pool of 7 tables (4 path + 3 allocatable); tree-shaped sparse pre-state (target path, one neighbour word per path table, garbage in allocatable frames); page-table indices (511,510,1,0)"
    //@ obligation C09 C09.set_flags_p3_entry_4kib.shape_huge_leaf.no_dangling_table_pointer tier=thorough bounded="pool of 7 tables (4 path + 3 allocatable); tree-shaped sparse pre-state (target path, one neighbour word per path table, garbage in allocatable frames); page-table indices (511,510,1,0)"
    //@ obligation C09 C09.set_flags_p3_entry_4kib.shape_huge_leaf.no_access_outside_page_tables tier=thorough bounded="pool of 7 tables (4 path + 3 allocatable); tree-shaped sparse pre-state (target path, one neighbour word per path table, garbage in allocatable frames); page-table indices (511,510,1,0)"
    #[kani::proof]
    #[kani::stub(PageTable::zero, zero_stub)]
    fn c02_set_flags_p3_entry_4kib_huge_leaf_hi() {
        set_flags_step!(Size4KiB, "4kib", "huge_leaf", P3_HUGE, IDX_HI, set_flags_p3_entry, "p3", 1);
        kani::cover!(true, "c02_set_flags_p3_entry_4kib_huge_leaf_hi: reachable");
    }

    //@ obligation C02 C02.set_flags_p3_entry_4kib.shape_huge_leaf.reports_parent_entry_huge_page_and_unchanged tier=thorough bounded="pool of 7 tables (4 path + 3 allocatable); tree-shaped sparse pre-state (target path, one neighbour word per path table, garbage in allocatable frames); page-table indices (255,511,0,256)"
    //@ obligation C02 C02.set_flags_p3_entry_4kib.shape_huge_leaf.error_leaves_every_mapping tier=thorough bounded="pool of 7 tables (4 path + 3 allocatable); tree-shaped sparse pre-state (target path, one neighbour word per path table, garbage in allocatable frames); page-table indices (255,511,0,256)"
    //@ obligation C09 C09.set_flags_p3_entry_4kib.shape_huge_leaf.only_dictated_slots_change tier=thorough bounded="pool of 7 tables (4 path + 3 allocatable); tree-shaped sparse pre-state (target path, one neighbour word per path table, garbage in allocatable frames); page-table indices (255,511,0,256)"
    //@ obligation C09 C09.set_flags_p3_entry_4kib.shape_huge_leaf.no_frames_requested_or_zeroed tier=thorough bounded="pool of 7 tables (4 path + 3 allocatable); tree-shaped sparse pre-state (target path, one neighbour word per path table, garbage in allocatable frames); page-table indices (255,511,0,256)"
    //@ obligation C09 C09.set_flags_p3_entry_4kib.shape_huge_leaf.no_dangling_table_pointer tier=thorough bounded="pool of 7 tables (4 path + 3 allocatable); tree-shaped sparse pre-state (target path, one neighbour word per path table, garbage in allocatable frames); page-table indices (255,511,0,256)"
    //@ obligation C09 C09.set_flags_p3_entry_4kib.shape_huge_leaf.no_access_outside_page_tables tier=thorough bounded="pool of 7 tables (4 path + 3 allocatable); tree-shaped sparse pre-state (target path, one neighbour word per path table, garbage in allocatable frames); page-table indices (255,511,0,256)"
    #[kani::proof]
    #[kani::stub(PageTable::zero, zero_stub)]
    fn c02_set_flags_p3_entry_4kib_huge_leaf_mid() {
        set_flags_step!(Size4KiB, "4kib", "huge_leaf", P3_HUGE, IDX_MID, set_flags_p3_entry, "p3", 1);
        kani::cover!(true, "c02_set_flags_p3_entry_4kib_huge_leaf_mid: reachable");
    }

    //@ obligation C02 C02.set_flags_p3_entry_4kib.shape_huge_leaf.reports_parent_entry_huge_page_and_unchanged bounded="pool of 7 tables (4 path + 3 allocatable); tree-shaped sparse pre-state (target path, one neighbour word per path table, garbage in allocatable frames); page-table indices (256,0,510,511)"
    //@ obligation C02 C02.set_flags_p3_entry_4kib.shape_huge_leaf.error_leaves_every_mapping bounded="pool of 7 tables (4 path + 3 allocatable); tree-shaped sparse pre-state (target path, one neighbour word per path table, garbage in allocatable frames); page-table indices (256,0,510,511)"
    //@ obligation C09 C09.set_flags_p3_entry_4kib.shape_huge_leaf.only_dictated_slots_change bounded="pool of 7 tables (4 path + 3 allocatable); tree-shaped sparse pre-state (target path, one neighbour word per path table, garbage in allocatable frames); page-table indices (256,0,510,511)"
    //@ obligation C09 C09.set_flags_p3_entry_4kib.shape_huge_leaf.no_frames_requested_or_zeroed bounded="pool of 7 tables (4 path + 3 allocatable); tree-shaped sparse pre-state (target path, one neighbour word per path table, garbage in allocatable frames); page-table indices (256,0,510,511)"
    //@ obligation C09 C09.set_flags_p3_entry_4kib.shape_huge_leaf.no_dangling_table_pointer bounded="pool of 7 tables (4 path + 3 allocatable); tree-shaped sparse pre-state (target path, one neighbour word per path table, garbage in allocatable frames); page-table indices (256,0,510,511)"
    //@ obligation C09 C09.set_flags_p3_entry_4kib.shape_huge_leaf.no_access_outside_page_tables bounded="pool of 7 tables (4 path + 3 allocatable); tree-shaped sparse pre-state (target path, one neighbour word per path table, garbage in allocatable frames); page-table indices (256,0,510,511)"
    #[kani::proof]
    #[kani::stub(PageTable::zero, zero_stub)]
    fn c02_set_flags_p3_entry_4kib_huge_leaf_up() {
        set_flags_step!(Size4KiB, "4kib", "huge_leaf", P3_HUGE, IDX_UP, set_flags_p3_entry, "p3", 1);
        kani::cover!(true, "c02_set_flags_p3_entry_4kib_huge_leaf_up: reachable");
    }

    //@ obligation C02 C02.set_flags_p3_entry_4kib.shape_p3_table.documented_outcome tier=thorough bounded="pool of 7 tables (4 path + 3 allocatable); tree-shaped sparse pre-state (target path, one neighbour word per path table, garbage in allocatable frames); page-table indices (0,1,511,2)"
    //@ obligation C01 C01.set_flags_p3_entry_4kib.shape_p3_table.no_leaf_changes tier=thorough bounded="pool of 7 tables (4 path + 3 allocatable); tree-shaped sparse pre-state (target path, one neighbour word per path table, garbage in allocatable frames); page-table indices (0,1,511,2)"
    //@ obligation C01 C01.set_flags_p3_entry_4kib.shape_p3_table.entry_flags_replaced_address_kept tier=thorough bounded="pool of 7 tables (4 path + 3 allocatable); tree-shaped sparse pre-state (target path, one neighbour word per path table, garbage in allocatable frames); page-table indices (0,1,511,2)"
    //@ obligation C11 C11.set_flags_p3_entry_4kib.shape_p3_table.flush_all_token tier=thorough bounded="pool of 7 tables (4 path + 3 allocatable); tree-shaped sparse pre-state (target path, one neighbour word per path table, garbage in allocatable frames); page-table indices (0,1,511,2)"
    //@ obligation C09 C09.set_flags_p3_entry_4kib.shape_p3_table.only_dictated_slots_change tier=thorough bounded="pool of 7 tables (4 path + 3 allocatable); tree-shaped sparse pre-state (target path, one neighbour word per path table, garbage in allocatable frames); page-table indices (0,1,511,2)"
    //@ obligation C09 C09.set_flags_p3_entry_4kib.shape_p3_table.no_frames_requested_or_zeroed tier=thorough bounded="pool of 7 tables (4 path + 3 allocatable); tree-shaped sparse pre-state (target path, one neighbour word per path table, garbage in allocatable frames); page-table indices (0,1,511,2)"
    //@ obligation C09 C09.set_flags_p3_entry_4kib.shape_p3_table.no_dangling_table_pointer tier=thorough bounded="pool of 7 tables (4 path + 3 allocatable); tree-shaped sparse pre-state (target path, one neighbour word per path table, garbage in allocatable frames); page-table indices (0,1,511,2)"
    //@ obligation C09 C09.set_flags_p3_entry_4kib.shape_p3_table.no_access_outside_page_tables tier=thorough bounded="pool of 7 tables (4 path + 3 allocatable); tree-shaped sparse pre-state (target path, one neighbour word per path table, garbage in allocatable frames); page-table indices (0,1,511,2)"
    #[kani::proof]
    #[kani::stub(PageTable::zero, zero_stub)]
    fn c01_set_flags_p3_entry_4kib_p3_table_lo() {
        set_flags_step!(Size4KiB, "4kib", "p3_table", P2_ABSENT, IDX_LO, set_flags_p3_entry, "p3", 1);
        kani::cover!(true, "c01_set_flags_p3_entry_4kib_p3_table_lo: reachable");
    }

    //@ obligation C02 C02.set_flags_p3_entry_4kib.shape_p3_table.documented_outcome tier=thorough bounded="pool of 7 tables (4 path + 3 allocatable); tree-shaped sparse pre-state (target path, one neighbour word per path table, garbage in allocatable frames); page-table indices (511,510,1,0)"
    //@ obligation C01 C01.set_flags_p3_entry_4kib.shape_p3_table.no_leaf_changes tier=thorough bounded="pool of 7 tables (4 path + 3 allocatable); tree-shaped sparse pre-state (target path, one neighbour word per path table, garbage in allocatable frames); page-table indices (511,510,1,0)"
    //@ obligation C01 C01.set_flags_p3_entry_4kib.shape_p3_table.entry_flags_replaced_address_kept tier=thorough bounded="pool of 7 tables (4 path + 3 allocatable); tree-shaped sparse pre-state (target path, one neighbour word per path table, garbage in allocatable frames); page-table indices (511,510,1,0)"
    //@ obligation C11 C11.set_flags_p3_entry_4kib.shape_p3_table.flush_all_token tier=thorough bounded="pool of 7 tables (4 path + 3 allocatable); tree-shaped sparse pre-state (target path, one neighbour word per path table, garbage in allocatable frames); page-table indices (511,510,1,0)"
    //@ obligation C09 C09.set_flags_p3_entry_4kib.shape_p3_table.only_dictated_slots_change tier=thorough bounded="pool of 7 tables (4 path + 3 allocatable); tree-shaped sparse pre-state (target path, one neighbour word per path table, garbage in allocatable frames); page-table indices (511,510,1,0)"
    //@ obligation C09 C09.set_flags_p3_entry_4kib.shape_p3_table.no_frames_requested_or_zeroed tier=thorough bounded="pool of 7 tables (4 path + 3 allocatable); tree-shaped sparse pre-state (target path, one neighbour word per path table, garbage in allocatable frames); page-table indices (511,510,1,0)"
    //@ obligation C09 C09.set_flags_p3_entry_4kib.shape_p3_table.no_dangling_table_pointer tier=thorough bounded="pool of 7 tables (4 path + 3 allocatable); tree-shaped sparse pre-state (target path, one neighbour word per path table, garbage in allocatable frames); page-table indices (511,510,1,0)"
    //@ obligation C09 C09.set_flags_p3_entry_4kib.shape_p3_table.no_access_outside_page_tables tier=thorough bounded="pool of 7 tables (4 path + 3 allocatable); tree-shaped sparse pre-state (target path, one neighbour word per path table, garbage in allocatable frames); page-table indices (511,510,1,0)"
    #[kani::proof]
    #[kani::stub(PageTable::zero, zero_stub)]
    fn c01_set_flags_p3_entry_4kib_p3_table_hi() {
        set_flags_step!(Size4KiB, "4kib", "p3_table", P2_ABSENT, IDX_HI, set_flags_p3_entry, "p3", 1);
        kani::cover!(true, "c01_set_flags_p3_entry_4kib_p3_table_hi: reachable");
    }

    //@ obligation C02 C02.set_flags_p3_entry_4kib.shape_p3_table.documented_outcome bounded="pool of 7 tables (4 path + 3 allocatable); tree-shaped sparse pre-state (target path, one neighbour word per path table, garbage in allocatable frames); page-table indices (255,511,0,256)"
    //@ obligation C01 C01.set_flags_p3_entry_4kib.shape_p3_table.no_leaf_changes bounded="pool of 7 tables (4 path + 3 allocatable); tree-shaped sparse pre-state (target path, one neighbour word per path table, garbage in allocatable frames); page-table indices (255,511,0,256)"
    //@ obligation C01 C01.set_flags_p3_entry_4kib.shape_p3_table.entry_flags_replaced_address_kept bounded="pool of 7 tables (4 path + 3 allocatable); tree-shaped sparse pre-state (target path, one neighbour word per path table, garbage in allocatable frames); page-table indices (255,511,0,256)"
    //@ obligation C11 C11.set_flags_p3_entry_4kib.shape_p3_table.flush_all_token bounded="pool of 7 tables (4 path + 3 allocatable); tree-shaped sparse pre-state (target path, one neighbour word per path table, garbage in allocatable frames); page-table indices (255,511,0,256)"
    //@ obligation C09 C09.set_flags_p3_entry_4kib.shape_p3_table.only_dictated_slots_change bounded="pool of 7 tables (4 path + 3 allocatable); tree-shaped sparse pre-state (target path, one neighbour word per path table, garbage in allocatable frames); page-table indices (255,511,0,256)"
    //@ obligation C09 C09.set_flags_p3_entry_4kib.shape_p3_table.no_frames_requested_or_zeroed bounded="pool of 7 tables (4 path + 3 allocatable); tree-shaped sparse pre-state (target path, one neighbour word per path table, garbage in allocatable frames); page-table indices (255,511,0,256)"
    //@ obligation C09 C09.set_flags_p3_entry_4kib.shape_p3_table.no_dangling_table_pointer bounded="pool of 7 tables (4 path + 3 allocatable); tree-shaped sparse pre-state (target path, one neighbour word per path table, garbage in allocatable frames); page-table indices (255,511,0,256)"
    //@ obligation C09 C09.set_flags_p3_entry_4kib.shape_p3_table.no_access_outside_page_tables bounded="pool of 7 tables (4 path + 3 allocatable); tree-shaped sparse pre-state (target path, one neighbour word per path table, garbage in allocatable frames); page-table indices (255,511,0,256)"
    #[kani::proof]
    #[kani::stub(PageTable::zero, zero_stub)]
    fn c01_set_flags_p3_entry_4kib_p3_table_mid() {
        set_flags_step!(Size4KiB, "4kib", "p3_table", P2_ABSENT, IDX_MID, set_flags_p3_entry, "p3", 1);
        kani::cover!(true, "c01_set_flags_p3_entry_4kib_p3_table_mid: reachable");
    }

    //@ obligation C02 C02.set_flags_p3_entry_4kib.shape_p3_table.documented_outcome tier=thorough bounded="pool of 7 tables (4 path + 3 allocatable); tree-shaped sparse pre-state (target path, one neighbour word per path table, garbage in allocatable frames); page-table indices (256,0,510,511)"
    //@ obligation C01 C01.set_flags_p3_entry_4kib.shape_p3_table.no_leaf_changes tier=thorough bounded="pool of 7 tables (4 path + 3 allocatable); tree-shaped sparse pre-state (target path, one neighbour word per path table, garbage in allocatable frames); page-table indices (256,0,510,511)"
    //@ obligation C01 C01.set_flags_p3_entry_4kib.shape_p3_table.entry_flags_replaced_address_kept tier=thorough bounded="pool of 7 tables (4 path + 3 allocatable); tree-shaped sparse pre-state (target path, one neighbour word per path table, garbage in allocatable frames); page-table indices (256,0,510,511)"
    //@ obligation C11 C11.set_flags_p3_entry_4kib.shape_p3_table.flush_all_token tier=thorough bounded="pool of 7 tables (4 path + 3 allocatable); tree-shaped sparse pre-state (target path, one neighbour word per path table, garbage in allocatable frames); page-table indices (256,0,510,511)"
    //@ obligation C09 C09.set_flags_p3_entry_4kib.shape_p3_table.only_dictated_slots_change tier=thorough bounded="pool of 7 tables (4 path + 3 allocatable); tree-shaped sparse pre-state (target path, one neighbour word per path table, garbage in allocatable frames); page-table indices (256,0,510,511)"
    //@ obligation C09 C09.set_flags_p3_entry_4kib.shape_p3_table.no_frames_requested_or_zeroed tier=thorough bounded="pool of 7 tables (4 path + 3 allocatable); tree-shaped sparse pre-state (target path, one neighbour word per path table, garbage in allocatable frames); page-table indices (256,0,510,511)"
    //@ obligation C09 C09.set_flags_p3_entry_4kib.shape_p3_table.no_dangling_table_pointer tier=thorough bounded="pool of 7 tables (4 path + 3 allocatable); tree-shaped sparse pre-state (target path, one neighbour word per path table, garbage in allocatable frames); page-table indices (256,0,510,511)"
    //@ obligation C09 C09.set_flags_p3_entry_4kib.shape_p3_table.no_access_outside_page_tables tier=thorough bounded="pool of 7 tables (4 path + 3 allocatable); tree-shaped sparse pre-state (target path, one neighbour word per path table, garbage in allocatable frames); page-table indices (256,0,510,511)"
    #[kani::proof]
    #[kani::stub(PageTable::zero, zero_stub)]
    fn c01_set_flags_p3_entry_4kib_p3_table_up() {
        set_flags_step!(Size4KiB, "4kib", "p3_table", P2_ABSENT, IDX_UP, set_flags_p3_entry, "p3", 1);
        kani::cover!(true, "c01_set_flags_p3_entry_4kib_p3_table_up: reachable");
    }

    //@ obligation C02 C02.set_flags_p3_entry_2mib.shape_p4_absent.documented_outcome bounded="pool of 7 tables (4 path + 3 allocatable); tree-shaped sparse pre-state (target path, one neighbour word per path table, garbage in allocatable frames); page-table indices (0,1,511,2)"
    //@ obligation C02 C02.set_flags_p3_entry_2mib.shape_p4_absent.error_leaves_every_mapping bounded="pool of 7 tables (4 path + 3 allocatable); tree-shaped sparse pre-state (target path, one neighbour word per path table, garbage in allocatable frames); page-table indices (0,1,511,2)"
    //@ obligation C09 C09.set_flags_p3_entry_2mib.shape_p4_absent.only_dictated_slots_change bounded="pool of 7 tables (4 path + 3 allocatable); tree-shaped sparse pre-state (target path, one neighbour word per path table, garbage in allocatable frames); page-table indices (0,1,511,2)"
    //@ obligation C09 C09.set_flags_p3_entry_2mib.shape_p4_absent.no_frames_requested_or_zeroed bounded="pool of 7 tables (4 path + 3 allocatable); tree-shaped sparse pre-state (target path, one neighbour word per path table, garbage in allocatable frames); page-table indices (0,1,511,2)"
    //@ obligation C09 C09.set_flags_p3_entry_2mib.shape_p4_absent.no_dangling_table_pointer bounded="pool of 7 tables (4 path + 3 allocatable); tree-shaped sparse pre-state (target path, one neighbour word per path table, garbage in allocatable frames); page-table indices (0,1,511,2)"
    //@ obligation C09 C09.set_flags_p3_entry_2mib.shape_p4_absent.no_access_outside_page_tables bounded="pool of 7 tables (4 path + 3 allocatable); tree-shaped sparse pre-state (target path, one neighbour word per path table, garbage in allocatable frames); page-table indices (0,1,511,2)"
    #[kani::proof]
    #[kani::stub(PageTable::zero, zero_stub)]
    fn c02_set_flags_p3_entry_2mib_p4_absent_lo() {
        set_flags_step!(Size2MiB, "2mib", "p4_absent", P4_ABSENT, IDX_LO, set_flags_p3_entry, "p3", 1);
        kani::cover!(true, "c02_set_flags_p3_entry_2mib_p4_absent_lo: reachable");
    }

    //@ obligation C02 C02.set_flags_p3_entry_2mib.shape_p4_absent.documented_outcome tier=thorough bounded="pool of 7 tables (4 path + 3 allocatable); tree-shaped sparse pre-state (target path, one neighbour word per path table, garbage in allocatable frames); page-table indices (511,510,1,0)"
    //@ obligation C02 C02.set_flags_p3_entry_2mib.shape_p4_absent.error_leaves_every_mapping tier=thorough bounded="pool of 7 tables (4 path + 3 allocatable); tree-shaped sparse pre-state (target path, one neighbour word per path table, garbage in allocatable frames); page-table indices (511,510,1,0)"
    //@ obligation C09 C09.set_flags_p3_entry_2mib.shape_p4_absent.only_dictated_slots_change tier=thorough bounded="pool of 7 tables (4 path + 3 allocatable); tree-shaped sparse pre-state (target path, one neighbour word per path table, garbage in allocatable frames); page-table indices (511,510,1,0)"
    //@ obligation C09 C09.set_flags_p3_entry_2mib.shape_p4_absent.no_frames_requested_or_zeroed tier=thorough bounded="pool of 7 tables (4 path + 3 allocatable); tree-shaped sparse pre-state (target path, one neighbour word per path table, garbage in allocatable frames); page-table indices (511,510,1,0)"
    //@ obligation C09 C09.set_flags_p3_entry_2mib.shape_p4_absent.no_dangling_table_pointer tier=thorough bounded="pool of 7 tables (4 path + 3 allocatable); tree-shaped sparse pre-state (target path, one neighbour word per path table, garbage in allocatable frames); page-table indices (511,510,1,0)"
    //@ obligation C09 C09.set_flags_p3_entry_2mib.shape_p4_absent.no_access_outside_page_tables tier=thorough bounded="pool of 7 tables (4 path + 3 allocatable); tree-shaped sparse pre-state (target path, one neighbour word per path table, garbage in allocatable frames); page-table indices (511,510,1,0)"
    #[kani::proof]
    #[kani::stub(PageTable::zero, zero_stub)]
    fn c02_set_flags_p3_entry_2mib_p4_absent_hi() {
        set_flags_step!(Size2MiB, "2mib", "p4_absent", P4_ABSENT, IDX_HI, set_flags_p3_entry, "p3", 1);
        kani::cover!(true, "c02_set_flags_p3_entry_2mib_p4_absent_hi: reachable");
    }

    //@ obligation C02 C02.set_flags_p3_entry_2mib.shape_p4_absent.documented_outcome tier=thorough bounded="pool of 7 tables (4 path + 3 allocatable); tree-shaped sparse pre-state (target path, one neighbour word per path table, garbage in allocatable frames); page-table indices (255,511,0,256)"
    //@ obligation C02 C02.set_flags_p3_entry_2mib.shape_p4_absent.error_leaves_every_mapping tier=thorough bounded="pool of 7 tables (4 path + 3 allocatable); tree-shaped sparse pre-state (target path, one neighbour word per path table, garbage in allocatable frames); page-table indices (255,511,0,256)"
    //@ obligation C09 C09.set_flags_p3_entry_2mib.shape_p4_absent.only_dictated_slots_change tier=thorough bounded="pool of 7 tables (4 path + 3 allocatable); tree-shaped sparse pre-state (target path, one neighbour word per path table, garbage in allocatable frames); page-table indices (255,511,0,256)"
    //@ obligation C09 C09.set_flags_p3_entry_2mib.shape_p4_absent.no_frames_requested_or_zeroed tier=thorough bounded="pool of 7 tables (4 path + 3 allocatable); tree-shaped sparse pre-state (target path, one neighbour word per path table, garbage in allocatable frames); page-table indices (255,511,0,256)"
    //@ obligation C09 C09.set_flags_p3_entry_2mib.shape_p4_absent.no_dangling_table_pointer tier=thorough bounded="pool of 7 tables (4 path + 3 allocatable); tree-shaped sparse pre-state (target path, one neighbour word per path table, garbage in allocatable frames); page-table indices (255,511,0,256)"
    //@ obligation C09 C09.set_flags_p3_entry_2mib.shape_p4_absent.no_access_outside_page_tables tier=thorough bounded="pool of 7 tables (4 path + 3 allocatable); tree-shaped sparse pre-state (target path, one neighbour word per path table, garbage in allocatable frames); page-table indices (255,511,0,256)"
    #[kani::proof]
    #[kani::stub(PageTable::zero, zero_stub)]
    fn c02_set_flags_p3_entry_2mib_p4_absent_mid() {
        set_flags_step!(Size2MiB, "2mib", "p4_absent", P4_ABSENT, IDX_MID, set_flags_p3_entry, "p3", 1);
        kani::cover!(true, "c02_set_flags_p3_entry_2mib_p4_absent_mid: reachable");
    }

    //@ obligation C02 C02.set_flags_p3_entry_2mib.shape_p4_absent.documented_outcome tier=thorough bounded="pool of 7 tables (4 path + 3 allocatable); tree-shaped sparse pre-state (target path, one neighbour word per path table, garbage in allocatable frames); page-table indices (256,0,510,511)"
    //@ obligation C02 C02.set_flags_p3_entry_2mib.shape_p4_absent.error_leaves_every_mapping tier=thorough bounded="pool of 7 tables (4 path + 3 allocatable); tree-shaped sparse pre-state (target path, one neighbour word per path table, garbage in allocatable frames); page-table indices (256,0,510,511)"
    //@ obligation C09 C09.set_flags_p3_entry_2mib.shape_p4_absent.only_dictated_slots_change tier=thorough bounded="pool of 7 tables (4 path + 3 allocatable); tree-shaped sparse pre-state (target path, one neighbour word per path table, garbage in allocatable frames); page-table indices (256,0,510,511)"
    //@ obligation C09 C09.set_flags_p3_entry_2mib.shape_p4_absent.no_frames_requested_or_zeroed tier=thorough bounded="pool of 7 tables (4 path + 3 allocatable); tree-shaped sparse pre-state (target path, one neighbour word per path table, garbage in allocatable frames); page-table indices (256,0,510,511)"
    //@ obligation C09 C09.set_flags_p3_entry_2mib.shape_p4_absent.no_dangling_table_pointer tier=thorough bounded="pool of 7 tables (4 path + 3 allocatable); tree-shaped sparse pre-state (target path, one neighbour word per path table, garbage in allocatable frames); page-table indices (256,0,510,511)"
    //@ obligation C09 C09.set_flags_p3_entry_2mib.shape_p4_absent.no_access_outside_page_tables tier=thorough bounded="pool of 7 tables (4 path + 3 allocatable); tree-shaped sparse pre-state (target path, one neighbour word per path table, garbage in allocatable frames); page-table indices (256,0,510,511)"
    #[kani::proof]
    #[kani::stub(PageTable::zero, zero_stub)]
    fn c02_set_flags_p3_entry_2mib_p4_absent_up() {
        set_flags_step!(Size2MiB, "2mib", "p4_absent", P4_ABSENT, IDX_UP, set_flags_p3_entry, "p3", 1);
        kani::cover!(true, "c02_set_flags_p3_entry_2mib_p4_absent_up: reachable");
    }

    //@ obligation C02 C02.set_flags_p3_entry_2mib.shape_p3_absent.documented_outcome tier=thorough bounded="pool of 7 tables (4 path + 3 allocatable); tree-shaped sparse pre-state (target path, one neighbour word per path table, garbage in allocatable frames); page-table indices (0,1,511,2)"
    //@ obligation C02 C02.set_flags_p3_entry_2mib.shape_p3_absent.error_leaves_every_mapping tier=thorough bounded="pool of 7 tables (4 path + 3 allocatable); tree-shaped sparse pre-state (target path, one neighbour word per path table, garbage in allocatable frames); page-table indices (0,1,511,2)"
    //@ obligation C09 C09.set_flags_p3_entry_2mib.shape_p3_absent.only_dictated_slots_change tier=thorough bounded="pool of 7 tables (4 path + 3 allocatable); tree-shaped sparse pre-state (target path, one neighbour word per path table, garbage in allocatable frames); page-table indices (0,1,511,2)"
    //@ obligation C09 C09.set_flags_p3_entry_2mib.shape_p3_absent.no_frames_requested_or_zeroed tier=thorough bounded="pool of 7 tables (4 path + 3 allocatable); tree-shaped sparse pre-state (target path, one neighbour word per path table, garbage in allocatable frames); page-table indices (0,1,511,2)"
    //@ obligation C09 C09.set_flags_p3_entry_2mib.shape_p3_absent.no_dangling_table_pointer tier=thorough bounded="pool of 7 tables (4 path + 3 allocatable); tree-shaped sparse pre-state (target path, one neighbour word per path table, garbage in allocatable frames); page-table indices (0,1,511,2)"
    //@ obligation C09 C09.set_flags_p3_entry_2mib.shape_p3_absent.no_access_outside_page_tables tier=thorough bounded="pool of 7 tables (4 path + 3 allocatable); tree-shaped sparse pre-state (target path, one neighbour word per path table, garbage in allocatable frames); page-table indices (0,1,511,2)"
    #[kani::proof]
    #[kani::stub(PageTable::zero, zero_stub)]
    fn c02_set_flags_p3_entry_2mib_p3_absent_lo() {
        set_flags_step!(Size2MiB, "2mib", "p3_absent", P3_ABSENT, IDX_LO, set_flags_p3_entry, "p3", 1);
        kani::cover!(true, "c02_set_flags_p3_entry_2mib_p3_absent_lo: reachable");
    }

    //@ obligation C02 C02.set_flags_p3_entry_2mib.shape_p3_absent.documented_outcome tier=thorough bounded="pool of 7 tables (4 path + 3 allocatable); tree-shaped sparse pre-state (target path, one neighbour word per path table, garbage in allocatable frames); page-table indices (511,510,1,0)"
    //@ obligation C02 C02.set_flags_p3_entry_2mib.shape_p3_absent.error_leaves_every_mapping tier=thorough bounded="pool of 7 tables (4 path + 3 allocatable); tree-shaped sparse pre-state (target path, one neighbour word per path table, garbage in allocatable frames); page-table indices (511,510,1,0)"
    //@ obligation C09 C09.set_flags_p3_entry_2mib.shape_p3_absent.only_dictated_slots_change tier=thorough bounded="pool of 7 tables (4 path + 3 allocatable); tree-shaped sparse pre-state (target path, one neighbour word per path table, garbage in allocatable frames); page-table indices (511,510,1,0)"
    //@ obligation C09 C09.set_flags_p3_entry_2mib.shape_p3_absent.no_frames_requested_or_zeroed tier=thorough bounded="pool of 7 tables (4 path + 3 allocatable); tree-shaped sparse pre-state (target path, one neighbour word per path table, garbage in allocatable frames); page-table indices (511,510,1,0)"
    //@ obligation C09 C09.set_flags_p3_entry_2mib.shape_p3_absent.no_dangling_table_pointer tier=thorough bounded="pool of 7 tables (4 path + 3 allocatable); tree-shaped sparse pre-state (target path, one neighbour word per path table, garbage in allocatable frames); page-table indices (511,510,1,0)"
    //@ obligation C09 C09.set_flags_p3_entry_2mib.shape_p3_absent.no_access_outside_page_tables tier=thorough bounded="pool of 7 tables (4 path + 3 allocatable); tree-shaped sparse pre-state (target path, one neighbour word per path table, garbage in allocatable frames); page-table indices (511,510,1,0)"
    #[kani::proof]
    #[kani::stub(PageTable::zero, zero_stub)]
    fn c02_set_flags_p3_entry_2mib_p3_absent_hi() {
        set_flags_step!(Size2MiB, "2mib", "p3_absent", P3_ABSENT, IDX_HI, set_flags_p3_entry, "p3", 1);
        kani::cover!(true, "c02_set_flags_p3_entry_2mib_p3_absent_hi: reachable");
    }

    //@ obligation C02 C02.set_flags_p3_entry_2mib.shape_p3_absent.documented_outcome bounded="pool of 7 tables (4 path + 3 allocatable); tree-shaped sparse pre-state (target path, one neighbour word per path table, garbage in allocatable frames); page-table indices (255,511,0,256)"
    //@ obligation C02 C02.set_flags_p3_entry_2mib.shape_p3_absent.error_leaves_every_mapping bounded="pool of 7 tables (4 path + 3 allocatable); tree-shaped sparse pre-state (target path, one neighbour word per path table, garbage in allocatable frames); page-table indices (255,511,0,256)"
    //@ obligation C09 C09.set_flags_p3_entry_2mib.shape_p3_absent.only_dictated_slots_change bounded="pool of 7 tables (4 path + 3 allocatable); tree-shaped sparse pre-state (target path, one neighbour word per path table, garbage in allocatable frames); page-table indices (255,511,0,256)"
    //@ obligation C09 C09.set_flags_p3_entry_2mib.shape_p3_absent.no_frames_requested_or_zeroed bounded="pool of 7 tables (4 path + 3 allocatable); tree-shaped sparse pre-state (target path, one neighbour word per path table, garbage in allocatable frames); page-table indices (255,511,0,256)"
    //@ obligation C09 C09.set_flags_p3_entry_2mib.shape_p3_absent.no_dangling_table_pointer bounded="pool of 7 tables (4 path + 3 allocatable); tree-shaped sparse pre-state (target path, one neighbour word per path table, garbage in allocatable frames); page-table indices (255,511,0,256)"
    //@ obligation C09 C09.set_flags_p3_entry_2mib.shape_p3_absent.no_access_outside_page_tables bounded="pool of 7 tables (4 path + 3 allocatable); tree-shaped sparse pre-state (target path, one neighbour word per path table, garbage in allocatable frames); page-table indices (255,511,0,256)"
    #[kani::proof]
    #[kani::stub(PageTable::zero, zero_stub)]
    fn c02_set_flags_p3_entry_2mib_p3_absent_mid() {
        set_flags_step!(Size2MiB, "2mib", "p3_absent", P3_ABSENT, IDX_MID, set_flags_p3_entry, "p3", 1);
        kani::cover!(true, "c02_set_flags_p3_entry_2mib_p3_absent_mid: reachable");
    }

    //@ obligation C02 C02.set_flags_p3_entry_2mib.shape_p3_absent.documented_outcome tier=thorough bounded="pool of 7 tables (4 path + 3 allocatable); tree-shaped sparse pre-state (target path, one neighbour word per path table, garbage in allocatable frames); page-table indices (256,0,510,511)"
    //@ obligation C02 C02.set_flags_p3_entry_2mib.shape_p3_absent.error_leaves_every_mapping tier=thorough bounded="pool of 7 tables (4 path + 3 allocatable); tree-shaped sparse pre-state (target path, one neighbour word per path table, garbage in allocatable frames); page-table indices (256,0,510,511)"
    //@ obligation C09 C09.set_flags_p3_entry_2mib.shape_p3_absent.only_dictated_slots_change tier=thorough bounded="pool of 7 tables (4 path + 3 allocatable); tree-shaped sparse pre-state (target path, one neighbour word per path table, garbage in allocatable frames); page-table indices (256,0,510,511)"
    //@ obligation C09 C09.set_flags_p3_entry_2mib.shape_p3_absent.no_frames_requested_or_zeroed tier=thorough bounded="pool of 7 tables (4 path + 3 allocatable); tree-shaped sparse pre-state (target path, one neighbour word per path table, garbage in allocatable frames); page-table indices (256,0,510,511)"
    //@ obligation C09 C09.set_flags_p3_entry_2mib.shape_p3_absent.no_dangling_table_pointer tier=thorough bounded="pool of 7 tables (4 path + 3 allocatable); tree-shaped sparse pre-state (target path, one neighbour word per path table, garbage in allocatable frames); page-table indices (256,0,510,511)"
    //@ obligation C09 C09.set_flags_p3_entry_2mib.shape_p3_absent.no_access_outside_page_tables tier=thorough bounded="pool of 7 tables (4 path + 3 allocatable); tree-shaped sparse pre-state (target path, one neighbour word per path table, garbage in allocatable frames); page-table indices (256,0,510,511)"
    #[kani::proof]
    #[kani::stub(PageTable::zero, zero_stub)]
    fn c02_set_flags_p3_entry_2mib_p3_absent_up() {
        set_flags_step!(Size2MiB, "2mib", "p3_absent", P3_ABSENT, IDX_UP, set_flags_p3_entry, "p3", 1);
        kani::cover!(true, "c02_set_flags_p3_entry_2mib_p3_absent_up: reachable");
    }

    //@ obligation C02 C02.set_flags_p3_entry_2mib.shape_huge_leaf.reports_parent_entry_huge_page_and_unchanged tier=thorough bounded="pool of 7 tables (4 path + 3 allocatable); tree-shaped sparse pre-state (target path, one neighbour word per path table, garbage in allocatable frames); page-table indices (0,1,511,2)"
    //@ obligation C02 C02.set_flags_p3_entry_2mib.shape_huge_leaf.error_leaves_every_mapping tier=thorough bounded="pool of 7 tables (4 path + 3 allocatable); tree-shaped sparse pre-state (target path, one neighbour word per path table, garbage in allocatable frames); page-table indices (0,1,511,2)"
    //@ obligation C09 C09.set_flags_p3_entry_2mib.shape_huge_leaf.only_dictated_slots_change tier=thorough bounded="pool of 7 tables (4 path + 3 allocatable); tree-shaped sparse pre-state (target path, one neighbour word per path table, garbage in allocatable frames); page-table indices (0,1,511,2)"
    //@ obligation C09 C09.set_flags_p3_entry_2mib.shape_huge_leaf.no_frames_requested_or_zeroed tier=thorough bounded="pool of 7 tables (4 path + 3 allocatable); tree-shaped sparse pre-state (target path, one neighbour word per path table, garbage in allocatable frames); page-table indices (0,1,511,2)"
    //@ obligation C09 C09.set_flags_p3_entry_2mib.shape_huge_leaf.no_dangling_table_pointer tier=thorough bounded="pool of 7 tables (4 path + 3 allocatable); tree-shaped sparse pre-state (target path, one neighbour word per path table, garbage in allocatable frames); page-table indices (0,1,511,2)"
    //@ obligation C09 C09.set_flags_p3_entry_2mib.shape_huge_leaf.no_access_outside_page_tables tier=thorough bounded="pool of 7 tables (4 path + 3 allocatable); tree-shaped sparse pre-state (target path, one neighbour word per path table, garbage in allocatable frames); page-table indices (0,1,511,2)"
    #[kani::proof]
    #[kani::stub(PageTable::zero, zero_stub)]
    fn c02_set_flags_p3_entry_2mib_huge_leaf_lo() {
        set_flags_step!(Size2MiB, "2mib", "huge_leaf", P3_HUGE, IDX_LO, set_flags_p3_entry, "p3", 1);
        kani::cover!(true, "c02_set_flags_p3_entry_2mib_huge_leaf_lo: reachable");
    }

    //@ obligation C02 C02.set_flags_p3_entry_2mib.shape_huge_leaf.reports_parent_entry_huge_page_and_unchanged tier=thorough bounded="pool of 7 tables (4 path + 3 allocatable); tree-shaped sparse pre-state (target path, one neighbour word per path table, garbage in allocatable frames); page-table indices (511,510,1,0)"
    //@ obligation C02 C02.set_flags_p3_entry_2mib.shape_huge_leaf.error_leaves_every_mapping tier=thorough bounded="pool of 7 tables (4 path + 3 allocatable); tree-shaped sparse pre-state (target path, one neighbour word per path table, garbage in allocatable frames); page-table indices (511,510,1,0)"
    //@ obligation C09 C09.set_flags_p3_entry_2mib.shape_huge_leaf.only_dictated_slots_change tier=thorough bounded="pool of 7 tables (4 path + 3 allocatable); tree-shaped sparse pre-state (target path, one neighbour word per path table, garbage in allocatable frames); page-table indices (511,510,1,0)"
    //@ obligation C09 C09.set_flags_p3_entry_2mib.shape_huge_leaf.no_frames_requested_or_zeroed tier=thorough bounded="pool of 7 tables (4 path + 3 allocatable); tree-shaped sparse pre-state (target path, one neighbour word per path table, garbage in allocatable frames); page-table indices (511,510,1,0)"
    //@ obligation C09 C09.set_flags_p3_entry_2mib.shape_huge_leaf.no_dangling_table_pointer tier=thorough bounded="pool of 7 tables (4 path + 3 allocatable); tree-shaped sparse pre-state (target path, one neighbour word per path table, garbage in allocatable frames); page-table indices (511,510,1,0)"
    //@ obligation C09 C09.set_flags_p3_entry_2mib.shape_huge_leaf.no_access_outside_page_tables tier=thorough bounded="pool of 7 tables (4 path + 3 allocatable); tree-shaped sparse pre-state (target path, one neighbour word per path table, garbage in allocatable frames); page-table indices (511,510,1,0)"
    #[kani::proof]
    #[kani::stub(PageTable::zero, zero_stub)]
    fn c02_set_flags_p3_entry_2mib_huge_leaf_hi() {
        set_flags_step!(Size2MiB, "2mib", "huge_leaf", P3_HUGE, IDX_HI, set_flags_p3_entry, "p3", 1);
        kani::cover!(true, "c02_set_flags_p3_entry_2mib_huge_leaf_hi: reachable");
    }

    //@ obligation C02 C02.set_flags_p3_entry_2mib.shape_huge_leaf.reports_parent_entry_huge_page_and_unchanged bounded="pool of 7 tables (4 path + 3 allocatable); tree-shaped sparse pre-state (target path, one neighbour word per path table, garbage in allocatable frames); page-table indices (255,511,0,256)"
    //@ obligation C02 C02.set_flags_p3_entry_2mib.shape_huge_leaf.error_leaves_every_mapping bounded="pool of 7 tables (4 path + 3 allocatable); tree-shaped sparse pre-state (target path, one neighbour word per path table, garbage in allocatable frames); page-table indices (255,511,0,256)"
    //@ obligation C09 C09.set_flags_p3_entry_2mib.shape_huge_leaf.only_dictated_slots_change bounded="pool of 7 tables (4 path + 3 allocatable); tree-shaped sparse pre-state (target path, one neighbour word per path table, garbage in allocatable frames); page-table indices (255,511,0,256)"
    //@ obligation C09 C09.set_flags_p3_entry_2mib.shape_huge_leaf.no_frames_requested_or_zeroed bounded="pool of 7 tables (4 path + 3 allocatable); tree-shaped sparse pre-state (target path, one neighbour word per path table, garbage in allocatable frames); page-table indices (255,511,0,256)"
    //@ obligation C09 C09.set_flags_p3_entry_2mib.shape_huge_leaf.no_dangling_table_pointer bounded="pool of 7 tables (4 path + 3 allocatable); tree-shaped sparse pre-state (target path, one neighbour word per path table, garbage in allocatable frames); page-table indices (255,511,0,256)"
    //@ obligation C09 C09.set_flags_p3_entry_2mib.shape_huge_leaf.no_access_outside_page_tables bounded="pool of 7 tables (4 path + 3 allocatable); tree-shaped sparse pre-state (target path, one neighbour word per path table, garbage in allocatable frames); page-table indices (255,511,0,256)"
    #[kani::proof]
    #[kani::stub(PageTable::zero, zero_stub)]
    fn c02_set_flags_p3_entry_2mib_huge_leaf_mid() {
        set_flags_step!(Size2MiB, "2mib", "huge_leaf", P3_HUGE, IDX_MID, set_flags_p3_entry, "p3", 1);
        kani::cover!(true, "c02_set_flags_p3_entry_2mib_huge_leaf_mid: reachable");
    }

    //@ obligation C02 C02.set_flags_p3_entry_2mib.shape_huge_leaf.reports_parent_entry_huge_page_and_unchanged tier=thorough bounded="pool of 7 tables (4 path + 3 allocatable); tree-shaped sparse pre-state (target path, one neighbour word per path table, garbage in allocatable frames); page-table indices (256,0,510,511)"
    //@ obligation C02 C02.set_flags_p3_entry_2mib.shape_huge_leaf.error_leaves_every_mapping tier=thorough bounded="pool of 7 tables (4 path + 3 allocatable); tree-shaped sparse pre-state (target path, one neighbour word per path table, garbage in allocatable frames); page-table indices (256,0,510,511)"
    //@ obligation C09 C09.set_flags_p3_entry_2mib.shape_huge_leaf.only_dictated_slots_change tier=thorough bounded="pool of 7 tables (4 path + 3 allocatable); tree-shaped sparse pre-state (target path, one neighbour word per path table, garbage in allocatable frames); page-table indices (256,0,510,511)"
    //@ obligation C09 C09.set_flags_p3_entry_2mib.shape_huge_leaf.no_frames_requested_or_zeroed tier=thorough bounded="pool of 7 tables (4 path + 3 allocatable); tree-shaped sparse pre-state (target path, one neighbour word per path table, garbage in allocatable frames); page-table indices (256,0,510,511)"
    //@ obligation C09 C09.set_flags_p3_entry_2mib.shape_huge_leaf.no_dangling_table_pointer tier=thorough bounded="pool of 7 tables (4 path + 3 allocatable); tree-shaped sparse pre-state (target path, one neighbour word per path table, garbage in allocatable frames); page-table indices (256,0,510,511)"
    //@ obligation C09 C09.set_flags_p3_entry_2mib.shape_huge_leaf.no_access_outside_page_tables tier=thorough bounded="pool of 7 tables (4 path + 3 allocatable); tree-shaped sparse pre-state (target path, one neighbour word per path table, garbage in allocatable frames); page-table indices (256,0,510,511)"
    #[kani::proof]
    #[kani::stub(PageTable::zero, zero_stub)]
    fn c02_set_flags_p3_entry_2mib_huge_leaf_up() {
        set_flags_step!(Size2MiB, "2mib", "huge_leaf", P3_HUGE, IDX_UP, set_flags_p3_entry, "p3", 1);
        kani::cover!(true, "c02_set_flags_p3_entry_2mib_huge_leaf_up: reachable");
    }

    //@ obligation C02 C02.set_flags_p3_entry_2mib.shape_p3_table.documented_outcome tier=thorough bounded="pool of 7 tables (4 path + 3 allocatable); tree-shaped sparse pre-state (target path, one neighbour word per path table, garbage in allocatable frames); page-table indices (0,1,511,2)"
    //@ obligation C01 C01.set_flags_p3_entry_2mib.shape_p3_table.no_leaf_changes tier=thorough bounded="pool of 7 tables (4 path + 3 allocatable); tree-shaped sparse pre-state (target path, one neighbour word per path table, garbage in allocatable frames); page-table indices (0,1,511,2)"
    //@ obligation C01 C01.set_flags_p3_entry_2mib.shape_p3_table.entry_flags_replaced_address_kept tier=thorough bounded="pool of 7 tables (4 path + 3 allocatable); tree-shaped sparse pre-state (target path, one neighbour word per path table, garbage in allocatable frames); page-table indices (0,1,511,2)"
    //@ obligation C11 C11.set_flags_p3_entry_2mib.shape_p3_table.flush_all_token tier=thorough bounded="pool of 7 tables (4 path + 3 allocatable); tree-shaped sparse pre-state (target path, one neighbour word per path table, garbage in allocatable frames); page-table indices (0,1,511,2)"
    //@ obligation C09 C09.set_flags_p3_entry_2mib.shape_p3_table.only_dictated_slots_change tier=thorough bounded="pool of 7 tables (4 path + 3 allocatable); tree-shaped sparse pre-state (target path, one neighbour word per path table, garbage in allocatable frames); page-table indices (0,1,511,2)"
    //@ obligation C09 C09.set_flags_p3_entry_2mib.shape_p3_table.no_frames_requested_or_zeroed tier=thorough bounded="pool of 7 tables (4 path + 3 allocatable); tree-shaped sparse pre-state (target path, one neighbour word per path table, garbage in allocatable frames); page-table indices (0,1,511,2)"
    //@ obligation C09 C09.set_flags_p3_entry_2mib.shape_p3_table.no_dangling_table_pointer tier=thorough bounded="pool of 7 tables (4 path + 3 allocatable); tree-shaped sparse pre-state (target path, one neighbour word per path table, garbage in allocatable frames); page-table indices (0,1,511,2)"
    //@ obligation C09 C09.set_flags_p3_entry_2mib.shape_p3_table.no_access_outside_page_tables tier=thorough bounded="pool of 7 tables (4 path + 3 allocatable); tree-shaped sparse pre-state (target path, one neighbour word per path table, garbage in allocatable frames); page-table indices (0,1,511,2)"
    #[kani::proof]
    #[kani::stub(PageTable::zero, zero_stub)]
    fn c01_set_flags_p3_entry_2mib_p3_table_lo() {
        set_flags_step!(Size2MiB, "2mib", "p3_table", P2_ABSENT, IDX_LO, set_flags_p3_entry, "p3", 1);
        kani::cover!(true, "c01_set_flags_p3_entry_2mib_p3_table_lo: reachable");
    }

    //@ obligation C02 C02.set_flags_p3_entry_2mib.shape_p3_table.documented_outcome tier=thorough bounded="pool of 7 tables (4 path + 3 allocatable); tree-shaped sparse pre-state (target path, one neighbour word per path table, garbage in allocatable frames); page-table indices (511,510,1,0)"
    //@ obligation C01 C01.set_flags_p3_entry_2mib.shape_p3_table.no_leaf_changes tier=thorough bounded="pool of 7 tables (4 path + 3 allocatable); tree-shaped sparse pre-state (target path, one neighbour word per path table, garbage in allocatable frames); page-table indices (511,510,1,0)"
    //@ obligation C01 C01.set_flags_p3_entry_2mib.shape_p3_table.entry_flags_replaced_address_kept tier=thorough bounded="pool of 7 tables (4 path + 3 allocatable); tree-shaped sparse pre-state (target path, one neighbour word per path table, garbage in allocatable frames); page-table indices (511,510,1,0)"
    //@ obligation C11 C11.set_flags_p3_entry_2mib.shape_p3_table.flush_all_token tier=thorough bounded="pool of 7 tables (4 path + 3 allocatable); tree-shaped sparse pre-state (target path, one neighbour word per path table, garbage in allocatable frames); page-table indices (511,510,1,0)"
    //@ obligation C09 C09.set_flags_p3_entry_2mib.shape_p3_table.only_dictated_slots_change tier=thorough bounded="pool of 7 tables (4 path + 3 allocatable); tree-shaped sparse pre-state (target path, one neighbour word per path table, garbage in allocatable frames); page-table indices (511,510,1,0)"
    //@ obligation C09 C09.set_flags_p3_entry_2mib.shape_p3_table.no_frames_requested_or_zeroed tier=thorough bounded="pool of 7 tables (4 path + 3 allocatable); tree-shaped sparse pre-state (target path, one neighbour word per path table, garbage in allocatable frames); page-table indices (511,510,1,0)"
    //@ obligation C09 C09.set_flags_p3_entry_2mib.shape_p3_table.no_dangling_table_pointer tier=thorough bounded="pool of 7 tables (4 path + 3 allocatable); tree-shaped sparse pre-state (target path, one neighbour word per path table, garbage in allocatable frames); page-table indices (511,510,1,0)"
    //@ obligation C09 C09.set_flags_p3_entry_2mib.shape_p3_table.no_access_outside_page_tables tier=thorough bounded="pool of 7 tables (4 path + 3 allocatable); tree-shaped sparse pre-state (target path, one neighbour word per path table, garbage in allocatable frames); page-table indices (511,510,1,0)"
    #[kani::proof]
    #[kani::stub(PageTable::zero, zero_stub)]
    fn c01_set_flags_p3_entry_2mib_p3_table_hi() {
        set_flags_step!(Size2MiB, "2mib", "p3_table", P2_ABSENT, IDX_HI, set_flags_p3_entry, "p3", 1);
        kani::cover!(true, "c01_set_flags_p3_entry_2mib_p3_table_hi: reachable");
    }

    //@ obligation C02 C02.set_flags_p3_entry_2mib.shape_p3_table.documented_outcome tier=thorough bounded="pool of 7 tables (4 path + 3 allocatable); tree-shaped sparse pre-state (target path, one neighbour word per path table, garbage in allocatable frames); page-table indices (255,511,0,256)"
    //@ obligation C01 C01.set_flags_p3_entry_2mib.shape_p3_table.no_leaf_changes tier=thorough bounded="pool of 7 tables (4 path + 3 allocatable); tree-shaped sparse pre-state (target path, one neighbour word per path table, garbage in allocatable frames); page-table indices (255,511,0,256)"
    //@ obligation C01 C01.set_flags_p3_entry_2mib.shape_p3_table.entry_flags_replaced_address_kept tier=thorough bounded="pool of 7 tables (4 path + 3 allocatable); tree-shaped sparse pre-state (target path, one neighbour word per path table, garbage in allocatable frames); page-table indices (255,511,0,256)"
    //@ obligation C11 C11.set_flags_p3_entry_2mib.shape_p3_table.flush_all_token tier=thorough bounded="pool of 7 tables (4 path + 3 allocatable); tree-shaped sparse pre-state (target path, one neighbour word per path table, garbage in allocatable frames); page-table indices (255,511,0,256)"
    //@ obligation C09 C09.set_flags_p3_entry_2mib.shape_p3_table.only_dictated_slots_change tier=thorough bounded="pool of 7 tables (4 path + 3 allocatable); tree-shaped sparse pre-state (target path, one neighbour word per path table, garbage in allocatable frames); page-table indices (255,511,0,256)"
    //@ obligation C09 C09.set_flags_p3_entry_2mib.shape_p3_table.no_frames_requested_or_zeroed tier=thorough bounded="pool of 7 tables (4 path + 3 allocatable); tree-shaped sparse pre-state (target path, one neighbour word per path table, garbage in allocatable frames); page-table indices (255,511,0,256)"
    //@ obligation C09 C09.set_flags_p3_entry_2mib.shape_p3_table.no_dangling_table_pointer tier=thorough bounded="pool of 7 tables (4 path + 3 allocatable); tree-shaped sparse pre-state (target path, one neighbour word per path table, garbage in allocatable frames); page-table indices (255,511,0,256)"
    //@ obligation C09 C09.set_flags_p3_entry_2mib.shape_p3_table.no_access_outside_page_tables tier=thorough bounded="pool of 7 tables (4 path + 3 allocatable); tree-shaped sparse pre-state (target path, one neighbour word per path table, garbage in allocatable frames); page-table indices (255,511,0,256)"
    #[kani::proof]
    #[kani::stub(PageTable::zero, zero_stub)]
    fn c01_set_flags_p3_entry_2mib_p3_table_mid() {
        set_flags_step!(Size2MiB, "2mib", "p3_table", P2_ABSENT, IDX_MID, set_flags_p3_entry, "p3", 1);
        kani::cover!(true, "c01_set_flags_p3_entry_2mib_p3_table_mid: reachable");
    }

    //@ obligation C02 C02.set_flags_p3_entry_2mib.shape_p3_table.documented_outcome bounded="pool of 7 tables (4 path + 3 allocatable); tree-shaped sparse pre-state (target path, one neighbour word per path table, garbage in allocatable frames); page-table indices (256,0,510,511)"
    //@ obligation C01 C01.set_flags_p3_entry_2mib.shape_p3_table.no_leaf_changes bounded="pool of 7 tables (4 path + 3 allocatable); tree-shaped sparse pre-state (target path, one neighbour word per path table, garbage in allocatable frames); page-table indices (256,0,510,511)"
    //@ obligation C01 C01.set_flags_p3_entry_2mib.shape_p3_table.entry_flags_replaced_address_kept bounded="pool of 7 tables (4 path + 3 allocatable); tree-shaped sparse pre-state (target path, one neighbour word per path table, garbage in allocatable frames); page-table indices (256,0,510,511)"
    //@ obligation C11 C11.set_flags_p3_entry_2mib.shape_p3_table.flush_all_token bounded="pool of 7 tables (4 path + 3 allocatable); tree-shaped sparse pre-state (target path, one neighbour word per path table, garbage in allocatable frames); page-table indices (256,0,510,511)"
    //@ obligation C09 C09.set_flags_p3_entry_2mib.shape_p3_table.only_dictated_slots_change bounded="pool of 7 tables (4 path + 3 allocatable); tree-shaped sparse pre-state (target path, one neighbour word per path table, garbage in allocatable frames); page-table indices (256,0,510,511)"
    //@ obligation C09 C09.set_flags_p3_entry_2mib.shape_p3_table.no_frames_requested_or_zeroed bounded="pool of 7 tables (4 path + 3 allocatable); tree-shaped sparse pre-state (target path, one neighbour word per path table, garbage in allocatable frames); page-table indices (256,0,510,511)"
    //@ obligation C09 C09.set_flags_p3_entry_2mib.shape_p3_table.no_dangling_table_pointer bounded="pool of 7 tables (4 path + 3 allocatable); tree-shaped sparse pre-state (target path, one neighbour word per path table, garbage in allocatable frames); page-table indices (256,0,510,511)"
    //@ obligation C09 C09.set_flags_p3_entry_2mib.shape_p3_table.no_access_outside_page_tables bounded="pool of 7 tables (4 path + 3 allocatable); tree-shaped sparse pre-state (target path, one neighbour word per path table, garbage in allocatable frames); page-table indices (256,0,510,511)"
    #[kani::proof]
    #[kani::stub(PageTable::zero, zero_stub)]
    fn c01_set_flags_p3_entry_2mib_p3_table_up() {
        set_flags_step!(Size2MiB, "2mib", "p3_table", P2_ABSENT, IDX_UP, set_flags_p3_entry, "p3", 1);
        kani::cover!(true, "c01_set_flags_p3_entry_2mib_p3_table_up: reachable");
    }

    //@ obligation C02 C02.set_flags_p3_entry_1gib.shape_any.level_above_leaf_does_not_exist_is_error tier=thorough bounded="pool of 7 tables (4 path + 3 allocatable); tree-shaped sparse pre-state (target path, one neighbour word per path table, garbage in allocatable frames); page-table indices (0,1,511,2)"
    //@ obligation C02 C02.set_flags_p3_entry_1gib.shape_any.error_leaves_every_mapping tier=thorough bounded="pool of 7 tables (4 path + 3 allocatable); tree-shaped sparse pre-state (target path, one neighbour word per path table, garbage in allocatable frames); page-table indices (0,1,511,2)"
    //@ obligation C09 C09.set_flags_p3_entry_1gib.shape_any.only_dictated_slots_change tier=thorough bounded="pool of 7 tables (4 path + 3 allocatable); tree-shaped sparse pre-state (target path, one neighbour word per path table, garbage in allocatable frames); page-table indices (0,1,511,2)"
    //@ obligation C09 C09.set_flags_p3_entry_1gib.shape_any.no_frames_requested_or_zeroed tier=thorough bounded="pool of 7 tables (4 path + 3 allocatable); tree-shaped sparse pre-state (target path, one neighbour word per path table, garbage in allocatable frames); page-table indices (0,1,511,2)"
    //@ obligation C09 C09.set_flags_p3_entry_1gib.shape_any.no_dangling_table_pointer tier=thorough bounded="pool of 7 tables (4 path + 3 allocatable); tree-shaped sparse pre-state (target path, one neighbour word per path table, garbage in allocatable frames); page-table indices (0,1,511,2)"
    //@ obligation C09 C09.set_flags_p3_entry_1gib.shape_any.no_access_outside_page_tables tier=thorough bounded="pool of 7 tables (4 path + 3 allocatable); tree-shaped sparse pre-state (target path, one neighbour word per path table, garbage in allocatable frames); page-table indices (0,1,511,2)"
    #[kani::proof]
    #[kani::stub(PageTable::zero, zero_stub)]
    fn c02_set_flags_p3_entry_1gib_any_lo() {
        set_flags_step!(Size1GiB, "1gib", "any", P3_HUGE, IDX_LO, set_flags_p3_entry, "p3", 1);
        kani::cover!(true, "c02_set_flags_p3_entry_1gib_any_lo: reachable");
    }

    //@ obligation C02 C02.set_flags_p3_entry_1gib.shape_any.level_above_leaf_does_not_exist_is_error tier=thorough bounded="pool of 7 tables (4 path + 3 allocatable); tree-shaped sparse pre-state (target path, one neighbour word per path table, garbage in allocatable frames); page-table indices (511,510,1,0)"
    //@ obligation C02 C02.set_flags_p3_entry_1gib.shape_any.error_leaves_every_mapping tier=thorough bounded="pool of 7 tables (4 path + 3 allocatable); tree-shaped sparse pre-state (target path, one neighbour word per path table, garbage in allocatable frames); page-table indices (511,510,1,0)"
    //@ obligation C09 C09.set_flags_p3_entry_1gib.shape_any.only_dictated_slots_change tier=thorough bounded="pool of 7 tables (4 path + 3 allocatable); tree-shaped sparse pre-state (target path, one neighbour word per path table, garbage in allocatable frames); page-table indices (511,510,1,0)"
    //@ obligation C09 C09.set_flags_p3_entry_1gib.shape_any.no_frames_requested_or_zeroed tier=thorough bounded="pool of 7 tables (4 path + 3 allocatable); tree-shaped sparse pre-state (target path, one neighbour word per path table, garbage in allocatable frames); page-table indices (511,510,1,0)"
    //@ obligation C09 C09.set_flags_p3_entry_1gib.shape_any.no_dangling_table_pointer tier=thorough bounded="pool of 7 tables (4 path + 3 allocatable); tree-shaped sparse pre-state (target path, one neighbour word per path table, garbage in allocatable frames); page-table indices (511,510,1,0)"
    //@ obligation C09 C09.set_flags_p3_entry_1gib.shape_any.no_access_outside_page_tables tier=thorough bounded="pool of 7 tables (4 path + 3 allocatable); tree-shaped sparse pre-state (target path, one neighbour word per path table, garbage in allocatable frames); page-table indices (511,510,1,0)"
    #[kani::proof]
    #[kani::stub(PageTable::zero, zero_stub)]
    fn c02_set_flags_p3_entry_1gib_any_hi() {
        set_flags_step!(Size1GiB, "1gib", "any", P3_HUGE, IDX_HI, set_flags_p3_entry, "p3", 1);
        kani::cover!(true, "c02_set_flags_p3_entry_1gib_any_hi: reachable");
    }

    //@ obligation C02 C02.set_flags_p3_entry_1gib.shape_any.level_above_leaf_does_not_exist_is_error bounded="pool of 7 tables (4 path + 3 allocatable); tree-shaped sparse pre-state (target path, one neighbour word per path table, garbage in allocatable frames); page-table indices (255,511,0,256)"
    //@ obligation C02 C02.set_flags_p3_entry_1gib.shape_any.error_leaves_every_mapping bounded="pool of 7 tables (4 path + 3 allocatable); tree-shaped sparse pre-state (target path, one neighbour word per path table, garbage in allocatable frames); page-table indices (255,511,0,256)"
    //@ obligation C09 C09.set_flags_p3_entry_1gib.shape_any.only_dictated_slots_change bounded="pool of 7 tables (4 path + 3 allocatable); tree-shaped sparse pre-state (target path, one neighbour word per path table, garbage in allocatable frames); page-table indices (255,511,0,256)"
    //@ obligation C09 C09.set_flags_p3_entry_1gib.shape_any.no_frames_requested_or_zeroed bounded="pool of 7 tables (4 path + 3 allocatable); tree-shaped sparse pre-state (target path, one neighbour word per path table, garbage in allocatable frames); page-table indices (255,511,0,256)"
    //@ obligation C09 C09.set_flags_p3_entry_1gib.shape_any.no_dangling_table_pointer bounded="pool of 7 tables (4 path + 3 allocatable); tree-shaped sparse pre-state (target path, one neighbour word per path table, garbage in allocatable frames); page-table indices (255,511,0,256)"
    //@ obligation C09 C09.set_flags_p3_entry_1gib.shape_any.no_access_outside_page_tables bounded="pool of 7 tables (4 path + 3 allocatable); tree-shaped sparse pre-state (target path, one neighbour word per path table, garbage in allocatable frames); page-table indices (255,511,0,256)"
    #[kani::proof]
    #[kani::stub(PageTable::zero, zero_stub)]
    fn c02_set_flags_p3_entry_1gib_any_mid() {
        set_flags_step!(Size1GiB, "1gib", "any", P3_HUGE, IDX_MID, set_flags_p3_entry, "p3", 1);
        kani::cover!(true, "c02_set_flags_p3_entry_1gib_any_mid: reachable");
    }

    //@ obligation C02 C02.set_flags_p3_entry_1gib.shape_any.level_above_leaf_does_not_exist_is_error tier=thorough bounded="pool of 7 tables (4 path + 3 allocatable); tree-shaped sparse pre-state (target path, one neighbour word per path table, garbage in allocatable frames); page-table indices (256,0,510,511)"
    //@ obligation C02 C02.set_flags_p3_entry_1gib.shape_any.error_leaves_every_mapping tier=thorough bounded="pool of 7 tables (4 path + 3 allocatable); tree-shaped sparse pre-state (target path, one neighbour word per path table, garbage in allocatable frames); page-table indices (256,0,510,511)"
    //@ obligation C09 C09.set_flags_p3_entry_1gib.shape_any.only_dictated_slots_change tier=thorough bounded="pool of 7 tables (4 path + 3 allocatable); tree-shaped sparse pre-state (target path, one neighbour word per path table, garbage in allocatable frames); page-table indices (256,0,510,511)"
    //@ obligation C09 C09.set_flags_p3_entry_1gib.shape_any.no_frames_requested_or_zeroed tier=thorough bounded="pool of 7 tables (4 path + 3 allocatable); tree-shaped sparse pre-state (target path, one neighbour word per path table, garbage in allocatable frames); page-table indices (256,0,510,511)"
    //@ obligation C09 C09.set_flags_p3_entry_1gib.shape_any.no_dangling_table_pointer tier=thorough bounded="pool of 7 tables (4 path + 3 allocatable); tree-shaped sparse pre-state (target path, one neighbour word per path table, garbage in allocatable frames); page-table indices (256,0,510,511)"
    //@ obligation C09 C09.set_flags_p3_entry_1gib.shape_any.no_access_outside_page_tables tier=thorough bounded="pool of 7 tables (4 path + 3 allocatable); tree-shaped sparse pre-state (target path, one neighbour word per path table, garbage in allocatable frames); page-table indices (256,0,510,511)"
    #[kani::proof]
    #[kani::stub(PageTable::zero, zero_stub)]
    fn c02_set_flags_p3_entry_1gib_any_up() {
        set_flags_step!(Size1GiB, "1gib", "any", P3_HUGE, IDX_UP, set_flags_p3_entry, "p3", 1);
        kani::cover!(true, "c02_set_flags_p3_entry_1gib_any_up: reachable");
    }

    //@ obligation C02 C02.set_flags_p2_entry_4kib.shape_p4_absent.documented_outcome bounded="pool of 7 tables (4 path + 3 allocatable); tree-shaped sparse pre-state (target path, one neighbour word per path table, garbage in allocatable frames); page-table indices (0,1,511,2)"
    //@ obligation C02 C02.set_flags_p2_entry_4kib.shape_p4_absent.error_leaves_every_mapping bounded="pool of 7 tables (4 path + 3 allocatable); tree-shaped sparse pre-state (target path, one neighbour word per path table, garbage in allocatable frames); page-table indices (0,1,511,2)"
    //@ obligation C09 C09.set_flags_p2_entry_4kib.shape_p4_absent.only_dictated_slots_change bounded="pool of 7 tables (4 path + 3 allocatable); tree-shaped sparse pre-state (target path, one neighbour word per path table, garbage in allocatable frames); page-table indices (0,1,511,2)"
    //@ obligation C09 C09.set_flags_p2_entry_4kib.shape_p4_absent.no_frames_requested_or_zeroed bounded="pool of 7 tables (4 path + 3 allocatable); tree-shaped sparse pre-state (target path, one neighbour word per path table, garbage in allocatable frames); page-table indices (0,1,511,2)"
    //@ obligation C09 C09.set_flags_p2_entry_4kib.shape_p4_absent.no_dangling_table_pointer bounded="pool of 7 tables (4 path + 3 allocatable); tree-shaped sparse pre-state (target path, one neighbour word per path table, garbage in allocatable frames); page-table indices (0,1,511,2)"
    //@ obligation C09 C09.set_flags_p2_entry_4kib.shape_p4_absent.no_access_outside_page_tables bounded="pool of 7 tables (4 path + 3 allocatable); tree-shaped sparse pre-state (target path, one neighbour word per path table, garbage in allocatable frames); page-table indices (0,1,511,2)"
    #[kani::proof]
    #[kani::stub(PageTable::zero, zero_stub)]
    fn c02_set_flags_p2_entry_4kib_p4_absent_lo() {
        set_flags_step!(Size4KiB, "4kib", "p4_absent", P4_ABSENT, IDX_LO, set_flags_p2_entry, "p2", 2);
        kani::cover!(true, "c02_set_flags_p2_entry_4kib_p4_absent_lo: reachable");
    }

    //@ obligation C02 C02.set_flags_p2_entry_4kib.shape_p4_absent.documented_outcome tier=thorough bounded="pool of 7 tables (4 path + 3 allocatable); tree-shaped sparse pre-state (target path, one neighbour word per path table, garbage in allocatable frames); page-table indices (511,510,1,0)"
    //@ obligation C02 C02.set_flags_p2_entry_4kib.shape_p4_absent.error_leaves_every_mapping tier=thorough bounded="pool of 7 tables (4 path + 3 allocatable); tree-shaped sparse pre-state (target path, one neighbour word per path table, garbage in allocatable frames); page-table indices (511,510,1,0)"
    //@ obligation C09 C09.set_flags_p2_entry_4kib.shape_p4_absent.only_dictated_slots_change tier=thorough bounded="pool of 7 tables (4 path + 3 allocatable); tree-shaped sparse pre-state (target path, one neighbour word per path table, garbage in allocatable frames); page-table indices (511,510,1,0)"
    //@ obligation C09 C09.set_flags_p2_entry_4kib.shape_p4_absent.no_frames_requested_or_zeroed tier=thorough bounded="pool of 7 tables (4 path + 3 allocatable); tree-shaped sparse pre-state (target path, one neighbour word per path table, garbage in allocatable frames); page-table indices (511,510,1,0)"
    //@ obligation C09 C09.set_flags_p2_entry_4kib.shape_p4_absent.no_dangling_table_pointer tier=thorough bounded="pool of 7 tables (4 path + 3 allocatable); tree-shaped sparse pre-state (target path, one neighbour word per path table, garbage in allocatable frames); page-table indices (511,510,1,0)"
    //@ obligation C09 C09.set_flags_p2_entry_4kib.shape_p4_absent.no_access_outside_page_tables tier=thorough bounded="pool of 7 tables (4 path + 3 allocatable); tree-shaped sparse pre-state (target path, one neighbour word per path table, garbage in allocatable frames); page-table indices (511,510,1,0)"
    #[kani::proof]
    #[kani::stub(PageTable::zero, zero_stub)]
    fn c02_set_flags_p2_entry_4kib_p4_absent_hi() {
        set_flags_step!(Size4KiB, "4kib", "p4_absent", P4_ABSENT, IDX_HI, set_flags_p2_entry, "p2", 2);
        kani::cover!(true, "c02_set_flags_p2_entry_4kib_p4_absent_hi: reachable");
    }

    //@ obligation C02 C02.set_flags_p2_entry_4kib.shape_p4_absent.documented_outcome tier=thorough bounded="pool of 7 tables (4 path + 3 allocatable); tree-shaped sparse pre-state (target path, one neighbour word per path table, garbage in allocatable frames); page-table indices (255,511,0,256)"
    //@ obligation C02 C02.set_flags_p2_entry_4kib.shape_p4_absent.error_leaves_every_mapping tier=thorough bounded="pool of 7 tables (4 path + 3 allocatable); tree-shaped sparse pre-state (target path, one neighbour word per path table, garbage in allocatable frames); page-table indices (255,511,0,256)"
    //@ obligation C09 C09.set_flags_p2_entry_4kib.shape_p4_absent.only_dictated_slots_change tier=thorough bounded="pool of 7 tables (4 path + 3 allocatable); tree-shaped sparse pre-state (target path, one neighbour word per path table, garbage in allocatable frames); page-table indices (255,511,0,256)"
    //@ obligation C09 C09.set_flags_p2_entry_4kib.shape_p4_absent.no_frames_requested_or_zeroed tier=thorough bounded="pool of 7 tables (4 path + 3 allocatable); tree-shaped sparse pre-state (target path, one neighbour word per path table, garbage in allocatable frames); page-table indices (255,511,0,256)"
    //@ obligation C09 C09.set_flags_p2_entry_4kib.shape_p4_absent.no_dangling_table_pointer tier=thorough bounded="pool of 7 tables (4 path + 3 allocatable); tree-shaped sparse pre-state (target path, one neighbour word per path table, garbage in allocatable frames); page-table indices (255,511,0,256)"
    //@ obligation C09 C09.set_flags_p2_entry_4kib.shape_p4_absent.no_access_outside_page_tables tier=thorough bounded="pool of 7 tables (4 path + 3 allocatable); tree-shaped sparse pre-state (target path, one neighbour word per path table, garbage in allocatable frames); page-table indices (255,511,0,256)"
    #[kani::proof]
    #[kani::stub(PageTable::zero, zero_stub)]
    fn c02_set_flags_p2_entry_4kib_p4_absent_mid() {
        set_flags_step!(Size4KiB, "4kib", "p4_absent", P4_ABSENT, IDX_MID, set_flags_p2_entry, "p2", 2);
        kani::cover!(true, "c02_set_flags_p2_entry_4kib_p4_absent_mid: reachable");
    }

    //@ obligation C02 C02.set_flags_p2_entry_4kib.shape_p4_absent.documented_outcome tier=thorough bounded="pool of 7 tables (4 path + 3 allocatable); tree-shaped sparse pre-state (target path, one neighbour word per path table, garbage in allocatable frames); page-table indices (256,0,510,511)"
    //@ obligation C02 C02.set_flags_p2_entry_4kib.shape_p4_absent.error_leaves_every_mapping tier=thorough bounded="pool of 7 tables (4 path + 3 allocatable); tree-shaped sparse pre-state (target path, one neighbour word per path table, garbage in allocatable frames); page-table indices (256,0,510,511)"
    //@ obligation C09 C09.set_flags_p2_entry_4kib.shape_p4_absent.only_dictated_slots_change tier=thorough bounded="pool of 7 tables (4 path + 3 allocatable); tree-shaped sparse pre-state (target path, one neighbour word per path table, garbage in allocatable frames); page-table indices (256,0,510,511)"
    //@ obligation C09 C09.set_flags_p2_entry_4kib.shape_p4_absent.no_frames_requested_or_zeroed tier=thorough bounded="pool of 7 tables (4 path + 3 allocatable); tree-shaped sparse pre-state (target path, one neighbour word per path table, garbage in allocatable frames); page-table indices (256,0,510,511)"
    //@ obligation C09 C09.set_flags_p2_entry_4kib.shape_p4_absent.no_dangling_table_pointer tier=thorough bounded="pool of 7 tables (4 path + 3 allocatable); tree-shaped sparse pre-state (target path, one neighbour word per path table, garbage in allocatable frames); page-table indices (256,0,510,511)"
    //@ obligation C09 C09.set_flags_p2_entry_4kib.shape_p4_absent.no_access_outside_page_tables tier=thorough bounded="pool of 7 tables (4 path + 3 allocatable); tree-shaped sparse pre-state (target path, one neighbour word per path table, garbage in allocatable frames); page-table indices (256,0,510,511)"
    #[kani::proof]
    #[kani::stub(PageTable::zero, zero_stub)]
    fn c02_set_flags_p2_entry_4kib_p4_absent_up() {
        set_flags_step!(Size4KiB, "4kib", "p4_absent", P4_ABSENT, IDX_UP, set_flags_p2_entry, "p2", 2);
        kani::cover!(true, "c02_set_flags_p2_entry_4kib_p4_absent_up: reachable");
    }

    //@ obligation C02 C02.set_flags_p2_entry_4kib.shape_p3_absent.documented_outcome tier=thorough bounded="pool of 7 tables (4 path + 3 allocatable); tree-shaped sparse pre-state (target path, one neighbour word per path table, garbage in allocatable frames); page-table indices (0,1,511,2)"
    //@ obligation C02 C02.set_flags_p2_entry_4kib.shape_p3_absent.error_leaves_every_mapping tier=thorough bounded="pool of 7 tables (4 path + 3 allocatable); tree-shaped sparse pre-state (target path, one neighbour word per path table, garbage in allocatable frames); page-table indices (0,1,511,2)"
    //@ obligation C09 C09.set_flags_p2_entry_4kib.shape_p3_absent.only_dictated_slots_change tier=thorough bounded="pool of 7 tables (4 path + 3 allocatable); tree-shaped sparse pre-state (target path, one neighbour word per path table, garbage in allocatable frames); page-table indices (0,1,511,2)"
    //@ obligation C09 C09.set_flags_p2_entry_4kib.shape_p3_absent.no_frames_requested_or_zeroed tier=thorough bounded="pool of 7 tables (4 path + 3 allocatable); tree-shaped sparse pre-state (target path, one neighbour word per path table, garbage in allocatable frames); page-table indices (0,1,511,2)"
    //@ obligation C09 C09.set_flags_p2_entry_4kib.shape_p3_absent.no_dangling_table_pointer tier=thorough bounded="pool of 7 tables (4 path + 3 allocatable); tree-shaped sparse pre-state (target path, one neighbour word per path table, garbage in allocatable frames); page-table indices (0,1,511,2)"
    //@ obligation C09 C09.set_flags_p2_entry_4kib.shape_p3_absent.no_access_outside_page_tables tier=thorough bounded="pool of 7 tables (4 path + 3 allocatable); tree-shaped sparse pre-state (target path, one neighbour word per path table, garbage in allocatable frames); page-table indices (0,1,511,2)"
    #[kani::proof]
    #[kani::stub(PageTable::zero, zero_stub)]
    fn c02_set_flags_p2_entry_4kib_p3_absent_lo() {
        set_flags_step!(Size4KiB, "4kib", "p3_absent", P3_ABSENT, IDX_LO, set_flags_p2_entry, "p2", 2);
        kani::cover!(true, "c02_set_flags_p2_entry_4kib_p3_absent_lo: reachable");
    }

    //@ obligation C02 C02.set_flags_p2_entry_4kib.shape_p3_absent.documented_outcome bounded="pool of 7 tables (4 path + 3 allocatable); tree-shaped sparse pre-state (target path, one neighbour word per path table, garbage in allocatable frames); page-table indices (511,510,1,0)"
    //@ obligation C02 C02.set_flags_p2_entry_4kib.shape_p3_absent.error_leaves_every_mapping bounded="pool of 7 tables (4 path + 3 allocatable); tree-shaped sparse pre-state (target path, one neighbour word per path table, garbage in allocatable frames); page-table indices (511,510,1,0)"
    //@ obligation C09 C09.set_flags_p2_entry_4kib.shape_p3_absent.only_dictated_slots_change bounded="pool of 7 tables (4 path + 3 allocatable); tree-shaped sparse pre-state (target path, one neighbour word per path table, garbage in allocatable frames); page-table indices (511,510,1,0)"
    //@ obligation C09 C09.set_flags_p2_entry_4kib.shape_p3_absent.no_frames_requested_or_zeroed bounded="pool of 7 tables (4 path + 3 allocatable); tree-shaped sparse pre-state (target path, one neighbour word per path table, garbage in allocatable frames); page-table indices (511,510,1,0)"
    //@ obligation C09 C09.set_flags_p2_entry_4kib.shape_p3_absent.no_dangling_table_pointer bounded="pool of 7 tables (4 path + 3 allocatable); tree-shaped sparse pre-state (target path, one neighbour word per path table, garbage in allocatable frames); page-table indices (511,510,1,0)"
    //@ obligation C09 C09.set_flags_p2_entry_4kib.shape_p3_absent.no_access_outside_page_tables bounded="pool of 7 tables (4 path + 3 allocatable); tree-shaped sparse pre-state (target path, one neighbour word per path table, garbage in allocatable frames); page-table indices (511,510,1,0)"
    #[kani::proof]
    #[kani::stub(PageTable::zero, zero_stub)]
    fn c02_set_flags_p2_entry_4kib_p3_absent_hi() {
        set_flags_step!(Size4KiB, "4kib", "p3_absent", P3_ABSENT, IDX_HI, set_flags_p2_entry, "p2", 2);
        kani::cover!(true, "c02_set_flags_p2_entry_4kib_p3_absent_hi: reachable");
    }

    //@ obligation C02 C02.set_flags_p2_entry_4kib.shape_p3_absent.documented_outcome tier=thorough bounded="pool of 7 tables (4 path + 3 allocatable); tree-shaped sparse pre-state (target path, one neighbour word per path table, garbage in allocatable frames); page-table indices (255,511,0,256)"
    //@ obligation C02 C02.set_flags_p2_entry_4kib.shape_p3_absent.error_leaves_every_mapping tier=thorough bounded="pool of 7 tables (4 path + 3 allocatable); tree-shaped sparse pre-state (target path, one neighbour word per path table, garbage in allocatable frames); page-table indices (255,511,0,256)"
    //@ obligation C09 C09.set_flags_p2_entry_4kib.shape_p3_absent.only_dictated_slots_change tier=thorough bounded="pool of 7 tables (4 path + 3 allocatable); tree-shaped sparse pre-state (target path, one neighbour word per path table, garbage in allocatable frames); page-table indices (255,511,0,256)"
    //@ obligation C09 C09.set_flags_p2_entry_4kib.shape_p3_absent.no_frames_requested_or_zeroed tier=thorough bounded="pool of 7 tables (4 path + 3 allocatable); tree-shaped sparse pre-state (target path, one neighbour word per path table, garbage in allocatable frames); page-table indices (255,511,0,256)"
    //@ obligation C09 C09.set_flags_p2_entry_4kib.shape_p3_absent.no_dangling_table_pointer tier=thorough bounded="pool of 7 tables (4 path + 3 allocatable); tree-shaped sparse pre-state (target path, one neighbour word per path table, garbage in allocatable frames); page-table indices (255,511,0,256)"
    //@ obligation C09 C09.set_flags_p2_entry_4kib.shape_p3_absent.no_access_outside_page_tables tier=thorough bounded="pool of 7 tables (4 path + 3 allocatable); tree-shaped sparse pre-state (target path, one neighbour word per path table, garbage in allocatable frames); page-table indices (255,511,0,256)"
    #[kani::proof]
    #[kani::stub(PageTable::zero, zero_stub)]
    fn c02_set_flags_p2_entry_4kib_p3_absent_mid() {
        set_flags_step!(Size4KiB, "4kib", "p3_absent", P3_ABSENT, IDX_MID, set_flags_p2_entry, "p2", 2);
        kani::cover!(true, "c02_set_flags_p2_entry_4kib_p3_absent_mid: reachable");
    }

    //@ obligation C02 C02.set_flags_p2_entry_4kib.shape_p3_absent.documented_outcome tier=thorough bounded="pool of 7 tables (4 path + 3 allocatable); tree-shaped sparse pre-state (target path, one neighbour word per path table, garbage in allocatable frames); page-table indices (256,0,510,511)"
    //@ obligation C02 C02.set_flags_p2_entry_4kib.shape_p3_absent.error_leaves_every_mapping tier=thorough bounded="pool of 7 tables (4 path + 3 allocatable); tree-shaped sparse pre-state (target path, one neighbour word per path table, garbage in allocatable frames); page-table indices (256,0,510,511)"
    //@ obligation C09 C09.set_flags_p2_entry_4kib.shape_p3_absent.only_dictated_slots_change tier=thorough bounded="pool of 7 tables (4 path + 3 allocatable); tree-shaped sparse pre-state (target path, one neighbour word per path table, garbage in allocatable frames); page-table indices (256,0,510,511)"
    //@ obligation C09 C09.set_flags_p2_entry_4kib.shape_p3_absent.no_frames_requested_or_zeroed tier=thorough bounded="pool of 7 tables (4 path + 3 allocatable); tree-shaped sparse pre-state (target path, one neighbour word per path table, garbage in allocatable frames); page-table indices (256,0,510,511)"
    //@ obligation C09 C09.set_flags_p2_entry_4kib.shape_p3_absent.no_dangling_table_pointer tier=thorough bounded="pool of 7 tables (4 path + 3 allocatable); tree-shaped sparse pre-state (target path, one neighbour word per path table, garbage in allocatable frames); page-table indices (256,0,510,511)"
    //@ obligation C09 C09.set_flags_p2_entry_4kib.shape_p3_absent.no_access_outside_page_tables tier=thorough bounded="pool of 7 tables (4 path + 3 allocatable); tree-shaped sparse pre-state (target path, one neighbour word per path table, garbage in allocatable frames); page-table indices (256,0,510,511)"
    #[kani::proof]
    #[kani::stub(PageTable::zero, zero_stub)]
    fn c02_set_flags_p2_entry_4kib_p3_absent_up() {
        set_flags_step!(Size4KiB, "4kib", "p3_absent", P3_ABSENT, IDX_UP, set_flags_p2_entry, "p2", 2);
        kani::cover!(true, "c02_set_flags_p2_entry_4kib_p3_absent_up: reachable");
    }

    //@ obligation C02 C02.set_flags_p2_entry_4kib.shape_p3_huge.documented_outcome tier=thorough bounded="pool of 7 tables (4 path + 3 allocatable); tree-shaped sparse pre-state (target path, one neighbour word per path table, garbage in allocatable frames); page-table indices (0,1,511,2)"
    //@ obligation C02 C02.set_flags_p2_entry_4kib.shape_p3_huge.error_leaves_every_mapping tier=thorough bounded="pool of 7 tables (4 path + 3 allocatable); tree-shaped sparse pre-state (target path, one neighbour word per path table, garbage in allocatable frames); page-table indices (0,1,511,2)"
    //@ obligation C09 C09.set_flags_p2_entry_4kib.shape_p3_huge.only_dictated_slots_change tier=thorough bounded="pool of 7 tables (4 path + 3 allocatable); tree-shaped sparse pre-state (target path, one neighbour word per path table, garbage in allocatable frames); page-table indices (0,1,511,2)"
    //@ obligation C09 C09.set_flags_p2_entry_4kib.shape_p3_huge.no_frames_requested_or_zeroed tier=thorough bounded="pool of 7 tables (4 path + 3 allocatable); tree-shaped sparse pre-state (target path, one neighbour word per path table, garbage in allocatable frames); page-table indices (0,1,511,2)"
    //@ obligation C09 C09.set_flags_p2_entry_4kib.shape_p3_huge.no_dangling_table_pointer tier=thorough bounded="pool of 7 tables (4 path + 3 allocatable); tree-shaped sparse pre-state (target path, one neighbour word per path table, garbage in allocatable frames); page-table indices (0,1,511,2)"
    //@ obligation C09 C09.set_flags_p2_entry_4kib.shape_p3_huge.no_access_outside_page_tables tier=thorough bounded="pool of 7 tables (4 path + 3 allocatable); tree-shaped sparse pre-state (target path, one neighbour word per path table, garbage in allocatable frames); page-table indices (0,1,511,2)"
    #[kani::proof]
    #[kani::stub(PageTable::zero, zero_stub)]
    fn c02_set_flags_p2_entry_4kib_p3_huge_lo() {
        set_flags_step!(Size4KiB, "4kib", "p3_huge", P3_HUGE, IDX_LO, set_flags_p2_entry, "p2", 2);
        kani::cover!(true, "c02_set_flags_p2_entry_4kib_p3_huge_lo: reachable");
    }

    //@ obligation C02 C02.set_flags_p2_entry_4kib.shape_p3_huge.documented_outcome tier=thorough bounded="pool of 7 tables (4 path + 3 allocatable); tree-shaped sparse pre-state (target path, one neighbour word per path table, garbage in allocatable frames); page-table indices (511,510,1,0)"
    //@ obligation C02 C02.set_flags_p2_entry_4kib.shape_p3_huge.error_leaves_every_mapping tier=thorough bounded="pool of 7 tables (4 path + 3 allocatable); tree-shaped sparse pre-state (target path, one neighbour word per path table, garbage in allocatable frames); page-table indices (511,510,1,0)"
    //@ obligation C09 C09.set_flags_p2_entry_4kib.shape_p3_huge.only_dictated_slots_change tier=thorough bounded="pool of 7 tables (4 path + 3 allocatable); tree-shaped sparse pre-state (target path, one neighbour word per path table, garbage in allocatable frames); page-table indices (511,510,1,0)"
    //@ obligation C09 C09.set_flags_p2_entry_4kib.shape_p3_huge.no_frames_requested_or_zeroed tier=thorough bounded="pool of 7 tables (4 path + 3 allocatable); tree-shaped sparse pre-state (target path, one neighbour word per path table, garbage in allocatable frames); page-table indices (511,510,1,0)"
    //@ obligation C09 C09.set_flags_p2_entry_4kib.shape_p3_huge.no_dangling_table_pointer tier=thorough bounded="pool of 7 tables (4 path + 3 allocatable); tree-shaped sparse pre-state (target path, one neighbour word per path table, garbage in allocatable frames); page-table indices (511,510,1,0)"
    //@ obligation C09 C09.set_flags_p2_entry_4kib.shape_p3_huge.no_access_outside_page_tables tier=thorough bounded="pool of 7 tables (4 path + 3 allocatable); tree-shaped sparse pre-state (target path, one neighbour word per path table, garbage in allocatable frames); page-table indices (511,510,1,0)"
    #[kani::proof]
    #[kani::stub(PageTable::zero, zero_stub)]
    fn c02_set_flags_p2_entry_4kib_p3_huge_hi() {
        set_flags_step!(Size4KiB, "4kib", "p3_huge", P3_HUGE, IDX_HI, set_flags_p2_entry, "p2", 2);
        kani::cover!(true, "c02_set_flags_p2_entry_4kib_p3_huge_hi: reachable");
    }

    //@ obligation C02 C02.set_flags_p2_entry_4kib.shape_p3_huge.documented_outcome bounded="pool of 7 tables (4 path + 3 allocatable); tree-shaped sparse pre-state (target path, one neighbour word per path table, garbage in allocatable frames); page-table indices (255,511,0,256)"
    //@ obligation C02 C02.set_flags_p2_entry_4kib.shape_p3_huge.error_leaves_every_mapping bounded="pool of 7 tables (4 path + 3 allocatable); tree-shaped sparse pre-state (target path, one neighbour word per path table, garbage in allocatable frames); page-table indices (255,511,0,256)"
    //@ obligation C09 C09.set_flags_p2_entry_4kib.shape_p3_huge.only_dictated_slots_change bounded="pool of 7 tables (4 path + 3 allocatable); tree-shaped sparse pre-state (target path, one neighbour word per path table, garbage in allocatable frames); page-table indices (255,511,0,256)"
    //@ obligation C09 C09.set_flags_p2_entry_4kib.shape_p3_huge.no_frames_requested_or_zeroed bounded="pool of 7 tables (4 path + 3 allocatable); tree-shaped sparse pre-state (target path, one neighbour word per path table, garbage in allocatable frames); page-table indices (255,511,0,256)"
    //@ obligation C09 C09.set_flags_p2_entry_4kib.shape_p3_huge.no_dangling_table_pointer bounded="pool of 7 tables (4 path + 3 allocatable); tree-shaped sparse pre-state (target path, one neighbour word per path table, garbage in allocatable frames); page-table indices (255,511,0,256)"
    //@ obligation C09 C09.set_flags_p2_entry_4kib.shape_p3_huge.no_access_outside_page_tables bounded="pool of 7 tables (4 path + 3 allocatable); tree-shaped sparse pre-state (target path, one neighbour word per path table, garbage in allocatable frames); page-table indices (255,511,0,256)"
    #[kani::proof]
    #[kani::stub(PageTable::zero, zero_stub)]
    fn c02_set_flags_p2_entry_4kib_p3_huge_mid() {
        set_flags_step!(Size4KiB, "4kib", "p3_huge", P3_HUGE, IDX_MID, set_flags_p2_entry, "p2", 2);
        kani::cover!(true, "c02_set_flags_p2_entry_4kib_p3_huge_mid: reachable");
    }

    //@ obligation C02 C02.set_flags_p2_entry_4kib.shape_p3_huge.documented_outcome tier=thorough bounded="pool of 7 tables (4 path + 3 allocatable); tree-shaped sparse pre-state (target path, one neighbour word per path table, garbage in allocatable frames); page-table indices (256,0,510,511)"
    //@ obligation C02 C02.set_flags_p2_entry_4kib.shape_p3_huge.error_leaves_every_mapping tier=thorough bounded="pool of 7 tables (4 path + 3 allocatable); tree-shaped sparse pre-state (target path, one neighbour word per path table, garbage in allocatable frames); page-table indices (256,0,510,511)"
    //@ obligation C09 C09.set_flags_p2_entry_4kib.shape_p3_huge.only_dictated_slots_change tier=thorough bounded="pool of 7 tables (4 path + 3 allocatable); tree-shaped sparse pre-state (target path, one neighbour word per path table, garbage in allocatable frames); page-table indices (256,0,510,511)"
    //@ obligation C09 C09.set_flags_p2_entry_4kib.shape_p3_huge.no_frames_requested_or_zeroed tier=thorough bounded="pool of 7 tables (4 path + 3 allocatable); tree-shaped sparse pre-state (target path, one neighbour word per path table, garbage in allocatable frames); page-table indices (256,0,510,511)"
    //@ obligation C09 C09.set_flags_p2_entry_4kib.shape_p3_huge.no_dangling_table_pointer tier=thorough bounded="pool of 7 tables (4 path + 3 allocatable); tree-shaped sparse pre-state (target path, one neighbour word per path table, garbage in allocatable frames); page-table indices (256,0,510,511)"
    //@ obligation C09 C09.set_flags_p2_entry_4kib.shape_p3_huge.no_access_outside_page_tables tier=thorough bounded="pool of 7 tables (4 path + 3 allocatable); tree-shaped sparse pre-state (target path, one neighbour word per path table, garbage in allocatable frames); page-table indices (256,0,510,511)"
    #[kani::proof]
    #[kani::stub(PageTable::zero, zero_stub)]
    fn c02_set_flags_p2_entry_4kib_p3_huge_up() {
        set_flags_step!(Size4KiB, "4kib", "p3_huge", P3_HUGE, IDX_UP, set_flags_p2_entry, "p2", 2);
        kani::cover!(true, "c02_set_flags_p2_entry_4kib_p3_huge_up: reachable");
    }

    //@ obligation C02 C02.set_flags_p2_entry_4kib.shape_p2_absent.documented_outcome bounded="pool of 7 tables (4 path + 3 allocatable); tree-shaped sparse pre-state (target path, one neighbour word per path table, garbage in allocatable frames); page-table indices (0,1,511,2)"
    //@ obligation C02 C02.set_flags_p2_entry_4kib.shape_p2_absent.error_leaves_every_mapping bounded="pool of 7 tables (4 path + 3 allocatable); tree-shaped sparse pre-state (target path, one neighbour word per path table, garbage in allocatable frames); page-table indices (0,1,511,2)"
    //@ obligation C09 C09.set_flags_p2_entry_4kib.shape_p2_absent.only_dictated_slots_change bounded="pool of 7 tables (4 path + 3 allocatable); tree-shaped sparse pre-state (target path, one neighbour word per path table, garbage in allocatable frames); page-table indices (0,1,511,2)"
    //@ obligation C09 C09.set_flags_p2_entry_4kib.shape_p2_absent.no_frames_requested_or_zeroed bounded="pool of 7 tables (4 path + 3 allocatable); tree-shaped sparse pre-state (target path, one neighbour word per path table, garbage in allocatable frames); page-table indices (0,1,511,2)"
    //@ obligation C09 C09.set_flags_p2_entry_4kib.shape_p2_absent.no_dangling_table_pointer bounded="pool of 7 tables (4 path + 3 allocatable); tree-shaped sparse pre-state (target path, one neighbour word per path table, garbage in allocatable frames); page-table indices (0,1,511,2)"
    //@ obligation C09 C09.set_flags_p2_entry_4kib.shape_p2_absent.no_access_outside_page_tables bounded="pool of 7 tables (4 path + 3 allocatable); tree-shaped sparse pre-state (target path, one neighbour word per path table, garbage in allocatable frames); page-table indices (0,1,511,2)"
    #[kani::proof]
    #[kani::stub(PageTable::zero, zero_stub)]
    fn c02_set_flags_p2_entry_4kib_p2_absent_lo() {
        set_flags_step!(Size4KiB, "4kib", "p2_absent", P2_ABSENT, IDX_LO, set_flags_p2_entry, "p2", 2);
        kani::cover!(true, "c02_set_flags_p2_entry_4kib_p2_absent_lo: reachable");
    }

    //@ obligation C02 C02.set_flags_p2_entry_4kib.shape_p2_absent.documented_outcome tier=thorough bounded="pool of 7 tables (4 path + 3 allocatable); tree-shaped sparse pre-state (target path, one neighbour word per path table, garbage in allocatable frames); page-table indices (511,510,1,0)"
    //@ obligation C02 C02.set_flags_p2_entry_4kib.shape_p2_absent.error_leaves_every_mapping tier=thorough bounded="pool of 7 tables (4 path + 3 allocatable); tree-shaped sparse pre-state (target path, one neighbour word per path table, garbage in allocatable frames); page-table indices (511,510,1,0)"
    //@ obligation C09 C09.set_flags_p2_entry_4kib.shape_p2_absent.only_dictated_slots_change tier=thorough bounded="pool of 7 tables (4 path + 3 allocatable); tree-shaped sparse pre-state (target path, one neighbour word per path table, garbage in allocatable frames); page-table indices (511,510,1,0)"
    //@ obligation C09 C09.set_flags_p2_entry_4kib.shape_p2_absent.no_frames_requested_or_zeroed tier=thorough bounded="pool of 7 tables (4 path + 3 allocatable); tree-shaped sparse pre-state (target path, one neighbour word per path table, garbage in allocatable frames); page-table indices (511,510,1,0)"
    //@ obligation C09 C09.set_flags_p2_entry_4kib.shape_p2_absent.no_dangling_table_pointer tier=thorough bounded="pool of 7 tables (4 path + 3 allocatable); tree-shaped sparse pre-state (target path, one neighbour word per path table, garbage in allocatable frames); page-table indices (511,510,1,0)"
    //@ obligation C09 C09.set_flags_p2_entry_4kib.shape_p2_absent.no_access_outside_page_tables tier=thorough bounded="pool of 7 tables (4 path + 3 allocatable); tree-shaped sparse pre-state (target path, one neighbour word per path table, garbage in allocatable frames); page-table indices (511,510,1,0)"
    #[kani::proof]
    #[kani::stub(PageTable::zero, zero_stub)]
    fn c02_set_flags_p2_entry_4kib_p2_absent_hi() {
        set_flags_step!(Size4KiB, "4kib", "p2_absent", P2_ABSENT, IDX_HI, set_flags_p2_entry, "p2", 2);
        kani::cover!(true, "c02_set_flags_p2_entry_4kib_p2_absent_hi: reachable");
    }

    //@ obligation C02 C02.set_flags_p2_entry_4kib.shape_p2_absent.documented_outcome tier=thorough bounded="pool of 7 tables (4 path + 3 allocatable); tree-shaped sparse pre-state (target path, one neighbour word per path table, garbage in allocatable frames); page-table indices (255,511,0,256)"
    //@ obligation C02 C02.set_flags_p2_entry_4kib.shape_p2_absent.error_leaves_every_mapping tier=thorough bounded="pool of 7 tables (4 path + 3 allocatable); tree-shaped sparse pre-state (target path, one neighbour word per path table, garbage in allocatable frames); page-table indices (255,511,0,256)"
    //@ obligation C09 C09.set_flags_p2_entry_4kib.shape_p2_absent.only_dictated_slots_change tier=thorough bounded="pool of 7 tables (4 path + 3 allocatable); tree-shaped sparse pre-state (target path, one neighbour word per path table, garbage in allocatable frames); page-table indices (255,511,0,256)"
    //@ obligation C09 C09.set_flags_p2_entry_4kib.shape_p2_absent.no_frames_requested_or_zeroed tier=thorough bounded="pool of 7 tables (4 path + 3 allocatable); tree-shaped sparse pre-state (target path, one neighbour word per path table, garbage in allocatable frames); page-table indices (255,511,0,256)"
    //@ obligation C09 C09.set_flags_p2_entry_4kib.shape_p2_absent.no_dangling_table_pointer tier=thorough bounded="pool of 7 tables (4 path + 3 allocatable); tree-shaped sparse pre-state (target path, one neighbour word per path table, garbage in allocatable frames); page-table indices (255,511,0,256)"
    //@ obligation C09 C09.set_flags_p2_entry_4kib.shape_p2_absent.no_access_outside_page_tables tier=thorough bounded="pool of 7 tables (4 path + 3 allocatable); tree-shaped sparse pre-state (target path, one neighbour word per path table, garbage in allocatable frames); page-table indices (255,511,0,256)"
    #[kani::proof]
    #[kani::stub(PageTable::zero, zero_stub)]
    fn c02_set_flags_p2_entry_4kib_p2_absent_mid() {
        set_flags_step!(Size4KiB, "4kib", "p2_absent", P2_ABSENT, IDX_MID, set_flags_p2_entry, "p2", 2);
        kani::cover!(true, "c02_set_flags_p2_entry_4kib_p2_absent_mid: reachable");
    }

    //@ obligation C02 C02.set_flags_p2_entry_4kib.shape_p2_absent.documented_outcome tier=thorough bounded="pool of 7 tables (4 path + 3 allocatable); tree-shaped sparse pre-state (target path, one neighbour word per path table, garbage in allocatable frames); page-table indices (256,0,510,511)"
    //@ obligation C02 C02.set_flags_p2_entry_4kib.shape_p2_absent.error_leaves_every_mapping tier=thorough bounded="pool of 7 tables (4 path + 3 allocatable); tree-shaped sparse pre-state (target path, one neighbour word per path table, garbage in allocatable frames); page-table indices (256,0,510,511)"
    //@ obligation C09 C09.set_flags_p2_entry_4kib.shape_p2_absent.only_dictated_slots_change tier=thorough bounded="pool of 7 tables (4 path + 3 allocatable); tree-shaped sparse pre-state (target path, one neighbour word per path table, garbage in allocatable frames); page-table indices (256,0,510,511)"
    //@ obligation C09 C09.set_flags_p2_entry_4kib.shape_p2_absent.no_frames_requested_or_zeroed tier=thorough bounded="pool of 7 tables (4 path + 3 allocatable); tree-shaped sparse pre-state (target path, one neighbour word per path table, garbage in allocatable frames); page-table indices (256,0,510,511)"
    //@ obligation C09 C09.set_flags_p2_entry_4kib.shape_p2_absent.no_dangling_table_pointer tier=thorough bounded="pool of 7 tables (4 path + 3 allocatable); tree-shaped sparse pre-state (target path, one neighbour word per path table, garbage in allocatable frames); page-table indices (256,0,510,511)"
    //@ obligation C09 C09.set_flags_p2_entry_4kib.shape_p2_absent.no_access_outside_page_tables tier=thorough bounded="pool of 7 tables (4 path + 3 allocatable); tree-shaped sparse pre-state (target path, one neighbour word per path table, garbage in allocatable frames); page-table indices (256,0,510,511)"
    #[kani::proof]
    #[kani::stub(PageTable::zero, zero_stub)]
    fn c02_set_flags_p2_entry_4kib_p2_absent_up() {
        set_flags_step!(Size4KiB, "4kib", "p2_absent", P2_ABSENT, IDX_UP, set_flags_p2_entry, "p2", 2);
        kani::cover!(true, "c02_set_flags_p2_entry_4kib_p2_absent_up: reachable");
    }

    //@ obligation C02 C02.set_flags_p2_entry_4kib.shape_huge_leaf.reports_parent_entry_huge_page_and_unchanged tier=thorough bounded="pool of 7 tables (4 path + 3 allocatable); tree-shaped sparse pre-state (target path, one neighbour word per path table, garbage in allocatable frames); page-table indices (0,1,511,2)"
    //@ obligation C02 C02.set_flags_p2_entry_4kib.shape_huge_leaf.error_leaves_every_mapping tier=thorough bounded="pool of 7 tables (4 path + 3 allocatable); tree-shaped sparse pre-state (target path, one neighbour word per path table, garbage in allocatable frames); page-table indices (0,1,511,2)"
    //@ obligation C09 C09.set_flags_p2_entry_4kib.shape_huge_leaf.only_dictated_slots_change tier=thorough bounded="pool of 7 tables (4 path + 3 allocatable); tree-shaped sparse pre-state (target path, one neighbour word per path table, garbage in allocatable frames); page-table indices (0,1,511,2)"
    //@ obligation C09 C09.set_flags_p2_entry_4kib.shape_huge_leaf.no_frames_requested_or_zeroed tier=thorough bounded="pool of 7 tables (4 path + 3 allocatable); tree-shaped sparse pre-state (target path, one neighbour word per path table, garbage in allocatable frames); page-table indices (0,1,511,2)"
    //@ obligation C09 C09.set_flags_p2_entry_4kib.shape_huge_leaf.no_dangling_table_pointer tier=thorough bounded="pool of 7 tables (4 path + 3 allocatable); tree-shaped sparse pre-state (target path, one neighbour word per path table, garbage in allocatable frames); page-table indices (0,1,511,2)"
    //@ obligation C09 C09.set_flags_p2_entry_4kib.shape_huge_leaf.no_access_outside_page_tables tier=thorough bounded="pool of 7 tables (4 path + 3 allocatable); tree-shaped sparse pre-state (target path, one neighbour word per path table, garbage in allocatable frames); page-table indices (0,1,511,2)"
    #[kani::proof]
    #[kani::stub(PageTable::zero, zero_stub)]
    fn c02_set_flags_p2_entry_4kib_huge_leaf_lo() {
        set_flags_step!(Size4KiB, "4kib", "huge_leaf", P2_HUGE, IDX_LO, set_flags_p2_entry, "p2", 2);
        kani::cover!(true, "c02_set_flags_p2_entry_4kib_huge_leaf_lo: reachable");
    }

    //@ obligation C02 C02.set_flags_p2_entry_4kib.shape_huge_leaf.reports_parent_entry_huge_page_and_unchanged bounded="pool of 7 tables (4 path + 3 allocatable); tree-shaped sparse pre-state (target path, one neighbour word per path table, garbage in allocatable frames); page-table indices (511,510,1,0)"
    //@ obligation C02 C02.set_flags_p2_entry_4kib.shape_huge_leaf.error_leaves_every_mapping bounded="pool of 7 tables (4 path + 3 allocatable); tree-shaped sparse pre-state (target path, one neighbour word per path table, garbage in allocatable frames); page-table indices (511,510,1,0)"
    //@ obligation C09 C09.set_flags_p2_entry_4kib.shape_huge_leaf.only_dictated_slots_change bounded="pool of 7 tables (4 path + 3 allocatable); tree-shaped sparse pre-state (target path, one neighbour word per path table, garbage in allocatable frames); page-table indices (511,510,1,0)"
    //@ obligation C09 C09.set_flags_p2_entry_4kib.shape_huge_leaf.no_frames_requested_or_zeroed bounded="pool of 7 tables (4 path + 3 allocatable); tree-shaped sparse pre-state (target path, one neighbour word per path table, garbage in allocatable frames); page-table indices (511,510,1,0)"
    //@ obligation C09 C09.set_flags_p2_entry_4kib.shape_huge_leaf.no_dangling_table_pointer bounded="pool of 7 tables (4 path + 3 allocatable); tree-shaped sparse pre-state (target path, one neighbour word per path table, garbage in allocatable frames); page-table indices (511,510,1,0)"
    //@ obligation C09 C09.set_flags_p2_entry_4kib.shape_huge_leaf.no_access_outside_page_tables bounded="pool of 7 tables (4 path + 3 allocatable); tree-shaped sparse pre-state (target path, one neighbour word per path table, garbage in allocatable frames); page-table indices (511,510,1,0)"
    #[kani::proof]
    #[kani::stub(PageTable::zero, zero_stub)]
    fn c02_set_flags_p2_entry_4kib_huge_leaf_hi() {
        set_flags_step!(Size4KiB, "4kib", "huge_leaf", P2_HUGE, IDX_HI, set_flags_p2_entry, "p2", 2);
        kani::cover!(true, "c02_set_flags_p2_entry_4kib_huge_leaf_hi: reachable");
    }

    //@ obligation C02 C02.set_flags_p2_entry_4kib.shape_huge_leaf.reports_parent_entry_huge_page_and_unchanged tier=thorough bounded="pool of 7 tables (4 path + 3 allocatable); tree-shaped sparse pre-state (target path, one neighbour word per path table, garbage in allocatable frames); page-table indices (255,511,0,256)"
    //@ obligation C02 C02.set_flags_p2_entry_4kib.shape_huge_leaf.error_leaves_every_mapping tier=thorough bounded="pool of 7 tables (4 path + 3 allocatable); tree-shaped sparse pre-state (target path, one neighbour word per path table, garbage in allocatable frames); page-table indices (255,511,0,256)"
    //@ obligation C09 C09.set_flags_p2_entry_4kib.shape_huge_leaf.only_dictated_slots_change tier=thorough bounded="pool of 7 tables (4 path + 3 allocatable); tree-shaped sparse pre-state (target path, one neighbour word per path table, garbage in allocatable frames); page-table indices (255,511,0,256)"
    //@ obligation C09 C09.set_flags_p2_entry_4kib.shape_huge_leaf.no_frames_requested_or_zeroed tier=thorough bounded="pool of 7 tables (4 path + 3 allocatable); tree-shaped sparse pre-state (target path, one neighbour word per path table, garbage in allocatable frames); page-table indices (255,511,0,256)"
    //@ obligation C09 C09.set_flags_p2_entry_4kib.shape_huge_leaf.no_dangling_table_pointer tier=thorough bounded="pool of 7 tables (4 path + 3 allocatable); tree-shaped sparse pre-state (target path, one neighbour word per path table, garbage in allocatable frames); page-table indices (255,511,0,256)"
    //@ obligation C09 C09.set_flags_p2_entry_4kib.shape_huge_leaf.no_access_outside_page_tables tier=thorough bounded="pool of 7 tables (4 path + 3 allocatable); tree-shaped sparse pre-state (target path, one neighbour word per path table, garbage in allocatable frames); page-table indices (255,511,0,256)"
    #[kani::proof]
    #[kani::stub(PageTable::zero, zero_stub)]
    fn c02_set_flags_p2_entry_4kib_huge_leaf_mid() {
        set_flags_step!(Size4KiB, "4kib", "huge_leaf", P2_HUGE, IDX_MID, set_flags_p2_entry, "p2", 2);
        kani::cover!(true, "c02_set_flags_p2_entry_4kib_huge_leaf_mid: reachable");
    }

    //@ obligation C02 C02.set_flags_p2_entry_4kib.shape_huge_leaf.reports_parent_entry_huge_page_and_unchanged tier=thorough bounded="pool of 7 tables (4 path + 3 allocatable); tree-shaped sparse pre-state (target path, one neighbour word per path table, garbage in allocatable frames); page-table indices (256,0,510,511)"
    //@ obligation C02 C02.set_flags_p2_entry_4kib.shape_huge_leaf.error_leaves_every_mapping tier=thorough bounded="pool of 7 tables (4 path + 3 allocatable); tree-shaped sparse pre-state (target path, one neighbour word per path table, garbage in allocatable frames); page-table indices (256,0,510,511)"
    //@ obligation C09 C09.set_flags_p2_entry_4kib.shape_huge_leaf.only_dictated_slots_change tier=thorough bounded="pool of 7 tables (4 path + 3 allocatable); tree-shaped sparse pre-state (target path, one neighbour word per path table, garbage in allocatable frames); page-table indices (256,0,510,511)"
    //@ obligation C09 C09.set_flags_p2_entry_4kib.shape_huge_leaf.no_frames_requested_or_zeroed tier=thorough bounded="pool of 7 tables (4 path + 3 allocatable); tree-shaped sparse pre-state (target path, one neighbour word per path table, garbage in allocatable frames); page-table indices (256,0,510,511)"
    //@ obligation C09 C09.set_flags_p2_entry_4kib.shape_huge_leaf.no_dangling_table_pointer tier=thorough bounded="pool of 7 tables (4 path + 3 allocatable); tree-shaped sparse pre-state (target path, one neighbour word per path table, garbage in allocatable frames); page-table indices (256,0,510,511)"
    //@ obligation C09 C09.set_flags_p2_entry_4kib.shape_huge_leaf.no_access_outside_page_tables tier=thorough bounded="pool of 7 tables (4 path + 3 allocatable); tree-shaped sparse pre-state (target path, one neighbour word per path table, garbage in allocatable frames); page-table indices (256,0,510,511)"
    #[kani::proof]
    #[kani::stub(PageTable::zero, zero_stub)]
    fn c02_set_flags_p2_entry_4kib_huge_leaf_up() {
        set_flags_step!(Size4KiB, "4kib", "huge_leaf", P2_HUGE, IDX_UP, set_flags_p2_entry, "p2", 2);
        kani::cover!(true, "c02_set_flags_p2_entry_4kib_huge_leaf_up: reachable");
    }

    //@ obligation C02 C02.set_flags_p2_entry_4kib.shape_p2_table.documented_outcome tier=thorough bounded="pool of 7 tables (4 path + 3 allocatable); tree-shaped sparse pre-state (target path, one neighbour word per path table, garbage in allocatable frames); page-table indices (0,1,511,2)"
    //@ obligation C01 C01.set_flags_p2_entry_4kib.shape_p2_table.no_leaf_changes tier=thorough bounded="pool of 7 tables (4 path + 3 allocatable); tree-shaped sparse pre-state (target path, one neighbour word per path table, garbage in allocatable frames); page-table indices (0,1,511,2)"
    //@ obligation C01 C01.set_flags_p2_entry_4kib.shape_p2_table.entry_flags_replaced_address_kept tier=thorough bounded="pool of 7 tables (4 path + 3 allocatable); tree-shaped sparse pre-state (target path, one neighbour word per path table, garbage in allocatable frames); page-table indices (0,1,511,2)"
    //@ obligation C11 C11.set_flags_p2_entry_4kib.shape_p2_table.flush_all_token tier=thorough bounded="pool of 7 tables (4 path + 3 allocatable); tree-shaped sparse pre-state (target path, one neighbour word per path table, garbage in allocatable frames); page-table indices (0,1,511,2)"
    //@ obligation C09 C09.set_flags_p2_entry_4kib.shape_p2_table.only_dictated_slots_change tier=thorough bounded="pool of 7 tables (4 path + 3 allocatable); tree-shaped sparse pre-state (target path, one neighbour word per path table, garbage in allocatable frames); page-table indices (0,1,511,2)"
    //@ obligation C09 C09.set_flags_p2_entry_4kib.shape_p2_table.no_frames_requested_or_zeroed tier=thorough bounded="pool of 7 tables (4 path + 3 allocatable); tree-shaped sparse pre-state (target path, one neighbour word per path table, garbage in allocatable frames); page-table indices (0,1,511,2)"
    //@ obligation C09 C09.set_flags_p2_entry_4kib.shape_p2_table.no_dangling_table_pointer tier=thorough bounded="pool of 7 tables (4 path + 3 allocatable); tree-shaped sparse pre-state (target path, one neighbour word per path table, garbage in allocatable frames); page-table indices (0,1,511,2)"
    //@ obligation C09 C09.set_flags_p2_entry_4kib.shape_p2_table.no_access_outside_page_tables tier=thorough bounded="pool of 7 tables (4 path + 3 allocatable); tree-shaped sparse pre-state (target path, one neighbour word per path table, garbage in allocatable frames); page-table indices (0,1,511,2)"
    #[kani::proof]
    #[kani::stub(PageTable::zero, zero_stub)]
    fn c01_set_flags_p2_entry_4kib_p2_table_lo() {
        set_flags_step!(Size4KiB, "4kib", "p2_table", P1_ABSENT, IDX_LO, set_flags_p2_entry, "p2", 2);
        kani::cover!(true, "c01_set_flags_p2_entry_4kib_p2_table_lo: reachable");
    }

    //@ obligation C02 C02.set_flags_p2_entry_4kib.shape_p2_table.documented_outcome tier=thorough bounded="pool of 7 tables (4 path + 3 allocatable); tree-shaped sparse pre-state (target path, one neighbour word per path table, garbage in allocatable frames); page-table indices (511,510,1,0)"
    //@ obligation C01 C01.set_flags_p2_entry_4kib.shape_p2_table.no_leaf_changes tier=thorough bounded="pool of 7 tables (4 path + 3 allocatable); tree-shaped sparse pre-state (target path, one neighbour word per path table, garbage in allocatable frames); page-table indices (511,510,1,0)"
    //@ obligation C01 C01.set_flags_p2_entry_4kib.shape_p2_table.entry_flags_replaced_address_kept tier=thorough bounded="pool of 7 tables (4 path + 3 allocatable); tree-shaped sparse pre-state (target path, one neighbour word per path table, garbage in allocatable frames); page-table indices (511,510,1,0)"
    //@ obligation C11 C11.set_flags_p2_entry_4kib.shape_p2_table.flush_all_token tier=thorough bounded="pool of 7 tables (4 path + 3 allocatable); tree-shaped sparse pre-state (target path, one neighbour word per path table, garbage in allocatable frames); page-table indices (511,510,1,0)"
    //@ obligation C09 C09.set_flags_p2_entry_4kib.shape_p2_table.only_dictated_slots_change tier=thorough bounded="pool of 7 tables (4 path + 3 allocatable); tree-shaped sparse pre-state (target path, one neighbour word per path table, garbage in allocatable frames); page-table indices (511,510,1,0)"
    //@ obligation C09 C09.set_flags_p2_entry_4kib.shape_p2_table.no_frames_requested_or_zeroed tier=thorough bounded="pool of 7 tables (4 path + 3 allocatable); tree-shaped sparse pre-state (target path, one neighbour word per path table, garbage in allocatable frames); page-table indices (511,510,1,0)"
    //@ obligation C09 C09.set_flags_p2_entry_4kib.shape_p2_table.no_dangling_table_pointer tier=thorough bounded="pool of 7 tables (4 path + 3 allocatable); tree-shaped sparse pre-state (target path, one neighbour word per path table, garbage in allocatable frames); page-table indices (511,510,1,0)"
    //@ obligation C09 C09.set_flags_p2_entry_4kib.shape_p2_table.no_access_outside_page_tables tier=thorough bounded="pool of 7 tables (4 path + 3 allocatable); tree-shaped sparse pre-state (target path, one neighbour word per path table, garbage in allocatable frames); page-table indices (511,510,1,0)"
    #[kani::proof]
    #[kani::stub(PageTable::zero, zero_stub)]
    fn c01_set_flags_p2_entry_4kib_p2_table_hi() {
        set_flags_step!(Size4KiB, "4kib", "p2_table", P1_ABSENT, IDX_HI, set_flags_p2_entry, "p2", 2);
        kani::cover!(true, "c01_set_flags_p2_entry_4kib_p2_table_hi: reachable");
    }

    //@ obligation C02 C02.set_flags_p2_entry_4kib.shape_p2_table.documented_outcome tier=thorough bounded="pool of 7 tables (4 path + 3 allocatable); tree-shaped sparse pre-state (target path, one neighbour word per path table, garbage in allocatable frames); page-table indices (255,511,0,256)"
    //@ obligation C01 C01.set_flags_p2_entry_4kib.shape_p2_table.no_leaf_changes tier=thorough bounded="pool of 7 tables (4 path + 3 allocatable); tree-shaped sparse pre-state (target path, one neighbour word per path table, garbage in allocatable frames); page-table indices (255,511,0,256)"
    //@ obligation C01 C01.set_flags_p2_entry_4kib.shape_p2_table.entry_flags_replaced_address_kept tier=thorough bounded="pool of 7 tables (4 path + 3 allocatable); tree-shaped sparse pre-state (target path, one neighbour word per path table, garbage in allocatable frames); page-table indices (255,511,0,256)"
    //@ obligation C11 C11.set_flags_p2_entry_4kib.shape_p2_table.flush_all_token tier=thorough bounded="pool of 7 tables (4 path + 3 allocatable); tree-shaped sparse pre-state (target path, one neighbour word per path table, garbage in allocatable frames); page-table indices (255,511,0,256)"
    //@ obligation C09 C09.set_flags_p2_entry_4kib.shape_p2_table.only_dictated_slots_change tier=thorough bounded="pool of 7 tables (4 path + 3 allocatable); tree-shaped sparse pre-state (target path, one neighbour word per path table, garbage in allocatable frames); page-table indices (255,511,0,256)"
    //@ obligation C09 C09.set_flags_p2_entry_4kib.shape_p2_table.no_frames_requested_or_zeroed tier=thorough bounded="pool of 7 tables (4 path + 3 allocatable); tree-shaped sparse pre-state (target path, one neighbour word per path table, garbage in allocatable frames); page-table indices (255,511,0,256)"
    //@ obligation C09 C09.set_flags_p2_entry_4kib.shape_p2_table.no_dangling_table_pointer tier=thorough bounded="pool of 7 tables (4 path + 3 allocatable); tree-shaped sparse pre-state (target path, one neighbour word per path table, garbage in allocatable frames); page-table indices (255,511,0,256)"
    //@ obligation C09 C09.set_flags_p2_entry_4kib.shape_p2_table.no_access_outside_page_tables tier=thorough bounded="pool of 7 tables (4 path + 3 allocatable); tree-shaped sparse pre-state (target path, one neighbour word per path table, garbage in allocatable frames); page-table indices (255,511,0,256)"
    #[kani::proof]
    #[kani::stub(PageTable::zero, zero_stub)]
    fn c01_set_flags_p2_entry_4kib_p2_table_mid() {
        set_flags_step!(Size4KiB, "4kib", "p2_table", P1_ABSENT, IDX_MID, set_flags_p2_entry, "p2", 2);
        kani::cover!(true, "c01_set_flags_p2_entry_4kib_p2_table_mid: reachable");
    }

    //@ obligation C02 C02.set_flags_p2_entry_4kib.shape_p2_table.documented_outcome bounded="pool of 7 tables (4 path + 3 allocatable); tree-shaped sparse pre-state (target path, one neighbour word per path table, garbage in allocatable frames); page-table indices (256,0,510,511)"
    //@ obligation C01 C01.set_flags_p2_entry_4kib.shape_p2_table.no_leaf_changes bounded="pool of 7 tables (4 path + 3 allocatable); tree-shaped sparse pre-state (target path, one neighbour word per path table, garbage in allocatable frames); page-table indices (256,0,510,511)"
    //@ obligation C01 C01.set_flags_p2_entry_4kib.shape_p2_table.entry_flags_replaced_address_kept bounded="pool of 7 tables (4 path + 3 allocatable); tree-shaped sparse pre-state (target path, one neighbour word per path table, garbage in allocatable frames); page-table indices (256,0,510,511)"
    //@ obligation C11 C11.set_flags_p2_entry_4kib.shape_p2_table.flush_all_token bounded="pool of 7 tables (4 path + 3 allocatable); tree-shaped sparse pre-state (target path, one neighbour word per path table, garbage in allocatable frames); page-table indices (256,0,510,511)"
    //@ obligation C09 C09.set_flags_p2_entry_4kib.shape_p2_table.only_dictated_slots_change bounded="pool of 7 tables (4 path + 3 allocatable); tree-shaped sparse pre-state (target path, one neighbour word per path table, garbage in allocatable frames); page-table indices (256,0,510,511)"
    //@ obligation C09 C09.set_flags_p2_entry_4kib.shape_p2_table.no_frames_requested_or_zeroed bounded="pool of 7 tables (4 path + 3 allocatable); tree-shaped sparse pre-state (target path, one neighbour word per path table, garbage in allocatable frames); page-table indices (256,0,510,511)"
    //@ obligation C09 C09.set_flags_p2_entry_4kib.shape_p2_table.no_dangling_table_pointer bounded="pool of 7 tables (4 path + 3 allocatable); tree-shaped sparse pre-state (target path, one neighbour word per path table, garbage in allocatable frames); page-table indices (256,0,510,511)"
    //@ obligation C09 C09.set_flags_p2_entry_4kib.shape_p2_table.no_access_outside_page_tables bounded="pool of 7 tables (4 path + 3 allocatable); tree-shaped sparse pre-state (target path, one neighbour word per path table, garbage in allocatable frames); page-table indices (256,0,510,511)"
    #[kani::proof]
    #[kani::stub(PageTable::zero, zero_stub)]
    fn c01_set_flags_p2_entry_4kib_p2_table_up() {
        set_flags_step!(Size4KiB, "4kib", "p2_table", P1_ABSENT, IDX_UP, set_flags_p2_entry, "p2", 2);
        kani::cover!(true, "c01_set_flags_p2_entry_4kib_p2_table_up: reachable");
    }

    //@ obligation C02 C02.set_flags_p2_entry_2mib.shape_any.level_above_leaf_does_not_exist_is_error tier=thorough bounded="pool of 7 tables (4 path + 3 allocatable); tree-shaped sparse pre-state (target path, one neighbour word per path table, garbage in allocatable frames); page-table indices (0,1,511,2)"
    //@ obligation C02 C02.set_flags_p2_entry_2mib.shape_any.error_leaves_every_mapping tier=thorough bounded="pool of 7 tables (4 path + 3 allocatable); tree-shaped sparse pre-state (target path, one neighbour word per path table, garbage in allocatable frames); page-table indices (0,1,511,2)"
    //@ obligation C09 C09.set_flags_p2_entry_2mib.shape_any.only_dictated_slots_change tier=thorough bounded="pool of 7 tables (4 path + 3 allocatable); tree-shaped sparse pre-state (target path, one neighbour word per path table, garbage in allocatable frames); page-table indices (0,1,511,2)"
    //@ obligation C09 C09.set_flags_p2_entry_2mib.shape_any.no_frames_requested_or_zeroed tier=thorough bounded="pool of 7 tables (4 path + 3 allocatable); tree-shaped sparse pre-state (target path, one neighbour word per path table, garbage in allocatable frames); page-table indices (0,1,511,2)"
    //@ obligation C09 C09.set_flags_p2_entry_2mib.shape_any.no_dangling_table_pointer tier=thorough bounded="pool of 7 tables (4 path + 3 allocatable); tree-shaped sparse pre-state (target path, one neighbour word per path table, garbage in allocatable frames); page-table indices (0,1,511,2)"
    //@ obligation C09 C09.set_flags_p2_entry_2mib.shape_any.no_access_outside_page_tables tier=thorough bounded="pool of 7 tables (4 path + 3 allocatable); tree-shaped sparse pre-state (target path, one neighbour word per path table, garbage in allocatable frames); page-table indices (0,1,511,2)"
    #[kani::proof]
    #[kani::stub(PageTable::zero, zero_stub)]
    fn c02_set_flags_p2_entry_2mib_any_lo() {
        set_flags_step!(Size2MiB, "2mib", "any", P2_HUGE, IDX_LO, set_flags_p2_entry, "p2", 2);
        kani::cover!(true, "c02_set_flags_p2_entry_2mib_any_lo: reachable");
    }

    //@ obligation C02 C02.set_flags_p2_entry_2mib.shape_any.level_above_leaf_does_not_exist_is_error tier=thorough bounded="pool of 7 tables (4 path + 3 allocatable); tree-shaped sparse pre-state (target path, one neighbour word per path table, garbage in allocatable frames); page-table indices (511,510,1,0)"
    //@ obligation C02 C02.set_flags_p2_entry_2mib.shape_any.error_leaves_every_mapping tier=thorough bounded="pool of 7 tables (4 path + 3 allocatable); tree-shaped sparse pre-state (target path, one neighbour word per path table, garbage in allocatable frames); page-table indices (511,510,1,0)"
    //@ obligation C09 C09.set_flags_p2_entry_2mib.shape_any.only_dictated_slots_change tier=thorough bounded="pool of 7 tables (4 path + 3 allocatable); tree-shaped sparse pre-state (target path, one neighbour word per path table, garbage in allocatable frames); page-table indices (511,510,1,0)"
    //@ obligation C09 C09.set_flags_p2_entry_2mib.shape_any.no_frames_requested_or_zeroed tier=thorough bounded="pool of 7 tables (4 path + 3 allocatable); tree-shaped sparse pre-state (target path, one neighbour word per path table, garbage in allocatable frames); page-table indices (511,510,1,0)"
    //@ obligation C09 C09.set_flags_p2_entry_2mib.shape_any.no_dangling_table_pointer tier=thorough bounded="pool of 7 tables (4 path + 3 allocatable); tree-shaped sparse pre-state (target path, one neighbour word per path table, garbage in allocatable frames); page-table indices (511,510,1,0)"
    //@ obligation C09 C09.set_flags_p2_entry_2mib.shape_any.no_access_outside_page_tables tier=thorough bounded="pool of 7 tables (4 path + 3 allocatable); tree-shaped sparse pre-state (target path, one neighbour word per path table, garbage in allocatable frames); page-table indices (511,510,1,0)"
    #[kani::proof]
    #[kani::stub(PageTable::zero, zero_stub)]
    fn c02_set_flags_p2_entry_2mib_any_hi() {
        set_flags_step!(Size2MiB, "2mib", "any", P2_HUGE, IDX_HI, set_flags_p2_entry, "p2", 2);
        kani::cover!(true, "c02_set_flags_p2_entry_2mib_any_hi: reachable");
    }

    //@ obligation C02 C02.set_flags_p2_entry_2mib.shape_any.level_above_leaf_does_not_exist_is_error tier=thorough bounded="pool of 7 tables (4 path + 3 allocatable); tree-shaped sparse pre-state (target path, one neighbour word per path table, garbage in allocatable frames); page-table indices (255,511,0,256)"
    //@ obligation C02 C02.set_flags_p2_entry_2mib.shape_any.error_leaves_every_mapping tier=thorough bounded="pool of 7 tables (4 path + 3 allocatable); tree-shaped sparse pre-state (target path, one neighbour word per path table, garbage in allocatable frames); page-table indices (255,511,0,256)"
    //@ obligation C09 C09.set_flags_p2_entry_2mib.shape_any.only_dictated_slots_change tier=thorough bounded="pool of 7 tables (4 path + 3 allocatable); tree-shaped sparse pre-state (target path, one neighbour word per path table, garbage in allocatable frames); page-table indices (255,511,0,256)"
    //@ obligation C09 C09.set_flags_p2_entry_2mib.shape_any.no_frames_requested_or_zeroed tier=thorough bounded="pool of 7 tables (4 path + 3 allocatable); tree-shaped sparse pre-state (target path, one neighbour word per path table, garbage in allocatable frames); page-table indices (255,511,0,256)"
    //@ obligation C09 C09.set_flags_p2_entry_2mib.shape_any.no_dangling_table_pointer tier=thorough bounded="pool of 7 tables (4 path + 3 allocatable); tree-shaped sparse pre-state (target path, one neighbour word per path table, garbage in allocatable frames); page-table indices (255,511,0,256)"
    //@ obligation C09 C09.set_flags_p2_entry_2mib.shape_any.no_access_outside_page_tables tier=thorough bounded="pool of 7 tables (4 path + 3 allocatable); tree-shaped sparse pre-state (target path, one neighbour word per path table, garbage in allocatable frames); page-table indices (255,511,0,256)"
    #[kani::proof]
    #[kani::stub(PageTable::zero, zero_stub)]
    fn c02_set_flags_p2_entry_2mib_any_mid() {
        set_flags_step!(Size2MiB, "2mib", "any", P2_HUGE, IDX_MID, set_flags_p2_entry, "p2", 2);
        kani::cover!(true, "c02_set_flags_p2_entry_2mib_any_mid: reachable");
    }

    //@ obligation C02 C02.set_flags_p2_entry_2mib.shape_any.level_above_leaf_does_not_exist_is_error bounded="pool of 7 tables (4 path + 3 allocatable); tree-shaped sparse pre-state (target path, one neighbour word per path table, garbage in allocatable frames); page-table indices (256,0,510,511)"
    //@ obligation C02 C02.set_flags_p2_entry_2mib.shape_any.error_leaves_every_mapping bounded="pool of 7 tables (4 path + 3 allocatable); tree-shaped sparse pre-state (target path, one neighbour word per path table, garbage in allocatable frames); page-table indices (256,0,510,511)"
    //@ obligation C09 C09.set_flags_p2_entry_2mib.shape_any.only_dictated_slots_change bounded="pool of 7 tables (4 path + 3 allocatable); tree-shaped sparse pre-state (target path, one neighbour word per path table, garbage in allocatable frames); page-table indices (256,0,510,511)"
    //@ obligation C09 C09.set_flags_p2_entry_2mib.shape_any.no_frames_requested_or_zeroed bounded="pool of 7 tables (4 path + 3 allocatable); tree-shaped sparse pre-state (target path, one neighbour word per path table, garbage in allocatable frames); page-table indices (256,0,510,511)"
    //@ obligation C09 C09.set_flags_p2_entry_2mib.shape_any.no_dangling_table_pointer bounded="pool of 7 tables (4 path + 3 allocatable); tree-shaped sparse pre-state (target path, one neighbour word per path table, garbage in allocatable frames); page-table indices (256,0,510,511)"
    //@ obligation C09 C09.set_flags_p2_entry_2mib.shape_any.no_access_outside_page_tables bounded="pool of 7 tables (4 path + 3 allocatable); tree-shaped sparse pre-state (target path, one neighbour word per path table, garbage in allocatable frames); page-table indices (256,0,510,511)"
    #[kani::proof]
    #[kani::stub(PageTable::zero, zero_stub)]
    fn c02_set_flags_p2_entry_2mib_any_up() {
        set_flags_step!(Size2MiB, "2mib", "any", P2_HUGE, IDX_UP, set_flags_p2_entry, "p2", 2);
        kani::cover!(true, "c02_set_flags_p2_entry_2mib_any_up: reachable");
    }

    //@ obligation C02 C02.set_flags_p2_entry_1gib.shape_any.level_above_leaf_does_not_exist_is_error tier=thorough bounded="pool of 7 tables (4 path + 3 allocatable); tree-shaped sparse pre-state (target path, one neighbour word per path table, garbage in allocatable frames); page-table indices (0,1,511,2)"
    //@ obligation C02 C02.set_flags_p2_entry_1gib.shape_any.error_leaves_every_mapping tier=thorough bounded="pool of 7 tables (4 path + 3 allocatable); tree-shaped sparse pre-state (target path, one neighbour word per path table, garbage in allocatable frames); page-table indices (0,1,511,2)"
    //@ obligation C09 C09.set_flags_p2_entry_1gib.shape_any.only_dictated_slots_change tier=thorough bounded="pool of 7 tables (4 path + 3 allocatable); tree-shaped sparse pre-state (target path, one neighbour word per path table, garbage in allocatable frames); page-table indices (0,1,511,2)"
    //@ obligation C09 C09.set_flags_p2_entry_1gib.shape_any.no_frames_requested_or_zeroed tier=thorough bounded="pool of 7 tables (4 path + 3 allocatable); tree-shaped sparse pre-state (target path, one neighbour word per path table, garbage in allocatable frames); page-table indices (0,1,511,2)"
    //@ obligation C09 C09.set_flags_p2_entry_1gib.shape_any.no_dangling_table_pointer tier=thorough bounded="pool of 7 tables (4 path + 3 allocatable); tree-shaped sparse pre-state (target path, one neighbour word per path table, garbage in allocatable frames); page-table indices (0,1,511,2)"
    //@ obligation C09 C09.set_flags_p2_entry_1gib.shape_any.no_access_outside_page_tables tier=thorough bounded="pool of 7 tables (4 path + 3 allocatable); tree-shaped sparse pre-state (target path, one neighbour word per path table, garbage in allocatable frames); page-table indices (0,1,511,2)"
    #[kani::proof]
    #[kani::stub(PageTable::zero, zero_stub)]
    fn c02_set_flags_p2_entry_1gib_any_lo() {
        set_flags_step!(Size1GiB, "1gib", "any", P3_HUGE, IDX_LO, set_flags_p2_entry, "p2", 2);
        kani::cover!(true, "c02_set_flags_p2_entry_1gib_any_lo: reachable");
    }

    //@ obligation C02 C02.set_flags_p2_entry_1gib.shape_any.level_above_leaf_does_not_exist_is_error bounded="pool of 7 tables (4 path + 3 allocatable); tree-shaped sparse pre-state (target path, one neighbour word per path table, garbage in allocatable frames); page-table indices (511,510,1,0)"
    //@ obligation C02 C02.set_flags_p2_entry_1gib.shape_any.error_leaves_every_mapping bounded="pool of 7 tables (4 path + 3 allocatable); tree-shaped sparse pre-state (target path, one neighbour word per path table, garbage in allocatable frames); page-table indices (511,510,1,0)"
    //@ obligation C09 C09.set_flags_p2_entry_1gib.shape_any.only_dictated_slots_change bounded="pool of 7 tables (4 path + 3 allocatable); tree-shaped sparse pre-state (target path, one neighbour word per path table, garbage in allocatable frames); page-table indices (511,510,1,0)"
    //@ obligation C09 C09.set_flags_p2_entry_1gib.shape_any.no_frames_requested_or_zeroed bounded="pool of 7 tables (4 path + 3 allocatable); tree-shaped sparse pre-state (target path, one neighbour word per path table, garbage in allocatable frames); page-table indices (511,510,1,0)"
    //@ obligation C09 C09.set_flags_p2_entry_1gib.shape_any.no_dangling_table_pointer bounded="pool of 7 tables (4 path + 3 allocatable); tree-shaped sparse pre-state (target path, one neighbour word per path table, garbage in allocatable frames); page-table indices (511,510,1,0)"
    //@ obligation C09 C09.set_flags_p2_entry_1gib.shape_any.no_access_outside_page_tables bounded="pool of 7 tables (4 path + 3 allocatable); tree-shaped sparse pre-state (target path, one neighbour word per path table, garbage in allocatable frames); page-table indices (511,510,1,0)"
    #[kani::proof]
    #[kani::stub(PageTable::zero, zero_stub)]
    fn c02_set_flags_p2_entry_1gib_any_hi() {
        set_flags_step!(Size1GiB, "1gib", "any", P3_HUGE, IDX_HI, set_flags_p2_entry, "p2", 2);
        kani::cover!(true, "c02_set_flags_p2_entry_1gib_any_hi: reachable");
    }

    //@ obligation C02 C02.set_flags_p2_entry_1gib.shape_any.level_above_leaf_does_not_exist_is_error tier=thorough bounded="pool of 7 tables (4 path + 3 allocatable); tree-shaped sparse pre-state (target path, one neighbour word per path table, garbage in allocatable frames); page-table indices (255,511,0,256)"
    //@ obligation C02 C02.set_flags_p2_entry_1gib.shape_any.error_leaves_every_mapping tier=thorough bounded="pool of 7 tables (4 path + 3 allocatable); tree-shaped sparse pre-state (target path, one neighbour word per path table, garbage in allocatable frames); page-table indices (255,511,0,256)"
    //@ obligation C09 C09.set_flags_p2_entry_1gib.shape_any.only_dictated_slots_change tier=thorough bounded="pool of 7 tables (4 path + 3 allocatable); tree-shaped sparse pre-state (target path, one neighbour word per path table, garbage in allocatable frames); page-table indices (255,511,0,256)"
    //@ obligation C09 C09.set_flags_p2_entry_1gib.shape_any.no_frames_requested_or_zeroed tier=thorough bounded="pool of 7 tables (4 path + 3 allocatable); tree-shaped sparse pre-state (target path, one neighbour word per path table, garbage in allocatable frames); page-table indices (255,511,0,256)"
    //@ obligation C09 C09.set_flags_p2_entry_1gib.shape_any.no_dangling_table_pointer tier=thorough bounded="pool of 7 tables (4 path + 3 allocatable); tree-shaped sparse pre-state (target path, one neighbour word per path table, garbage in allocatable frames); page-table indices (255,511,0,256)"
    //@ obligation C09 C09.set_flags_p2_entry_1gib.shape_any.no_access_outside_page_tables tier=thorough bounded="pool of 7 tables (4 path + 3 allocatable); tree-shaped sparse pre-state (target path, one neighbour word per path table, garbage in allocatable frames); page-table indices (255,511,0,256)"
    #[kani::proof]
    #[kani::stub(PageTable::zero, zero_stub)]
    fn c02_set_flags_p2_entry_1gib_any_mid() {
        set_flags_step!(Size1GiB, "1gib", "any", P3_HUGE, IDX_MID, set_flags_p2_entry, "p2", 2);
        kani::cover!(true, "c02_set_flags_p2_entry_1gib_any_mid: reachable");
    }

    //@ obligation C02 C02.set_flags_p2_entry_1gib.shape_any.level_above_leaf_does_not_exist_is_error tier=thorough bounded="pool of 7 tables (4 path + 3 allocatable); tree-shaped sparse pre-state (target path, one neighbour word per path table, garbage in allocatable frames); page-table indices (256,0,510,511)"
    //@ obligation C02 C02.set_flags_p2_entry_1gib.shape_any.error_leaves_every_mapping tier=thorough bounded="pool of 7 tables (4 path + 3 allocatable); tree-shaped sparse pre-state (target path, one neighbour word per path table, garbage in allocatable frames); page-table indices (256,0,510,511)"
    //@ obligation C09 C09.set_flags_p2_entry_1gib.shape_any.only_dictated_slots_change tier=thorough bounded="pool of 7 tables (4 path + 3 allocatable); tree-shaped sparse pre-state (target path, one neighbour word per path table, garbage in allocatable frames); page-table indices (256,0,510,511)"
    //@ obligation C09 C09.set_flags_p2_entry_1gib.shape_any.no_frames_requested_or_zeroed tier=thorough bounded="pool of 7 tables (4 path + 3 allocatable); tree-shaped sparse pre-state (target path, one neighbour word per path table, garbage in allocatable frames); page-table indices (256,0,510,511)"
    //@ obligation C09 C09.set_flags_p2_entry_1gib.shape_any.no_dangling_table_pointer tier=thorough bounded="pool of 7 tables (4 path + 3 allocatable); tree-shaped sparse pre-state (target path, one neighbour word per path table, garbage in allocatable frames); page-table indices (256,0,510,511)"
    //@ obligation C09 C09.set_flags_p2_entry_1gib.shape_any.no_access_outside_page_tables tier=thorough bounded="pool of 7 tables (4 path + 3 allocatable); tree-shaped sparse pre-state (target path, one neighbour word per path table, garbage in allocatable frames); page-table indices (256,0,510,511)"
    #[kani::proof]
    #[kani::stub(PageTable::zero, zero_stub)]
    fn c02_set_flags_p2_entry_1gib_any_up() {
        set_flags_step!(Size1GiB, "1gib", "any", P3_HUGE, IDX_UP, set_flags_p2_entry, "p2", 2);
        kani::cover!(true, "c02_set_flags_p2_entry_1gib_any_up: reachable");
    }
}
