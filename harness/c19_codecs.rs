//@ include-into src/lib.rs
// C19, part 2: the small value types are exact codecs.
//
// Full-domain, loop-free Kani proofs. Every architectural number in this file
// (field positions, valid-bit masks, vector lists, encodings) is written out
// from the manuals and does NOT go through the crate's own constants or `as`
// casts: `*_num` helpers below are exhaustive matches, so adding a variant to
// one of the enums makes this file stop compiling instead of passing silently.
//
// Contract style: the pre/postcondition pair sits on a thin wrapper `w_*` that
// calls the real function; the harness is `proof_for_contract(w_*)`. The
// vacuity guard `cover!` sits in the harness AFTER the wrapper call (so after
// the `requires` assumption; inside the wrapper Kani's contract expansion
// duplicates it and one copy is always UNREACHABLE). Each
// `ensures` clause is wrapped in `ob("<obligation name>", cond)` so that the
// failed-check description printed by Kani (the stringified closure) contains
// the obligation name.
//
// "Panics on EVERY invalid input" formulation: see `returned_on_invalid_input`.
#[cfg(kani)]
#[allow(unused_imports, clippy::all)]
mod verif_c19_codecs {
    use super::*;
    use crate::instructions::tlb::Pcid;
    use crate::registers::debug::{
        BreakpointCondition, BreakpointSize, DebugAddressRegisterNumber, Dr6Flags, Dr7Flags,
        Dr7Value,
    };
    use crate::registers::model_specific::PatMemoryType;
    use crate::registers::segmentation::SegmentSelector;
    use crate::structures::idt::{DescriptorTable, ExceptionVector, SelectorErrorCode};
    use core::convert::TryFrom;

    /// Tags a contract clause with its obligation name (identity on `c`).
    fn ob(_name: &'static str, c: bool) -> bool {
        c
    }

    /// Marker for "the call under test RETURNED although the input is invalid".
    ///
    /// Use: `#[kani::proof] #[kani::should_panic] fn h() { assume(!valid(x));
    /// cover!(..); f(x); returned_on_invalid_input(); }`.
    ///
    /// `#[kani::should_panic]` alone only demands that SOME path panics, and it
    /// tolerates any number of failing `assert!`s, so `f(x); assert!(false)` is
    /// unsound (the assert itself is "a panic"). But should_panic FAILS the
    /// harness as soon as a failed check is not of the panic/assertion class.
    /// `unreachable_unchecked()` produces a check of class `unreachable`
    /// ("unreachable code"), so:
    ///   harness SUCCESSFUL  <=>  at least one path panics AND no path reaches
    ///                            the marker (and no other UB / overflow check fails)
    ///                       <=>  the assumed input set is non-empty and f panics
    ///                            on every member of it  (f is loop-free here).
    /// Measured with a deliberately wrong function: see lib/C19_NOTES.md.
    #[inline(never)]
    fn returned_on_invalid_input() {
        unsafe { core::hint::unreachable_unchecked() }
    }

    // ----- independent numberings (exhaustive matches, from the manuals) ------

    /// SDM 3A 5.5: ring number.
    fn pl_num(p: PrivilegeLevel) -> u16 {
        match p {
            PrivilegeLevel::Ring0 => 0,
            PrivilegeLevel::Ring1 => 1,
            PrivilegeLevel::Ring2 => 2,
            PrivilegeLevel::Ring3 => 3,
        }
    }

    fn any_pl() -> PrivilegeLevel {
        match kani::any::<u8>() {
            0 => PrivilegeLevel::Ring0,
            1 => PrivilegeLevel::Ring1,
            2 => PrivilegeLevel::Ring2,
            _ => PrivilegeLevel::Ring3,
        }
    }

    fn drn_num(n: DebugAddressRegisterNumber) -> u8 {
        match n {
            DebugAddressRegisterNumber::Dr0 => 0,
            DebugAddressRegisterNumber::Dr1 => 1,
            DebugAddressRegisterNumber::Dr2 => 2,
            DebugAddressRegisterNumber::Dr3 => 3,
        }
    }

    fn any_drn() -> DebugAddressRegisterNumber {
        match kani::any::<u8>() {
            0 => DebugAddressRegisterNumber::Dr0,
            1 => DebugAddressRegisterNumber::Dr1,
            2 => DebugAddressRegisterNumber::Dr2,
            _ => DebugAddressRegisterNumber::Dr3,
        }
    }

    /// SDM 3B 18.2.4, R/Wn field.
    fn cond_num(c: BreakpointCondition) -> u64 {
        match c {
            BreakpointCondition::InstructionExecution => 0b00,
            BreakpointCondition::DataWrites => 0b01,
            BreakpointCondition::IoReadsWrites => 0b10,
            BreakpointCondition::DataReadsWrites => 0b11,
        }
    }

    fn any_cond() -> BreakpointCondition {
        match kani::any::<u8>() {
            0 => BreakpointCondition::InstructionExecution,
            1 => BreakpointCondition::DataWrites,
            2 => BreakpointCondition::IoReadsWrites,
            _ => BreakpointCondition::DataReadsWrites,
        }
    }

    /// SDM 3B 18.2.4, LENn field: 00 = 1 byte, 01 = 2 bytes, 10 = 8 bytes, 11 = 4 bytes.
    fn size_num(s: BreakpointSize) -> u64 {
        match s {
            BreakpointSize::Length1B => 0b00,
            BreakpointSize::Length2B => 0b01,
            BreakpointSize::Length8B => 0b10,
            BreakpointSize::Length4B => 0b11,
        }
    }

    fn size_bytes(s: BreakpointSize) -> usize {
        match s {
            BreakpointSize::Length1B => 1,
            BreakpointSize::Length2B => 2,
            BreakpointSize::Length8B => 8,
            BreakpointSize::Length4B => 4,
        }
    }

    fn any_size() -> BreakpointSize {
        match kani::any::<u8>() {
            0 => BreakpointSize::Length1B,
            1 => BreakpointSize::Length2B,
            2 => BreakpointSize::Length8B,
            _ => BreakpointSize::Length4B,
        }
    }

    /// SDM 3A table 12-10.
    fn pat_num(t: PatMemoryType) -> u8 {
        match t {
            PatMemoryType::StrongUncacheable => 0,
            PatMemoryType::WriteCombining => 1,
            PatMemoryType::WriteThrough => 4,
            PatMemoryType::WriteProtected => 5,
            PatMemoryType::WriteBack => 6,
            PatMemoryType::Uncacheable => 7,
        }
    }

    fn any_pat() -> PatMemoryType {
        match kani::any::<u8>() {
            0 => PatMemoryType::StrongUncacheable,
            1 => PatMemoryType::WriteCombining,
            2 => PatMemoryType::WriteThrough,
            3 => PatMemoryType::WriteProtected,
            4 => PatMemoryType::WriteBack,
            _ => PatMemoryType::Uncacheable,
        }
    }

    /// SDM 3A table 6-1 / APM 2 table 8-1 (exhaustive: `#[non_exhaustive]` has no effect in-crate).
    fn ev_num(v: ExceptionVector) -> u8 {
        match v {
            ExceptionVector::Division => 0,
            ExceptionVector::Debug => 1,
            ExceptionVector::NonMaskableInterrupt => 2,
            ExceptionVector::Breakpoint => 3,
            ExceptionVector::Overflow => 4,
            ExceptionVector::BoundRange => 5,
            ExceptionVector::InvalidOpcode => 6,
            ExceptionVector::DeviceNotAvailable => 7,
            ExceptionVector::Double => 8,
            ExceptionVector::InvalidTss => 10,
            ExceptionVector::SegmentNotPresent => 11,
            ExceptionVector::Stack => 12,
            ExceptionVector::GeneralProtection => 13,
            ExceptionVector::Page => 14,
            ExceptionVector::X87FloatingPoint => 16,
            ExceptionVector::AlignmentCheck => 17,
            ExceptionVector::MachineCheck => 18,
            ExceptionVector::SimdFloatingPoint => 19,
            ExceptionVector::Virtualization => 20,
            ExceptionVector::ControlProtection => 21,
            ExceptionVector::HypervisorInjection => 28,
            ExceptionVector::VmmCommunication => 29,
            ExceptionVector::Security => 30,
        }
    }

    /// The vectors the crate's enum names: 0-8, 10-14, 16-21, 28-30. Vector 9
    /// (coprocessor segment overrun), 15, 22-27, 31 are reserved; 32.. are not exceptions.
    fn vector_is_named(n: u8) -> bool {
        n <= 8 || (10 <= n && n <= 14) || (16 <= n && n <= 21) || (28 <= n && n <= 30)
    }

    fn any_ev() -> ExceptionVector {
        match kani::any::<u8>() {
            0 => ExceptionVector::Division,
            1 => ExceptionVector::Debug,
            2 => ExceptionVector::NonMaskableInterrupt,
            3 => ExceptionVector::Breakpoint,
            4 => ExceptionVector::Overflow,
            5 => ExceptionVector::BoundRange,
            6 => ExceptionVector::InvalidOpcode,
            7 => ExceptionVector::DeviceNotAvailable,
            8 => ExceptionVector::Double,
            9 => ExceptionVector::InvalidTss,
            10 => ExceptionVector::SegmentNotPresent,
            11 => ExceptionVector::Stack,
            12 => ExceptionVector::GeneralProtection,
            13 => ExceptionVector::Page,
            14 => ExceptionVector::X87FloatingPoint,
            15 => ExceptionVector::AlignmentCheck,
            16 => ExceptionVector::MachineCheck,
            17 => ExceptionVector::SimdFloatingPoint,
            18 => ExceptionVector::Virtualization,
            19 => ExceptionVector::ControlProtection,
            20 => ExceptionVector::HypervisorInjection,
            21 => ExceptionVector::VmmCommunication,
            _ => ExceptionVector::Security,
        }
    }

    /// DR7 bits that are architecturally defined (SDM 3B figure 18-1):
    /// L0..G3 (7:0), LE, GE (9:8), RTM (11), GD (13), R/Wn + LENn (31:16).
    /// Bit 10 (reads 1), 12, 14, 15 and 63:32 are reserved.
    const DR7_DEFINED: u64 = 0xFFFF_2BFF;
    const DR7_FLAG_BITS: u64 = 0x0000_2BFF;
    const DR7_FIELD_BITS: u64 = 0xFFFF_0000;

    // =========================== SegmentSelector ===============================
    // SDM 3A 3.4.2 figure 3-6: RPL bits 1:0, TI bit 2, index bits 15:3.

    #[kani::requires(index < 8192)]
    #[kani::ensures(|r: &SegmentSelector| ob("C19.SegmentSelector.new.bits", r.0 == (index << 3) | pl_num(rpl)))]
    #[kani::ensures(|r: &SegmentSelector| ob("C19.SegmentSelector.new.index_roundtrip", r.index() == index))]
    #[kani::ensures(|r: &SegmentSelector| ob("C19.SegmentSelector.new.rpl_roundtrip", r.rpl() == rpl))]
    #[kani::ensures(|r: &SegmentSelector| ob("C19.SegmentSelector.new.ti_clear", r.0 & 0b100 == 0))]
    fn w_selector_new(index: u16, rpl: PrivilegeLevel) -> SegmentSelector {
        SegmentSelector::new(index, rpl)
    }

    //@ obligation C19 C19.SegmentSelector.new.bits
    //@ obligation C19 C19.SegmentSelector.new.index_roundtrip
    //@ obligation C19 C19.SegmentSelector.new.rpl_roundtrip
    //@ obligation C19 C19.SegmentSelector.new.ti_clear
    #[kani::proof_for_contract(w_selector_new)]
    fn c19_selector_new() {
        let index: u16 = kani::any();
        w_selector_new(index, any_pl());
        kani::cover!(true, "c19_selector_new: reachable");
    }

    /// Field readers on an arbitrary raw selector (all 65536 values): never panic.
    #[kani::ensures(|r: &(u16, PrivilegeLevel)| ob("C19.SegmentSelector.index.reads_bits_3_15", r.0 == raw >> 3))]
    #[kani::ensures(|r: &(u16, PrivilegeLevel)| ob("C19.SegmentSelector.rpl.reads_bits_0_1", pl_num(r.1) == raw & 0b11))]
    fn w_selector_read(raw: u16) -> (u16, PrivilegeLevel) {
        let s = SegmentSelector(raw);
        (s.index(), s.rpl())
    }

    //@ obligation C19 C19.SegmentSelector.index.reads_bits_3_15
    //@ obligation C19 C19.SegmentSelector.rpl.reads_bits_0_1
    #[kani::proof_for_contract(w_selector_read)]
    fn c19_selector_read() {
        w_selector_read(kani::any());
        kani::cover!(true, "c19_selector_read: reachable");
    }

    // Plain proof (PLAIN-1): as a contract this takes 20 s, as a plain proof 0.1 s; see C19_NOTES.md.
    //@ obligation C19 C19.SegmentSelector.set_rpl.frame
    //@ obligation C19 C19.SegmentSelector.set_rpl.value
    #[kani::proof]
    fn c19_selector_set_rpl() {
        let raw: u16 = kani::any();
        let rpl = any_pl();
        kani::cover!(true, "c19_selector_set_rpl: reachable");
        let mut s = SegmentSelector(raw);
        s.set_rpl(rpl);
        assert!(s.0 & !0b11 == raw & !0b11, "C19.SegmentSelector.set_rpl.frame: bits 15:2 (TI, index) unchanged");
        assert!(s.0 & 0b11 == pl_num(rpl), "C19.SegmentSelector.set_rpl.value: bits 1:0 hold the new RPL");
    }

    // ============================ PrivilegeLevel ===============================

    #[kani::requires(value < 4)]
    #[kani::ensures(|r: &PrivilegeLevel| ob("C19.PrivilegeLevel.from_u16.accepts", pl_num(*r) == value && (*r as u16) == value))]
    fn w_privilege_from_u16(value: u16) -> PrivilegeLevel {
        PrivilegeLevel::from_u16(value)
    }

    //@ obligation C19 C19.PrivilegeLevel.from_u16.accepts
    #[kani::proof_for_contract(w_privilege_from_u16)]
    fn c19_privilege_from_u16_accepts() {
        w_privilege_from_u16(kani::any());
        kani::cover!(true, "c19_privilege_from_u16_accepts: reachable");
    }

    //@ obligation C19 C19.PrivilegeLevel.from_u16.rejects
    #[kani::proof]
    #[kani::should_panic]
    fn c19_privilege_from_u16_rejects() {
        let value: u16 = kani::any();
        kani::assume(value >= 4);
        kani::cover!(true, "c19_privilege_from_u16_rejects: reachable");
        let _ = PrivilegeLevel::from_u16(value);
        // C19.PrivilegeLevel.from_u16.rejects: returned on an invalid input
        returned_on_invalid_input();
    }

    // ===================== DebugAddressRegisterNumber ==========================

    #[kani::ensures(|r: &Option<DebugAddressRegisterNumber>| ob("C19.DebugAddressRegisterNumber.new.accepts_iff_lt_4", r.is_some() == (n < 4)))]
    #[kani::ensures(|r: &Option<DebugAddressRegisterNumber>| ob("C19.DebugAddressRegisterNumber.new.roundtrip",
        match r { Some(d) => drn_num(*d) == n && d.get() == n, None => true }))]
    fn w_drn_new(n: u8) -> Option<DebugAddressRegisterNumber> {
        DebugAddressRegisterNumber::new(n)
    }

    //@ obligation C19 C19.DebugAddressRegisterNumber.new.accepts_iff_lt_4
    //@ obligation C19 C19.DebugAddressRegisterNumber.new.roundtrip
    #[kani::proof_for_contract(w_drn_new)]
    fn c19_drn_new() {
        w_drn_new(kani::any());
        kani::cover!(true, "c19_drn_new: reachable");
    }

    #[kani::ensures(|r: &Option<DebugAddressRegisterNumber>| ob("C19.DebugAddressRegisterNumber.get.inverse", *r == Some(d)))]
    fn w_drn_get(d: DebugAddressRegisterNumber) -> Option<DebugAddressRegisterNumber> {
        DebugAddressRegisterNumber::new(d.get())
    }

    //@ obligation C19 C19.DebugAddressRegisterNumber.get.inverse
    #[kani::proof_for_contract(w_drn_get)]
    fn c19_drn_get_inverse() {
        w_drn_get(any_drn());
        kani::cover!(true, "c19_drn_get_inverse: reachable");
    }

    // ================== BreakpointCondition / BreakpointSize ===================

    #[kani::ensures(|r: &Option<BreakpointCondition>| ob("C19.BreakpointCondition.from_bits.accepts_iff_lt_4", r.is_some() == (bits < 4)))]
    #[kani::ensures(|r: &Option<BreakpointCondition>| ob("C19.BreakpointCondition.from_bits.decodes",
        match r { Some(c) => cond_num(*c) == bits, None => true }))]
    fn w_cond_from_bits(bits: u64) -> Option<BreakpointCondition> {
        BreakpointCondition::from_bits(bits)
    }

    //@ obligation C19 C19.BreakpointCondition.from_bits.accepts_iff_lt_4
    //@ obligation C19 C19.BreakpointCondition.from_bits.decodes
    #[kani::proof_for_contract(w_cond_from_bits)]
    fn c19_cond_from_bits() {
        w_cond_from_bits(kani::any());
        kani::cover!(true, "c19_cond_from_bits: reachable");
    }

    #[kani::ensures(|r: &Option<BreakpointCondition>| ob("C19.BreakpointCondition.roundtrip", *r == Some(c)))]
    fn w_cond_roundtrip(c: BreakpointCondition) -> Option<BreakpointCondition> {
        BreakpointCondition::from_bits(c as u64)
    }

    //@ obligation C19 C19.BreakpointCondition.roundtrip
    #[kani::proof_for_contract(w_cond_roundtrip)]
    fn c19_cond_roundtrip() {
        w_cond_roundtrip(any_cond());
        kani::cover!(true, "c19_cond_roundtrip: reachable");
    }

    #[kani::ensures(|r: &Option<BreakpointSize>| ob("C19.BreakpointSize.from_bits.accepts_iff_lt_4", r.is_some() == (bits < 4)))]
    #[kani::ensures(|r: &Option<BreakpointSize>| ob("C19.BreakpointSize.from_bits.decodes",
        match r { Some(s) => size_num(*s) == bits, None => true }))]
    fn w_size_from_bits(bits: u64) -> Option<BreakpointSize> {
        BreakpointSize::from_bits(bits)
    }

    //@ obligation C19 C19.BreakpointSize.from_bits.accepts_iff_lt_4
    //@ obligation C19 C19.BreakpointSize.from_bits.decodes
    #[kani::proof_for_contract(w_size_from_bits)]
    fn c19_size_from_bits() {
        w_size_from_bits(kani::any());
        kani::cover!(true, "c19_size_from_bits: reachable");
    }

    #[kani::ensures(|r: &Option<BreakpointSize>| ob("C19.BreakpointSize.new.accepts_iff_1_2_4_8",
        r.is_some() == (size == 1 || size == 2 || size == 4 || size == 8)))]
    #[kani::ensures(|r: &Option<BreakpointSize>| ob("C19.BreakpointSize.new.decodes",
        match r { Some(s) => size_bytes(*s) == size, None => true }))]
    fn w_size_new(size: usize) -> Option<BreakpointSize> {
        BreakpointSize::new(size)
    }

    //@ obligation C19 C19.BreakpointSize.new.accepts_iff_1_2_4_8
    //@ obligation C19 C19.BreakpointSize.new.decodes
    #[kani::proof_for_contract(w_size_new)]
    fn c19_size_new() {
        w_size_new(kani::any());
        kani::cover!(true, "c19_size_new: reachable");
    }

    #[kani::ensures(|r: &(Option<BreakpointSize>, Option<BreakpointSize>)| ob("C19.BreakpointSize.roundtrip",
        r.0 == Some(s) && r.1 == Some(s)))]
    fn w_size_roundtrip(s: BreakpointSize) -> (Option<BreakpointSize>, Option<BreakpointSize>) {
        (BreakpointSize::from_bits(s as u64), BreakpointSize::new(size_bytes(s)))
    }

    //@ obligation C19 C19.BreakpointSize.roundtrip
    #[kani::proof_for_contract(w_size_roundtrip)]
    fn c19_size_roundtrip() {
        w_size_roundtrip(any_size());
        kani::cover!(true, "c19_size_roundtrip: reachable");
    }

    // ================================ Dr7Value =================================
    // SDM 3B 18.2.4: R/Wn = bits 17+4n:16+4n, LENn = bits 19+4n:18+4n.

    #[kani::ensures(|r: &Option<Dr7Value>| ob("C19.Dr7Value.from_bits.accepts_iff_defined_bits_only",
        r.is_some() == (bits & !DR7_DEFINED == 0)))]
    #[kani::ensures(|r: &Option<Dr7Value>| ob("C19.Dr7Value.from_bits.roundtrip",
        match r { Some(v) => v.bits() == bits, None => true }))]
    fn w_dr7_from_bits(bits: u64) -> Option<Dr7Value> {
        Dr7Value::from_bits(bits)
    }

    //@ obligation C19 C19.Dr7Value.from_bits.accepts_iff_defined_bits_only
    //@ obligation C19 C19.Dr7Value.from_bits.roundtrip
    #[kani::proof_for_contract(w_dr7_from_bits)]
    fn c19_dr7_from_bits() {
        w_dr7_from_bits(kani::any());
        kani::cover!(true, "c19_dr7_from_bits: reachable");
    }

    #[kani::ensures(|r: &u64| ob("C19.Dr7Value.from_bits_truncate.keeps_defined_bits", *r == bits & DR7_DEFINED))]
    fn w_dr7_from_bits_truncate(bits: u64) -> u64 {
        Dr7Value::from_bits_truncate(bits).bits()
    }

    //@ obligation C19 C19.Dr7Value.from_bits_truncate.keeps_defined_bits
    #[kani::proof_for_contract(w_dr7_from_bits_truncate)]
    fn c19_dr7_from_bits_truncate() {
        w_dr7_from_bits_truncate(kani::any());
        kani::cover!(true, "c19_dr7_from_bits_truncate: reachable");
    }

    #[kani::ensures(|r: &Option<Dr7Flags>| ob("C19.Dr7Flags.from_bits.accepts_iff_flag_bits_only",
        r.is_some() == (bits & !DR7_FLAG_BITS == 0)))]
    #[kani::ensures(|r: &Option<Dr7Flags>| ob("C19.Dr7Flags.from_bits.roundtrip",
        match r { Some(f) => f.bits() == bits, None => true }))]
    fn w_dr7flags_from_bits(bits: u64) -> Option<Dr7Flags> {
        Dr7Flags::from_bits(bits)
    }

    //@ obligation C19 C19.Dr7Flags.from_bits.accepts_iff_flag_bits_only
    //@ obligation C19 C19.Dr7Flags.from_bits.roundtrip
    #[kani::proof_for_contract(w_dr7flags_from_bits)]
    fn c19_dr7flags_from_bits() {
        w_dr7flags_from_bits(kani::any());
        kani::cover!(true, "c19_dr7flags_from_bits: reachable");
    }

    /// Readers, over ALL 2^64 raw values (also ones `from_bits` would reject): no panic, exact field.
    /// (PLAIN-1: 56 s as a contract, 0.3 s plain.)
    //@ obligation C19 C19.Dr7Value.condition.reads_field
    //@ obligation C19 C19.Dr7Value.size.reads_field
    #[kani::proof]
    fn c19_dr7_read_fields() {
        let bits: u64 = kani::any();
        let n = any_drn();
        kani::cover!(true, "c19_dr7_read_fields: reachable");
        let v = unsafe { Dr7Value::from_bits_unchecked(bits) };
        let (c, s) = (v.condition(n), v.size(n));
        assert!(cond_num(c) == (bits >> (16 + 4 * drn_num(n) as u64)) & 0b11,
            "C19.Dr7Value.condition.reads_field: R/Wn is bits 17+4n:16+4n");
        assert!(size_num(s) == (bits >> (18 + 4 * drn_num(n) as u64)) & 0b11,
            "C19.Dr7Value.size.reads_field: LENn is bits 19+4n:18+4n");
    }

    /// Writer: exactly the two bits of R/Wn change (frame = every other bit of a symbolic prior value).
    /// (PLAIN-1: 28 s as a contract.)
    //@ obligation C19 C19.Dr7Value.set_condition.writes_field_only
    #[kani::proof]
    fn c19_dr7_set_condition() {
        let bits: u64 = kani::any();
        let (n, c) = (any_drn(), any_cond());
        kani::cover!(true, "c19_dr7_set_condition: reachable");
        let mut v = unsafe { Dr7Value::from_bits_unchecked(bits) };
        v.set_condition(n, c);
        let lsb = 16 + 4 * drn_num(n) as u64;
        assert!(v.bits() == (bits & !(0b11u64 << lsb)) | (cond_num(c) << lsb),
            "C19.Dr7Value.set_condition.writes_field_only: result is the prior value with bits 17+4n:16+4n replaced");
    }

    /// (PLAIN-1: 31 s as a contract.)
    //@ obligation C19 C19.Dr7Value.set_size.writes_field_only
    #[kani::proof]
    fn c19_dr7_set_size() {
        let bits: u64 = kani::any();
        let (n, s) = (any_drn(), any_size());
        kani::cover!(true, "c19_dr7_set_size: reachable");
        let mut v = unsafe { Dr7Value::from_bits_unchecked(bits) };
        v.set_size(n, s);
        let lsb = 18 + 4 * drn_num(n) as u64;
        assert!(v.bits() == (bits & !(0b11u64 << lsb)) | (size_num(s) << lsb),
            "C19.Dr7Value.set_size.writes_field_only: result is the prior value with bits 19+4n:18+4n replaced");
    }

    /// Independence at API level: 4 registers x 4 conditions x 4 sizes x every prior value.
    //@ obligation C19 C19.Dr7Value.fields.independent
    #[kani::proof]
    fn c19_dr7_fields_independent() {
        let bits: u64 = kani::any();
        let (n, m) = (any_drn(), any_drn());
        let (c, s) = (any_cond(), any_size());
        let write_size_first: bool = kani::any();
        kani::cover!(true, "c19_dr7_fields_independent: reachable");
        let old = unsafe { Dr7Value::from_bits_unchecked(bits) };
        let mut v = old;
        if write_size_first {
            v.set_size(n, s);
            v.set_condition(n, c);
        } else {
            v.set_condition(n, c);
            v.set_size(n, s);
        }
        assert!(v.condition(n) == c, "C19.Dr7Value.fields.independent: condition(n) reads back what was set");
        assert!(v.size(n) == s, "C19.Dr7Value.fields.independent: size(n) reads back what was set");
        if drn_num(m) != drn_num(n) {
            assert!(v.condition(m) == old.condition(m), "C19.Dr7Value.fields.independent: other register's condition kept");
            assert!(v.size(m) == old.size(m), "C19.Dr7Value.fields.independent: other register's size kept");
        }
        assert!(v.flags() == old.flags(), "C19.Dr7Value.fields.independent: flag bits kept");
        assert!(v.bits() & !DR7_FIELD_BITS == bits & !DR7_FIELD_BITS,
            "C19.Dr7Value.fields.independent: no bit outside 31:16 changed");
    }

    /// Flag updates never touch the fields (and touch exactly the named flag bits).
    //@ obligation C19 C19.Dr7Value.flags.independent_of_fields
    #[kani::proof]
    fn c19_dr7_flags_independent() {
        let bits: u64 = kani::any();
        let fbits: u64 = kani::any();
        let op: u8 = kani::any();
        kani::assume(op < 4);
        kani::cover!(true, "c19_dr7_flags_independent: reachable");
        let f = Dr7Flags::from_bits_truncate(fbits);
        assert!(f.bits() == fbits & DR7_FLAG_BITS, "C19.Dr7Value.flags.independent_of_fields: from_bits_truncate keeps flag bits only");
        let mut v = unsafe { Dr7Value::from_bits_unchecked(bits) };
        let expect = match op {
            0 => { v.insert_flags(f); bits | f.bits() }
            1 => { v.remove_flags(f); bits & !f.bits() }
            2 => { v.toggle_flags(f); bits ^ f.bits() }
            _ => { let on: bool = kani::any(); v.set_flags(f, on); if on { bits | f.bits() } else { bits & !f.bits() } }
        };
        assert!(v.bits() == expect, "C19.Dr7Value.flags.independent_of_fields: exact result");
        assert!(v.bits() & !DR7_FLAG_BITS == bits & !DR7_FLAG_BITS,
            "C19.Dr7Value.flags.independent_of_fields: fields and reserved bits untouched");
        let d = Dr7Value::from(f);
        assert!(d.bits() == f.bits(), "C19.Dr7Value.flags.independent_of_fields: From<Dr7Flags> is the identity on bits");
        let g = unsafe { Dr7Value::from_bits_unchecked(bits) }.flags();
        assert!(g.bits() == bits & DR7_FLAG_BITS, "C19.Dr7Value.flags.independent_of_fields: flags() reads the flag bits");
    }

    /// Ln = bit 2n, Gn = bit 2n+1 (DR7); Bn = bit n (DR6).
    #[kani::ensures(|r: &(u64, u64, u64)| ob("C19.Dr7Flags.local_breakpoint_enable.bit_2n", r.0 == 1u64 << (2 * drn_num(n) as u64)))]
    #[kani::ensures(|r: &(u64, u64, u64)| ob("C19.Dr7Flags.global_breakpoint_enable.bit_2n_plus_1", r.1 == 1u64 << (2 * drn_num(n) as u64 + 1)))]
    #[kani::ensures(|r: &(u64, u64, u64)| ob("C19.Dr6Flags.trap.bit_n", r.2 == 1u64 << drn_num(n) as u64))]
    fn w_dr_per_register_flags(n: DebugAddressRegisterNumber) -> (u64, u64, u64) {
        (
            Dr7Flags::local_breakpoint_enable(n).bits(),
            Dr7Flags::global_breakpoint_enable(n).bits(),
            Dr6Flags::trap(n).bits(),
        )
    }

    //@ obligation C19 C19.Dr7Flags.local_breakpoint_enable.bit_2n
    //@ obligation C19 C19.Dr7Flags.global_breakpoint_enable.bit_2n_plus_1
    //@ obligation C19 C19.Dr6Flags.trap.bit_n
    #[kani::proof_for_contract(w_dr_per_register_flags)]
    fn c19_dr_per_register_flags() {
        w_dr_per_register_flags(any_drn());
        kani::cover!(true, "c19_dr_per_register_flags: reachable");
    }

    // ================================== Pcid ===================================
    // SDM 3A 4.10.1: PCIDs are 12 bits (CR3[11:0]).

    #[kani::ensures(|r: &Option<u16>| ob("C19.Pcid.new.accepts_iff_lt_4096", r.is_some() == (pcid < 4096)))]
    #[kani::ensures(|r: &Option<u16>| ob("C19.Pcid.new.roundtrip", match r { Some(v) => *v == pcid, None => true }))]
    fn w_pcid_new(pcid: u16) -> Option<u16> {
        match Pcid::new(pcid) {
            Ok(p) => Some(p.value()),
            Err(_) => None,
        }
    }

    //@ obligation C19 C19.Pcid.new.accepts_iff_lt_4096
    //@ obligation C19 C19.Pcid.new.roundtrip
    #[kani::proof_for_contract(w_pcid_new)]
    fn c19_pcid_new() {
        w_pcid_new(kani::any());
        kani::cover!(true, "c19_pcid_new: reachable");
    }

    // ============================= ExceptionVector =============================

    #[kani::ensures(|r: &Option<ExceptionVector>| ob("C19.ExceptionVector.try_from.accepts_iff_named_vector", r.is_some() == vector_is_named(n)))]
    #[kani::ensures(|r: &Option<ExceptionVector>| ob("C19.ExceptionVector.try_from.inverse_of_discriminant",
        match r { Some(v) => ev_num(*v) == n && (*v as u8) == n, None => true }))]
    fn w_ev_try_from(n: u8) -> Option<ExceptionVector> {
        ExceptionVector::try_from(n).ok()
    }

    //@ obligation C19 C19.ExceptionVector.try_from.accepts_iff_named_vector
    //@ obligation C19 C19.ExceptionVector.try_from.inverse_of_discriminant
    #[kani::proof_for_contract(w_ev_try_from)]
    fn c19_ev_try_from() {
        w_ev_try_from(kani::any());
        kani::cover!(true, "c19_ev_try_from: reachable");
    }

    #[kani::ensures(|r: &Option<ExceptionVector>| ob("C19.ExceptionVector.roundtrip", *r == Some(v)))]
    fn w_ev_roundtrip(v: ExceptionVector) -> Option<ExceptionVector> {
        ExceptionVector::try_from(v as u8).ok()
    }

    //@ obligation C19 C19.ExceptionVector.roundtrip
    #[kani::proof_for_contract(w_ev_roundtrip)]
    fn c19_ev_roundtrip() {
        w_ev_roundtrip(any_ev());
        kani::cover!(true, "c19_ev_roundtrip: reachable");
    }

    // ============================== PatMemoryType ==============================

    #[kani::ensures(|r: &Option<PatMemoryType>| ob("C19.PatMemoryType.from_bits.accepts_iff_defined_encoding",
        r.is_some() == (bits == 0 || bits == 1 || bits == 4 || bits == 5 || bits == 6 || bits == 7)))]
    #[kani::ensures(|r: &Option<PatMemoryType>| ob("C19.PatMemoryType.from_bits.decodes",
        match r { Some(t) => pat_num(*t) == bits && t.bits() == bits, None => true }))]
    fn w_pat_from_bits(bits: u8) -> Option<PatMemoryType> {
        PatMemoryType::from_bits(bits)
    }

    //@ obligation C19 C19.PatMemoryType.from_bits.accepts_iff_defined_encoding
    //@ obligation C19 C19.PatMemoryType.from_bits.decodes
    #[kani::proof_for_contract(w_pat_from_bits)]
    fn c19_pat_from_bits() {
        w_pat_from_bits(kani::any());
        kani::cover!(true, "c19_pat_from_bits: reachable");
    }

    #[kani::ensures(|r: &(u8, Option<PatMemoryType>)| ob("C19.PatMemoryType.roundtrip", r.0 == pat_num(t) && r.1 == Some(t)))]
    fn w_pat_roundtrip(t: PatMemoryType) -> (u8, Option<PatMemoryType>) {
        (t.bits(), PatMemoryType::from_bits(t.bits()))
    }

    //@ obligation C19 C19.PatMemoryType.roundtrip
    #[kani::proof_for_contract(w_pat_roundtrip)]
    fn c19_pat_roundtrip() {
        w_pat_roundtrip(any_pat());
        kani::cover!(true, "c19_pat_roundtrip: reachable");
    }

    // ============================ SelectorErrorCode ============================
    // SDM 3A 6.13 figure 6-7: EXT bit 0, IDT bit 1, TI bit 2, selector index bits 15:3.
    // IDT=1 -> IDT (TI ignored); IDT=0: TI=0 -> GDT, TI=1 -> LDT.

    fn table_of(field: u64) -> DescriptorTable {
        if field & 0b01 != 0 {
            DescriptorTable::Idt
        } else if field & 0b10 != 0 {
            DescriptorTable::Ldt
        } else {
            DescriptorTable::Gdt
        }
    }

    /// (PLAIN-1: 13 s as a contract.)
    //@ obligation C19 C19.SelectorErrorCode.new.accepts_iff_le_u16_max
    //@ obligation C19 C19.SelectorErrorCode.external.reads_bit_0
    //@ obligation C19 C19.SelectorErrorCode.descriptor_table.reads_bits_1_2
    //@ obligation C19 C19.SelectorErrorCode.index.reads_bits_3_15
    //@ obligation C19 C19.SelectorErrorCode.is_null.iff_zero
    #[kani::proof]
    fn c19_selector_error_code_new() {
        let value: u64 = kani::any();
        kani::cover!(true, "c19_selector_error_code_new: reachable");
        let r = SelectorErrorCode::new(value);
        assert!(r.is_some() == (value <= 0xFFFF),
            "C19.SelectorErrorCode.new.accepts_iff_le_u16_max: Some iff no bit of 63:16 is set");
        if let Some(e) = r {
            assert!(e.external() == (value & 1 == 1), "C19.SelectorErrorCode.external.reads_bit_0: EXT");
            assert!(e.descriptor_table() == table_of((value >> 1) & 0b11),
                "C19.SelectorErrorCode.descriptor_table.reads_bits_1_2: IDT / TI");
            assert!(e.index() == (value >> 3) & 0x1FFF, "C19.SelectorErrorCode.index.reads_bits_3_15: selector index");
            assert!(e.is_null() == (value == 0), "C19.SelectorErrorCode.is_null.iff_zero: null iff the code is 0");
        }
    }

    #[kani::ensures(|r: &(bool, DescriptorTable, u64, bool)| ob("C19.SelectorErrorCode.new_truncate.drops_bits_16_63",
        r.0 == (value & 1 == 1) && r.1 == table_of((value >> 1) & 0b11)
            && r.2 == (value >> 3) & 0x1FFF && r.3 == (value & 0xFFFF == 0)))]
    fn w_selector_error_code_new_truncate(value: u64) -> (bool, DescriptorTable, u64, bool) {
        let e = SelectorErrorCode::new_truncate(value);
        (e.external(), e.descriptor_table(), e.index(), e.is_null())
    }

    //@ obligation C19 C19.SelectorErrorCode.new_truncate.drops_bits_16_63
    #[kani::proof_for_contract(w_selector_error_code_new_truncate)]
    fn c19_selector_error_code_new_truncate() {
        w_selector_error_code_new_truncate(kani::any());
        kani::cover!(true, "c19_selector_error_code_new_truncate: reachable");
    }
}
