//@ include-into src/lib.rs
//
// E1 TWINS of the C05 stepping obligations (and of the C03 `.valid` clauses of
// the same functions): same obligation NAMES as in /verif/spec/addr.spec.rs and
// /verif/spec/page.spec.rs, so the driver pairs the two engines (DESIGN 2,
// twin rule). Each twin is a loop-free, full-domain Kani harness stating the
// Verus pre/postcondition as executable Rust:
//
//   pos(a) = a & 0xffff_ffff_ffff    rank of a canonical address among the 2^48
//                                    canonical addresses in ascending order
//   canonical(a): bits 47..63 all equal
//   sums and products are computed in u128 (no wrap-around is possible)
//
// Reached functions are `pub(crate)`; the file is included into the crate root.
//
// E2 only (do not exist in the Kani build, feature `step_trait` is off there):
//   VirtAddr::steps_between_impl, VirtAddr::backward_checked_u64, every
//   `impl Step for ..` (VirtAddr, Page<S>, PageTableIndex).
#[cfg(kani)]
#[allow(unused_imports, clippy::all)]
mod verif_c05_twins {
    use super::*;
    use crate::structures::paging::{Page, PageSize, Size1GiB, Size2MiB, Size4KiB};

    /// Checks every listed clause on its own path: Kani's `assert!` also ASSUMES its condition afterwards, so in a
    /// plain sequence a failing earlier clause would hide a failing later one (and with it the later obligation).
    macro_rules! check_each {
        ($( $c:expr => $m:literal ),+ $(,)?) => {{
            let pick: u8 = kani::any();
            let mut k: u8 = 0;
            $(
                if pick == k {
                    assert!($c, $m);
                }
                k += 1;
            )+
            let _ = k;
        }};
    }

    const LOW48: u64 = 0x0000_ffff_ffff_ffff;
    const TWO48: u128 = 1 << 48;

    /// bits 47..63 all equal
    fn canonical(a: u64) -> bool {
        let top = a >> 47;
        top == 0 || top == 0x1_ffff
    }

    /// rank of a canonical address in the contiguous sequence of canonical addresses
    fn pos(a: u64) -> u64 {
        a & LOW48
    }

    fn any_virt() -> (u64, VirtAddr) {
        let a: u64 = kani::any();
        kani::assume(canonical(a));
        (a, VirtAddr::new(a))
    }

    fn any_page<S: PageSize>(size: u64) -> (u64, Page<S>) {
        let (a, v) = any_virt();
        kani::assume(a % size == 0);
        (a, Page::from_start_address(v).unwrap())
    }

    /// the three page sizes, written out (not read from the crate)
    fn size_of_sel(sel: u8) -> u64 {
        match sel {
            0 => 4096,
            1 => 0x20_0000,
            _ => 0x4000_0000,
        }
    }

    // ================================================================ VirtAddr

    // requires wf_v(start); Some <==> pos(start) + count < 2^48; Some ==> wf_v(r) && pos(r) == pos(start) + count
    //@ obligation C05 C05.VirtAddr_forward_checked_u64.lands_n_later_or_none
    //@ obligation C03 C03.VirtAddr_forward_checked_u64.valid
    #[kani::proof]
    fn c05_twin_virtaddr_forward_checked_u64() {
        let (a, v) = any_virt();
        let count: u64 = kani::any();
        kani::cover!(true, "c05_twin_virtaddr_forward_checked_u64: reachable");
        let want = pos(a) as u128 + count as u128;
        let r = VirtAddr::forward_checked_u64(v, count);
        check_each! {
            r.is_some() == (want < TWO48)
                => "C05.VirtAddr_forward_checked_u64.lands_n_later_or_none: Some exactly when position pos(start) + count exists",
        }
        if let Some(x) = r {
            let x = x.as_u64();
            kani::cover!(a < 0x8000_0000_0000 && x >= 0xffff_8000_0000_0000, "c05_twin_virtaddr_forward_checked_u64: jumps the gap");
            check_each! {
                canonical(x)
                    => "C03.VirtAddr_forward_checked_u64.valid: the result is canonical",
                canonical(x) && pos(x) as u128 == want
                    => "C05.VirtAddr_forward_checked_u64.lands_n_later_or_none: a canonical address exactly count positions later",
            }
        }
    }

    //@ obligation C05 C05.VirtAddr_forward_checked_impl.lands_n_later_or_none
    #[kani::proof]
    fn c05_twin_virtaddr_forward_checked_impl() {
        let (a, v) = any_virt();
        let count: usize = kani::any();
        kani::cover!(true, "c05_twin_virtaddr_forward_checked_impl: reachable");
        let want = pos(a) as u128 + count as u128;
        let r = VirtAddr::forward_checked_impl(v, count);
        check_each! {
            r.is_some() == (want < TWO48)
                => "C05.VirtAddr_forward_checked_impl.lands_n_later_or_none: Some exactly when position pos(start) + count exists",
        }
        if let Some(x) = r {
            let x = x.as_u64();
            check_each! {
                canonical(x) && pos(x) as u128 == want
                    => "C05.VirtAddr_forward_checked_impl.lands_n_later_or_none: a canonical address exactly count positions later",
            }
        }
    }

    // requires wf_v(start), wf_v(end); Some <==> pos(start) <= pos(end); Some ==> r == pos(end) - pos(start)
    //@ obligation C05 C05.VirtAddr_steps_between_u64.exact_distance_or_none
    #[kani::proof]
    fn c05_twin_virtaddr_steps_between_u64() {
        let (s, vs) = any_virt();
        let (e, ve) = any_virt();
        kani::cover!(true, "c05_twin_virtaddr_steps_between_u64: reachable");
        kani::cover!(s < 0x8000_0000_0000 && e >= 0xffff_8000_0000_0000, "c05_twin_virtaddr_steps_between_u64: across the gap");
        let r = VirtAddr::steps_between_u64(&vs, &ve);
        check_each! {
            r.is_some() == (pos(s) <= pos(e))
                => "C05.VirtAddr_steps_between_u64.exact_distance_or_none: Some exactly when the end is not before the start",
        }
        if let Some(n) = r {
            check_each! {
                n as u128 + pos(s) as u128 == pos(e) as u128
                    => "C05.VirtAddr_steps_between_u64.exact_distance_or_none: the distance in positions, exactly",
            }
        }
    }

    // ================================================================ Page<S>

    fn page_steps_between<S: PageSize>(size: u64) -> (u64, u64, (usize, Option<usize>)) {
        let (a, x) = any_page::<S>(size);
        let (b, y) = any_page::<S>(size);
        (a, b, Page::steps_between_impl(&x, &y))
    }

    // requires wf_page(start), wf_page(end);
    // pos(start) <= pos(end) ==> r == (q, Some(q)) with q = (pos(end) - pos(start)) / SIZE and q * SIZE == pos(end) - pos(start)
    // pos(start) >  pos(end) ==> r == (0, None)
    //@ obligation C05 C05.Page_steps_between_impl.exact_pages_or_none
    #[kani::proof]
    fn c05_twin_page_steps_between_impl() {
        let sel: u8 = kani::any();
        kani::assume(sel < 3);
        let size = size_of_sel(sel);
        let (a, b, r) = match sel {
            0 => page_steps_between::<Size4KiB>(size),
            1 => page_steps_between::<Size2MiB>(size),
            _ => page_steps_between::<Size1GiB>(size),
        };
        kani::cover!(true, "c05_twin_page_steps_between_impl: reachable");
        kani::cover!(sel == 2 && a < 0x8000_0000_0000 && b >= 0xffff_8000_0000_0000, "c05_twin_page_steps_between_impl: 1 GiB across the gap");
        if pos(a) <= pos(b) {
            let d = pos(b) - pos(a);
            let q = d / size;
            check_each! {
                r.0 as u64 == q && r.1 == Some(q as usize)
                    => "C05.Page_steps_between_impl.exact_pages_or_none: (q, Some(q)), q = distance in whole pages",
                q as u128 * size as u128 == d as u128
                    => "C05.Page_steps_between_impl.exact_pages_or_none: q * SIZE is exactly the distance in positions",
            }
        } else {
            check_each! {
                r.0 == 0 && r.1.is_none()
                    => "C05.Page_steps_between_impl.exact_pages_or_none: (0, None) when the end is before the start",
            }
        }
    }

    fn page_forward_checked<S: PageSize>(size: u64, count: usize) -> (u64, Option<u64>) {
        let (a, x) = any_page::<S>(size);
        (a, Page::forward_checked_impl(x, count).map(|p| p.start_address().as_u64()))
    }

    // requires wf_page(start); Some <==> pos(start) + count * SIZE < 2^48;
    // Some ==> wf_page(r) && pos(r) == pos(start) + count * SIZE
    //@ obligation C05 C05.Page_forward_checked_impl.whole_pages_or_none
    //@ obligation C03 C03.Page_forward_checked_impl.valid
    #[kani::proof]
    fn c05_twin_page_forward_checked_impl() {
        let sel: u8 = kani::any();
        kani::assume(sel < 3);
        let size = size_of_sel(sel);
        let count: usize = kani::any();
        let (a, r) = match sel {
            0 => page_forward_checked::<Size4KiB>(size, count),
            1 => page_forward_checked::<Size2MiB>(size, count),
            _ => page_forward_checked::<Size1GiB>(size, count),
        };
        kani::cover!(true, "c05_twin_page_forward_checked_impl: reachable");
        kani::cover!(sel == 2 && r.is_some() && count > 0, "c05_twin_page_forward_checked_impl: 1 GiB step taken");
        // count * SIZE < 2^64 * 2^30: exact in u128
        let want = pos(a) as u128 + count as u128 * size as u128;
        check_each! {
            r.is_some() == (want < TWO48)
                => "C05.Page_forward_checked_impl.whole_pages_or_none: Some exactly when position pos(start) + count * SIZE exists",
        }
        if let Some(x) = r {
            check_each! {
                canonical(x) && x % size == 0
                    => "C03.Page_forward_checked_impl.valid: the result is a canonical, size-aligned start address",
                canonical(x) && x % size == 0 && pos(x) as u128 == want
                    => "C05.Page_forward_checked_impl.whole_pages_or_none: a well-formed page exactly count whole pages later",
            }
        }
    }
}
