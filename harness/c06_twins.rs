//@ include-into src/lib.rs
//
// E1 TWINS of the C06 alignment obligations of `PhysAddr`, `VirtAddr`,
// `Page<S>` and `PhysFrame<S>` (and of the C03 `.valid` clauses of the same
// functions). Same obligation NAMES as in /verif/spec/{addr,page,frame}.spec.rs
// so the driver pairs the two engines (DESIGN 2, twin rule). The free
// functions `align_down` / `align_up` are twinned in c03_twins.rs.
//
// Vocabulary, stated independently of the crate (no mask trick is used):
//   "r is the greatest multiple of al not above a":  r <= a, a - r < al, r % al == 0
//   "r is the least multiple of al not below a":     r >= a, r - a < al, r % al == 0
//   (each triple determines r uniquely; this replaces the `forall m` clause of
//   the Verus contract, which is not executable)
//   down(a, al) = a - a % al,  up(a, al) = a if a % al == 0 else a - a % al + al (in u128)
//   canonical(a): bits 47..63 all equal;  sext48(a): bit 47 copied into 48..63
//
// Mode A + B together = "returns iff P, and then Q":
//   `*_exact`  assumes P (alignment is a power of two, rounded value fits), calls, asserts Q
//              (any reachable panic fails the harness);
//   `*_panics` assumes !P and proves the call panics on EVERY such input
//              (`should_panic` + unreachable marker, lib/C19_NOTES.md).
// Alignments: all 64 powers of two as `1 << k`, k symbolic; all non powers of
// two for the panic case. `U: Into<u64>` is instantiated with u64 (the Verus
// contract is stated over `into_u64(align)`; for u64 that is the identity).
// Generic-in-S functions: one harness covers the three sizes through a
// symbolic selector.
#[cfg(kani)]
#[allow(unused_imports, clippy::all)]
mod verif_c06_twins {
    use super::*;
    use crate::structures::paging::{Page, PageSize, PhysFrame, Size1GiB, Size2MiB, Size4KiB};

    /// Checks every listed clause on its own path: Kani's `assert!` also ASSUMES its condition afterwards, so in a
    /// plain sequence a failing earlier clause would hide a failing later one (and with it the later obligation).
    macro_rules! check_each {
        ($( $c:expr => $m:literal ),+ $(,)?) => {{
            let pick: u8 = kani::any();
            let mut k: u8 = 0;
            $(
                if pick == k {
                    assert!($c, $m);
                }
                k += 1;
            )+
            let _ = k;
        }};
    }

    /// "the call returned although the input is invalid": see lib/C19_NOTES.md.
    #[inline(never)]
    fn returned_on_invalid_input() {
        unsafe { core::hint::unreachable_unchecked() }
    }

    const TWO47: u64 = 0x0000_8000_0000_0000;
    const TWO52: u64 = 0x0010_0000_0000_0000;

    fn canonical(a: u64) -> bool {
        let top = a >> 47;
        top == 0 || top == 0x1_ffff
    }

    fn sext48(a: u64) -> u64 {
        if a & (1u64 << 47) != 0 {
            a | 0xffff_0000_0000_0000
        } else {
            a & 0x0000_ffff_ffff_ffff
        }
    }

    fn pow2(x: u64) -> bool {
        x != 0 && x & x.wrapping_sub(1) == 0
    }

    /// greatest multiple of `al` (al > 0) not above `a`
    fn down(a: u64, al: u64) -> u64 {
        a - a % al
    }

    /// least multiple of `al` (al > 0) not below `a`, as an unbounded integer
    fn up(a: u64, al: u64) -> u128 {
        let (a, al) = (a as u128, al as u128);
        if a % al == 0 {
            a
        } else {
            a - a % al + al
        }
    }

    fn any_phys() -> (u64, PhysAddr) {
        let a: u64 = kani::any();
        kani::assume(a < TWO52);
        (a, PhysAddr::new(a))
    }

    fn any_virt() -> (u64, VirtAddr) {
        let a: u64 = kani::any();
        kani::assume(canonical(a));
        (a, VirtAddr::new(a))
    }

    /// every power of two that fits a u64
    fn any_pow2() -> (u32, u64) {
        let k: u32 = kani::any();
        kani::assume(k < 64);
        (k, 1u64 << k)
    }

    fn any_non_pow2() -> u64 {
        let al: u64 = kani::any();
        kani::assume(!pow2(al));
        al
    }

    /// the three page sizes, written out (not read from the crate)
    fn size_of_sel(sel: u8) -> u64 {
        match sel {
            0 => 4096,
            1 => 0x20_0000,
            _ => 0x4000_0000,
        }
    }

    // ================================================================ PhysAddr

    //@ obligation C06 C06.PhysAddr_align_down.greatest_multiple
    //@ obligation C03 C03.PhysAddr_align_down.valid
    #[kani::proof]
    fn c06_twin_physaddr_align_down_exact() {
        let (a, p) = any_phys();
        let (_k, al) = any_pow2();
        kani::cover!(true, "c06_twin_physaddr_align_down_exact: reachable");
        let r = p.align_down(al).as_u64();
        check_each! {
            r <= a && a - r < al && r % al == 0
                => "C06.PhysAddr_align_down.greatest_multiple: the greatest multiple of align not above self",
            r < TWO52
                => "C03.PhysAddr_align_down.valid: the result is below 2^52",
        }
    }

    //@ obligation C06 C06.PhysAddr_align_down.greatest_multiple
    #[kani::proof]
    #[kani::should_panic]
    fn c06_twin_physaddr_align_down_panics() {
        let (_a, p) = any_phys();
        let al = any_non_pow2();
        kani::cover!(true, "c06_twin_physaddr_align_down_panics: reachable");
        let _ = p.align_down(al);
        returned_on_invalid_input();
    }

    //@ obligation C06 C06.PhysAddr_align_down_u64.greatest_multiple
    //@ obligation C03 C03.PhysAddr_align_down_u64.valid
    #[kani::proof]
    fn c06_twin_physaddr_align_down_u64_exact() {
        let (a, p) = any_phys();
        let (_k, al) = any_pow2();
        kani::cover!(true, "c06_twin_physaddr_align_down_u64_exact: reachable");
        let r = p.align_down_u64(al).as_u64();
        check_each! {
            r <= a && a - r < al && r % al == 0
                => "C06.PhysAddr_align_down_u64.greatest_multiple: the greatest multiple of align not above self",
            r < TWO52
                => "C03.PhysAddr_align_down_u64.valid: the result is below 2^52",
        }
    }

    //@ obligation C06 C06.PhysAddr_align_down_u64.greatest_multiple
    #[kani::proof]
    #[kani::should_panic]
    fn c06_twin_physaddr_align_down_u64_panics() {
        let (_a, p) = any_phys();
        let al = any_non_pow2();
        kani::cover!(true, "c06_twin_physaddr_align_down_u64_panics: reachable");
        let _ = p.align_down_u64(al);
        returned_on_invalid_input();
    }

    // returns iff align is a power of two and the rounded value is below 2^52
    //@ obligation C06 C06.PhysAddr_align_up.least_multiple_or_panic_at_2_52
    //@ obligation C03 C03.PhysAddr_align_up.valid
    #[kani::proof]
    fn c06_twin_physaddr_align_up_exact() {
        let (a, p) = any_phys();
        let (_k, al) = any_pow2();
        kani::assume(up(a, al) < TWO52 as u128);
        kani::cover!(true, "c06_twin_physaddr_align_up_exact: reachable");
        kani::cover!(a % al != 0, "c06_twin_physaddr_align_up_exact: rounds");
        let r = p.align_up(al).as_u64();
        check_each! {
            r >= a && r - a < al && r % al == 0 && r as u128 == up(a, al)
                => "C06.PhysAddr_align_up.least_multiple_or_panic_at_2_52: the least multiple of align not below self",
            r < TWO52
                => "C03.PhysAddr_align_up.valid: the result is below 2^52",
        }
    }

    //@ obligation C06 C06.PhysAddr_align_up.least_multiple_or_panic_at_2_52
    #[kani::proof]
    #[kani::should_panic]
    fn c06_twin_physaddr_align_up_panics_at_2_52() {
        let (a, p) = any_phys();
        let (_k, al) = any_pow2();
        kani::assume(up(a, al) >= TWO52 as u128);
        kani::cover!(true, "c06_twin_physaddr_align_up_panics_at_2_52: reachable");
        let _ = p.align_up(al);
        returned_on_invalid_input();
    }

    //@ obligation C06 C06.PhysAddr_align_up.least_multiple_or_panic_at_2_52
    #[kani::proof]
    #[kani::should_panic]
    fn c06_twin_physaddr_align_up_panics_non_pow2() {
        let (_a, p) = any_phys();
        let al = any_non_pow2();
        kani::cover!(true, "c06_twin_physaddr_align_up_panics_non_pow2: reachable");
        let _ = p.align_up(al);
        returned_on_invalid_input();
    }

    //@ obligation C06 C06.PhysAddr_is_aligned.iff_multiple
    #[kani::proof]
    fn c06_twin_physaddr_is_aligned_exact() {
        let (a, p) = any_phys();
        let (_k, al) = any_pow2();
        kani::cover!(true, "c06_twin_physaddr_is_aligned_exact: reachable");
        let r = p.is_aligned(al);
        check_each! {
            r == (a % al == 0)
                => "C06.PhysAddr_is_aligned.iff_multiple: true exactly for multiples of align",
        }
    }

    //@ obligation C06 C06.PhysAddr_is_aligned.iff_multiple
    #[kani::proof]
    #[kani::should_panic]
    fn c06_twin_physaddr_is_aligned_panics() {
        let (_a, p) = any_phys();
        let al = any_non_pow2();
        kani::cover!(true, "c06_twin_physaddr_is_aligned_panics: reachable");
        let _ = p.is_aligned(al);
        returned_on_invalid_input();
    }

    //@ obligation C06 C06.PhysAddr_is_aligned_u64.iff_multiple
    #[kani::proof]
    fn c06_twin_physaddr_is_aligned_u64_exact() {
        let (a, p) = any_phys();
        let (_k, al) = any_pow2();
        kani::cover!(true, "c06_twin_physaddr_is_aligned_u64_exact: reachable");
        let r = p.is_aligned_u64(al);
        check_each! {
            r == (a % al == 0)
                => "C06.PhysAddr_is_aligned_u64.iff_multiple: true exactly for multiples of align",
        }
    }

    //@ obligation C06 C06.PhysAddr_is_aligned_u64.iff_multiple
    #[kani::proof]
    #[kani::should_panic]
    fn c06_twin_physaddr_is_aligned_u64_panics() {
        let (_a, p) = any_phys();
        let al = any_non_pow2();
        kani::cover!(true, "c06_twin_physaddr_is_aligned_u64_panics: reachable");
        let _ = p.is_aligned_u64(al);
        returned_on_invalid_input();
    }

    // ================================================================ VirtAddr

    /// the postcondition shared by align_down / align_down_u64 (Verus mode A ensures)
    fn virt_align_down_post(a: u64, k: u32, al: u64, r: u64) -> bool {
        // for every power of two: the sign extension of the rounded value
        r == sext48(down(a, al))
            // up to 2^47: exactly the greatest multiple, which is canonical and in the same half
            && (k > 47 || (r <= a && a - r < al && r % al == 0 && (r >> 47) == (a >> 47)))
    }

    //@ obligation C06 C06.VirtAddr_align_down.greatest_canonical_multiple
    //@ obligation C03 C03.VirtAddr_align_down.valid
    #[kani::proof]
    fn c06_twin_virtaddr_align_down_exact() {
        let (a, v) = any_virt();
        let (k, al) = any_pow2();
        kani::cover!(true, "c06_twin_virtaddr_align_down_exact: reachable");
        let r = v.align_down(al).as_u64();
        check_each! {
            virt_align_down_post(a, k, al, r)
                => "C06.VirtAddr_align_down.greatest_canonical_multiple: greatest multiple not above self (same half) for align <= 2^47, its sign extension beyond",
            canonical(r)
                => "C03.VirtAddr_align_down.valid: the result is canonical",
        }
    }

    //@ obligation C06 C06.VirtAddr_align_down.greatest_canonical_multiple
    #[kani::proof]
    #[kani::should_panic]
    fn c06_twin_virtaddr_align_down_panics() {
        let (_a, v) = any_virt();
        let al = any_non_pow2();
        kani::cover!(true, "c06_twin_virtaddr_align_down_panics: reachable");
        let _ = v.align_down(al);
        returned_on_invalid_input();
    }

    //@ obligation C06 C06.VirtAddr_align_down_u64.greatest_canonical_multiple
    //@ obligation C03 C03.VirtAddr_align_down_u64.valid
    #[kani::proof]
    fn c06_twin_virtaddr_align_down_u64_exact() {
        let (a, v) = any_virt();
        let (k, al) = any_pow2();
        kani::cover!(true, "c06_twin_virtaddr_align_down_u64_exact: reachable");
        let r = v.align_down_u64(al).as_u64();
        check_each! {
            virt_align_down_post(a, k, al, r)
                => "C06.VirtAddr_align_down_u64.greatest_canonical_multiple: greatest multiple not above self (same half) for align <= 2^47, its sign extension beyond",
            canonical(r)
                => "C03.VirtAddr_align_down_u64.valid: the result is canonical",
        }
    }

    //@ obligation C06 C06.VirtAddr_align_down_u64.greatest_canonical_multiple
    #[kani::proof]
    #[kani::should_panic]
    fn c06_twin_virtaddr_align_down_u64_panics() {
        let (_a, v) = any_virt();
        let al = any_non_pow2();
        kani::cover!(true, "c06_twin_virtaddr_align_down_u64_panics: reachable");
        let _ = v.align_down_u64(al);
        returned_on_invalid_input();
    }

    // returns iff align is a power of two and the rounded value fits a u64
    //@ obligation C06 C06.VirtAddr_align_up.least_canonical_multiple
    //@ obligation C03 C03.VirtAddr_align_up.valid
    #[kani::proof]
    fn c06_twin_virtaddr_align_up_exact() {
        let (a, v) = any_virt();
        let (k, al) = any_pow2();
        let u = up(a, al);
        kani::assume(u <= u64::MAX as u128);
        kani::cover!(true, "c06_twin_virtaddr_align_up_exact: reachable");
        kani::cover!(u == TWO47 as u128, "c06_twin_virtaddr_align_up_exact: lower half rounds up to 2^47");
        let r = v.align_up(al).as_u64();
        check_each! {
            r == sext48(u as u64)
                => "C06.VirtAddr_align_up.least_canonical_multiple: the sign extension of the least multiple not below self",
            k > 47 || (r % al == 0 && (r as u128 == u || (u == TWO47 as u128 && r == 0xffff_8000_0000_0000)))
                => "C06.VirtAddr_align_up.least_canonical_multiple: for align <= 2^47 the least canonical multiple not below self (2^47 becomes the first upper-half address)",
            canonical(r)
                => "C03.VirtAddr_align_up.valid: the result is canonical",
        }
    }

    //@ obligation C06 C06.VirtAddr_align_up.least_canonical_multiple
    #[kani::proof]
    #[kani::should_panic]
    fn c06_twin_virtaddr_align_up_panics_overflow() {
        let (a, v) = any_virt();
        let (_k, al) = any_pow2();
        kani::assume(up(a, al) > u64::MAX as u128);
        kani::cover!(true, "c06_twin_virtaddr_align_up_panics_overflow: reachable");
        let _ = v.align_up(al);
        returned_on_invalid_input();
    }

    //@ obligation C06 C06.VirtAddr_align_up.least_canonical_multiple
    #[kani::proof]
    #[kani::should_panic]
    fn c06_twin_virtaddr_align_up_panics_non_pow2() {
        let (_a, v) = any_virt();
        let al = any_non_pow2();
        kani::cover!(true, "c06_twin_virtaddr_align_up_panics_non_pow2: reachable");
        let _ = v.align_up(al);
        returned_on_invalid_input();
    }

    //@ obligation C06 C06.VirtAddr_is_aligned.iff_multiple
    #[kani::proof]
    fn c06_twin_virtaddr_is_aligned_exact() {
        let (a, v) = any_virt();
        let (k, al) = any_pow2();
        let _ = k;
        kani::cover!(true, "c06_twin_virtaddr_is_aligned_exact: reachable");
        let r = v.is_aligned(al);
        check_each! {
            r == (a % al == 0)
                => "C06.VirtAddr_is_aligned.iff_multiple: true exactly for multiples of align (all 64 powers of two)",
        }
    }

    //@ obligation C06 C06.VirtAddr_is_aligned.iff_multiple
    #[kani::proof]
    #[kani::should_panic]
    fn c06_twin_virtaddr_is_aligned_panics() {
        let (_a, v) = any_virt();
        let al = any_non_pow2();
                kani::cover!(true, "c06_twin_virtaddr_is_aligned_panics: reachable");
        let _ = v.is_aligned(al);
        returned_on_invalid_input();
    }

    //@ obligation C06 C06.VirtAddr_is_aligned_u64.iff_multiple
    #[kani::proof]
    fn c06_twin_virtaddr_is_aligned_u64_exact() {
        let (a, v) = any_virt();
        let (k, al) = any_pow2();
        let _ = k;
        kani::cover!(true, "c06_twin_virtaddr_is_aligned_u64_exact: reachable");
        let r = v.is_aligned_u64(al);
        check_each! {
            r == (a % al == 0)
                => "C06.VirtAddr_is_aligned_u64.iff_multiple: true exactly for multiples of align (all 64 powers of two)",
        }
    }

    //@ obligation C06 C06.VirtAddr_is_aligned_u64.iff_multiple
    #[kani::proof]
    #[kani::should_panic]
    fn c06_twin_virtaddr_is_aligned_u64_panics() {
        let (_a, v) = any_virt();
        let al = any_non_pow2();
                kani::cover!(true, "c06_twin_virtaddr_is_aligned_u64_panics: reachable");
        let _ = v.is_aligned_u64(al);
        returned_on_invalid_input();
    }

    // ================================================================ Page<S>

    fn page_containing<S: PageSize>(v: VirtAddr) -> u64 {
        Page::<S>::containing_address(v).start_address().as_u64()
    }

    // requires wf_v(address); ensures wf_page(r), r <= a, a - r < SIZE, same half, (a aligned ==> r == a)
    //@ obligation C06 C06.Page_containing_address.aligned_start_within_one_page
    //@ obligation C03 C03.Page_containing_address.valid
    #[kani::proof]
    fn c06_twin_page_containing_address() {
        let sel: u8 = kani::any();
        kani::assume(sel < 3);
        let size = size_of_sel(sel);
        let (a, v) = any_virt();
        let r = match sel {
            0 => page_containing::<Size4KiB>(v),
            1 => page_containing::<Size2MiB>(v),
            _ => page_containing::<Size1GiB>(v),
        };
        kani::cover!(true, "c06_twin_page_containing_address: reachable");
        kani::cover!(sel == 2 && a % size != 0, "c06_twin_page_containing_address: 1 GiB, unaligned address");
        check_each! {
            r <= a && a - r < size && r % size == 0
                => "C06.Page_containing_address.aligned_start_within_one_page: size-aligned start, not above the address and less than one page below it",
            (r >> 47) == (a >> 47) && (a % size != 0 || r == a)
                => "C06.Page_containing_address.aligned_start_within_one_page: same half; an aligned address is its own page start",
            canonical(r) && r % size == 0
                => "C03.Page_containing_address.valid: the start address is canonical and size-aligned",
        }
    }

    /// Some(start address) for Ok
    fn page_from_start<S: PageSize>(v: VirtAddr) -> Option<u64> {
        match Page::<S>::from_start_address(v) {
            Ok(p) => Some(p.start_address().as_u64()),
            Err(_) => None,
        }
    }

    // requires wf_v(address); Ok <==> aligned; Ok ==> start == address && wf_page
    //@ obligation C06 C06.Page_from_start_address.ok_iff_aligned
    //@ obligation C03 C03.Page_from_start_address.valid
    #[kani::proof]
    fn c06_twin_page_from_start_address() {
        let sel: u8 = kani::any();
        kani::assume(sel < 3);
        let size = size_of_sel(sel);
        let (a, v) = any_virt();
        let r = match sel {
            0 => page_from_start::<Size4KiB>(v),
            1 => page_from_start::<Size2MiB>(v),
            _ => page_from_start::<Size1GiB>(v),
        };
        kani::cover!(true, "c06_twin_page_from_start_address: reachable");
        kani::cover!(sel == 2 && r.is_some(), "c06_twin_page_from_start_address: 1 GiB accepted");
        check_each! {
            r.is_some() == (a % size == 0)
                => "C06.Page_from_start_address.ok_iff_aligned: Ok exactly for size-aligned addresses",
        }
        if let Some(s) = r {
            check_each! {
                s == a
                    => "C06.Page_from_start_address.ok_iff_aligned: returns the address unchanged",
                canonical(s) && s % size == 0
                    => "C03.Page_from_start_address.valid: the start address is canonical and size-aligned",
            }
        }
    }

    // ================================================================ PhysFrame<S>

    fn frame_containing<S: PageSize>(p: PhysAddr) -> u64 {
        PhysFrame::<S>::containing_address(p).start_address().as_u64()
    }

    //@ obligation C06 C06.PhysFrame_containing_address.aligned_start_within_one_frame
    //@ obligation C03 C03.PhysFrame_containing_address.valid
    #[kani::proof]
    fn c06_twin_physframe_containing_address() {
        let sel: u8 = kani::any();
        kani::assume(sel < 3);
        let size = size_of_sel(sel);
        let (a, p) = any_phys();
        let r = match sel {
            0 => frame_containing::<Size4KiB>(p),
            1 => frame_containing::<Size2MiB>(p),
            _ => frame_containing::<Size1GiB>(p),
        };
        kani::cover!(true, "c06_twin_physframe_containing_address: reachable");
        kani::cover!(sel == 2 && a % size != 0, "c06_twin_physframe_containing_address: 1 GiB, unaligned address");
        check_each! {
            r <= a && a - r < size && r % size == 0 && (a % size != 0 || r == a)
                => "C06.PhysFrame_containing_address.aligned_start_within_one_frame: size-aligned start, not above the address and less than one frame below it",
            r < TWO52 && r % size == 0
                => "C03.PhysFrame_containing_address.valid: the start address is below 2^52 and size-aligned",
        }
    }

    fn frame_from_start<S: PageSize>(p: PhysAddr) -> Option<u64> {
        match PhysFrame::<S>::from_start_address(p) {
            Ok(f) => Some(f.start_address().as_u64()),
            Err(_) => None,
        }
    }

    //@ obligation C06 C06.PhysFrame_from_start_address.ok_iff_aligned
    //@ obligation C03 C03.PhysFrame_from_start_address.valid
    #[kani::proof]
    fn c06_twin_physframe_from_start_address() {
        let sel: u8 = kani::any();
        kani::assume(sel < 3);
        let size = size_of_sel(sel);
        let (a, p) = any_phys();
        let r = match sel {
            0 => frame_from_start::<Size4KiB>(p),
            1 => frame_from_start::<Size2MiB>(p),
            _ => frame_from_start::<Size1GiB>(p),
        };
        kani::cover!(true, "c06_twin_physframe_from_start_address: reachable");
        kani::cover!(sel == 2 && r.is_some(), "c06_twin_physframe_from_start_address: 1 GiB accepted");
        check_each! {
            r.is_some() == (a % size == 0)
                => "C06.PhysFrame_from_start_address.ok_iff_aligned: Ok exactly for size-aligned addresses",
        }
        if let Some(s) = r {
            check_each! {
                s == a
                    => "C06.PhysFrame_from_start_address.ok_iff_aligned: returns the address unchanged",
                s < TWO52 && s % size == 0
                    => "C03.PhysFrame_from_start_address.valid: the start address is below 2^52 and size-aligned",
            }
        }
    }
}
