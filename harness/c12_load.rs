//@ include-into src/structures/idt.rs
// C12, part 4: loading the table hands the CPU the table's own address with
// limit 4095.
//
// Observed at the operand of the trapped `lidt` (machine shim: the model reads
// u16 limit at +0 and u64 base at +2 THROUGH the pointer it is given,
// independent of the crate's DescriptorTablePointer type).
//
// ASSUMPTION (stub): `pointer()` wraps the table address in `VirtAddr::new`,
// which panics on non-canonical values. CBMC encodes a pointer as
// (object number << 48 | offset), which is not canonical (measured: without the
// stub the only failing check is "virtual address must be sign extended in bits
// 48 to 64"), so these harnesses replace `VirtAddr::new` by the unchecked
// constructor. On hardware the address of a live object is always canonical.
#[cfg(kani)]
#[allow(unused_imports, clippy::all)]
mod verif_c12_load {
    use super::*;
    use crate::verif_hw::{self, Kind};

    fn virt_addr_new_unchecked(addr: u64) -> VirtAddr {
        // SAFETY (harness): models "the address of a live object is canonical".
        unsafe { VirtAddr::new_unsafe(addr) }
    }

    macro_rules! check_loaded {
        ($idt:expr, $before:expr) => {{
            let m = verif_hw::m();
            let table_addr = &$idt as *const InterruptDescriptorTable as u64;
            assert!(
                m.log_len == 1 && !m.log_overflow && !m.unknown_asm_hit && m.log[0].kind == Kind::Lidt,
                "C12.Idt_load.lidt_base_is_table_limit_4095: exactly one event and it is lidt"
            );
            assert!(
                m.log[0].a == table_addr,
                "C12.Idt_load.lidt_base_is_table_limit_4095: base == address of the table"
            );
            assert!(
                m.log[0].b == 4095,
                "C12.Idt_load.lidt_base_is_table_limit_4095: limit == 4095"
            );
            assert!(
                m.idtr_base == table_addr && m.idtr_limit == 4095,
                "C12.Idt_load.idtr_updated_nothing_else: IDTR holds the table address and 4095"
            );
            assert!(
                m.regs_same_except(&$before, verif_hw::field::IDTR),
                "C12.Idt_load.idtr_updated_nothing_else: no other register changed"
            );
        }};
    }

    //@ obligation C12 C12.Idt_load.lidt_base_is_table_limit_4095
    //@ obligation C12 C12.Idt_load.idtr_updated_nothing_else
    #[kani::proof]
    #[kani::stub(crate::addr::VirtAddr::new, virt_addr_new_unchecked)]
    fn c12_idt_load_unsafe() {
        verif_hw::reset_symbolic();
        kani::cover!(true, "c12_idt_load_unsafe: reachable");
        let idt = InterruptDescriptorTable::new();
        let before = *verif_hw::m();
        unsafe { idt.load_unsafe() };
        check_loaded!(idt, before);
    }

    static C12_IDT: InterruptDescriptorTable = InterruptDescriptorTable::new();

    /// The safe `load(&'static self)`.
    //@ obligation C12 C12.Idt_load.lidt_base_is_table_limit_4095
    //@ obligation C12 C12.Idt_load.idtr_updated_nothing_else
    #[kani::proof]
    #[kani::stub(crate::addr::VirtAddr::new, virt_addr_new_unchecked)]
    fn c12_idt_load_static() {
        verif_hw::reset_symbolic();
        kani::cover!(true, "c12_idt_load_static: reachable");
        let before = *verif_hw::m();
        C12_IDT.load();
        check_loaded!(C12_IDT, before);
    }

    /// `pointer()` itself: the pseudo-descriptor value.
    //@ obligation C12 C12.Idt_pointer.base_is_table_limit_4095
    #[kani::proof]
    #[kani::stub(crate::addr::VirtAddr::new, virt_addr_new_unchecked)]
    fn c12_idt_pointer() {
        verif_hw::reset_symbolic();
        kani::cover!(true, "c12_idt_pointer: reachable");
        let idt = InterruptDescriptorTable::new();
        let p = idt.pointer();
        let base = p.base;
        let limit = p.limit;
        assert!(
            base.as_u64() == &idt as *const InterruptDescriptorTable as u64 && limit == 4095,
            "C12.Idt_pointer.base_is_table_limit_4095: base == &table, limit == 4095"
        );
        assert!(
            verif_hw::m().log_len == 0,
            "C12.Idt_pointer.base_is_table_limit_4095: no instruction executed"
        );
    }
}
