//@ include-into src/structures/paging/mapper/mod.rs
//
// C11, flush tokens: "flushing the token executes one invalidation of exactly
// that page's start address; ... a flush-all token whose flush reloads the
// address-space root register with its current value."
//
// (That every successful mapper call RETURNS the token naming the changed page
// is asserted in the C01 step harnesses; this file is about what the tokens do.)
#[cfg(kani)]
#[allow(unused_imports, clippy::all)]
mod verif_c11_mapper_flush {
    use super::*;
    use crate::structures::paging::{Size1GiB, Size2MiB};
    use crate::verif_hw::{self, Kind, Machine};

    fn same_registers(a: &Machine, b: &Machine) -> bool {
        a.cr0 == b.cr0
            && a.cr2 == b.cr2
            && a.cr3 == b.cr3
            && a.cr4 == b.cr4
            && a.dr0 == b.dr0
            && a.dr1 == b.dr1
            && a.dr2 == b.dr2
            && a.dr3 == b.dr3
            && a.dr6 == b.dr6
            && a.dr7 == b.dr7
            && a.xcr0 == b.xcr0
            && a.msr_index == b.msr_index
            && a.msr_value == b.msr_value
            && a.rflags == b.rflags
            && a.cs == b.cs
            && a.ss == b.ss
            && a.ds == b.ds
            && a.es == b.es
            && a.fs == b.fs
            && a.gs == b.gs
            && a.fs_base == b.fs_base
            && a.gs_base == b.gs_base
            && a.kernel_gs_base == b.kernel_gs_base
            && a.mxcsr == b.mxcsr
            && a.gdtr_base == b.gdtr_base
            && a.gdtr_limit == b.gdtr_limit
            && a.idtr_base == b.idtr_base
            && a.idtr_limit == b.idtr_limit
            && a.tr == b.tr
    }

    /// A symbolic well-formed page of size S: its start address as a number, and the page.
    fn any_page<S: PageSize>() -> (u64, Page<S>) {
        let a: u64 = kani::any();
        kani::assume(a < 0x0000_8000_0000_0000 || a >= 0xffff_8000_0000_0000);
        kani::assume(a % S::SIZE == 0);
        (a, Page::from_start_address(VirtAddr::new(a)).unwrap())
    }

    fn check_flush<S: PageSize>() {
        verif_hw::reset_symbolic();
        let before = *verif_hw::m();
        let (a, page) = any_page::<S>();
        let token = MapperFlush::new(page);
        assert!(
            token.page() == page && token.page().start_address().as_u64() == a,
            "C11.MapperFlush_page.names_the_page: page() returns the page the token was made for"
        );
        assert!(
            verif_hw::m().log_len == 0,
            "C11.MapperFlush_new.executes_nothing: creating or inspecting a token executes nothing"
        );
        token.flush();
        let m = verif_hw::m();
        assert!(
            m.only_event_is(Kind::Invlpg, a, 0, 0),
            "C11.MapperFlush_flush.one_invlpg_of_page_start: exactly one invlpg of the page's start address"
        );
        assert!(
            same_registers(&before, m),
            "C11.MapperFlush_flush.one_invlpg_of_page_start: no register changes"
        );
    }

    //@ obligation C11 C11.MapperFlush_flush.one_invlpg_of_page_start
    //@ obligation C11 C11.MapperFlush_page.names_the_page
    //@ obligation C11 C11.MapperFlush_new.executes_nothing
    #[kani::proof]
    fn c11_mapper_flush_4kib() {
        kani::cover!(true, "c11_mapper_flush_4kib: reachable");
        check_flush::<Size4KiB>();
    }

    //@ obligation C11 C11.MapperFlush_flush.one_invlpg_of_page_start
    //@ obligation C11 C11.MapperFlush_page.names_the_page
    #[kani::proof]
    fn c11_mapper_flush_2mib() {
        kani::cover!(true, "c11_mapper_flush_2mib: reachable");
        check_flush::<Size2MiB>();
    }

    //@ obligation C11 C11.MapperFlush_flush.one_invlpg_of_page_start
    //@ obligation C11 C11.MapperFlush_page.names_the_page
    #[kani::proof]
    fn c11_mapper_flush_1gib() {
        kani::cover!(true, "c11_mapper_flush_1gib: reachable");
        check_flush::<Size1GiB>();
    }

    //@ obligation C11 C11.MapperFlush_ignore.executes_nothing
    //@ obligation C11 C11.MapperFlushAll_ignore.executes_nothing
    #[kani::proof]
    fn c11_mapper_flush_ignore() {
        verif_hw::reset_symbolic();
        let before = *verif_hw::m();
        let (_a, page) = any_page::<Size4KiB>();
        kani::cover!(true, "c11_mapper_flush_ignore: reachable");
        MapperFlush::new(page).ignore();
        let m = verif_hw::m();
        assert!(
            m.log_len == 0 && !m.log_overflow && !m.unknown_asm_hit && same_registers(&before, m),
            "C11.MapperFlush_ignore.executes_nothing: no instruction, no register change"
        );
        MapperFlushAll::new().ignore();
        let m = verif_hw::m();
        assert!(
            m.log_len == 0 && !m.log_overflow && !m.unknown_asm_hit && same_registers(&before, m),
            "C11.MapperFlushAll_ignore.executes_nothing: no instruction, no register change"
        );
    }

    // Shape of the flush-all: read CR3, write CR3 with the same table frame and cache bits.
    //@ obligation C11 C11.MapperFlushAll_flush_all.reads_then_writes_cr3_only
    #[kani::proof]
    fn c11_mapper_flush_all_reload_pair() {
        verif_hw::reset_symbolic();
        let before = *verif_hw::m();
        let old = before.cr3;
        kani::cover!(true, "c11_mapper_flush_all_reload_pair: reachable");
        MapperFlushAll::new().flush_all();
        let m = verif_hw::m();
        assert!(
            m.log_len == 2 && !m.log_overflow && !m.unknown_asm_hit,
            "C11.MapperFlushAll_flush_all.reads_then_writes_cr3_only: exactly two instructions"
        );
        let w = m.event(1);
        assert!(
            m.event(0).is(Kind::MovFromCr, 3, old, 0) && w.kind == Kind::MovToCr && w.a == 3 && w.c == 0 && m.cr3 == w.b,
            "C11.MapperFlushAll_flush_all.reads_then_writes_cr3_only: mov from cr3, then mov to cr3"
        );
        assert!(
            w.b & 0x000f_ffff_ffff_f018 == old & 0x000f_ffff_ffff_f018 && w.b >> 63 == 0,
            "C11.MapperFlushAll_flush_all.reads_then_writes_cr3_only: same table frame, same PWT/PCD, bit 63 (no-flush) clear"
        );
        let mut b2 = before;
        b2.cr3 = m.cr3;
        assert!(
            same_registers(&b2, m),
            "C11.MapperFlushAll_flush_all.reads_then_writes_cr3_only: no other register changes"
        );
    }

    // Statement: "a flush-all token whose flush reloads the address-space root register with its
    // current value". Prior CR3: any value the register can hold (bits 52..63 read as zero; bits
    // 0..11 are PWT/PCD + ignored bits, or the current PCID when CR4.PCIDE = 1).
    //@ obligation C11 C11.MapperFlushAll_flush_all.reloads_current_value
    #[kani::proof]
    fn c11_mapper_flush_all_reloads_current_value() {
        verif_hw::reset_symbolic();
        let old = verif_hw::m().cr3;
        kani::assume(old >> 52 == 0);
        kani::cover!(true, "c11_mapper_flush_all_reloads_current_value: reachable");
        MapperFlushAll::new().flush_all();
        let m = verif_hw::m();
        assert!(
            m.event(1).is(Kind::MovToCr, 3, old, 0),
            "C11.MapperFlushAll_flush_all.reloads_current_value: the value written to cr3 is the value read"
        );
        assert!(
            m.cr3 == old,
            "C11.MapperFlushAll_flush_all.reloads_current_value: cr3 unchanged"
        );
    }
}
