//@ include-into src/structures/gdt.rs
// C15, part 1: segment / TSS descriptors have the architectural encoding.
//
// Every field position below is written out from the manuals (SDM 3A 3.4.5
// "Segment Descriptors", figure 3-8; 3A 8.2.3 "TSS Descriptor in 64-bit mode",
// figure 8-4; APM 2 4.8.1-4.8.3) and does NOT use the crate's DescriptorFlags
// constants or its bit_field calls:
//
//   low qword                                   high qword (system descriptors)
//   15:0   limit 15:0                           31:0   base 63:32
//   39:16  base 23:0                            63:32  reserved (bits 44:40 must be 0)
//   43:40  type   (code/data: bit 43 = executable, 42 = C/E, 41 = R/W, 40 = A)
//   44     S      (1 = code/data, 0 = system)
//   46:45  DPL
//   47     P
//   51:48  limit 19:16
//   52     AVL
//   53     L      (64-bit code segment; reserved = 0 in a system descriptor)
//   54     D/B    (reserved = 0 in a system descriptor)
//   55     G
//   63:56  base 31:24
//
// Contract style as in c19_codecs.rs: thin wrapper `w_*` with requires/ensures,
// harness = proof_for_contract, every clause tagged `ob("<obligation>", cond)`.
#[cfg(kani)]
#[allow(unused_imports, clippy::all)]
mod verif_c15_descriptors {
    use super::*;

    /// Tags a contract clause with its obligation name (identity on `c`).
    fn ob(_name: &'static str, c: bool) -> bool {
        c
    }

    // ------------------------------------------------ independent decoder

    #[derive(Clone, Copy)]
    struct Dec {
        base_low32: u64,
        limit: u64,
        typ: u64,
        s: u64,
        dpl: u64,
        p: u64,
        avl: u64,
        l: u64,
        db: u64,
        g: u64,
    }

    /// Field-wise decode of the (low) descriptor qword, figure 3-8.
    fn dec(low: u64) -> Dec {
        Dec {
            base_low32: ((low >> 16) & 0xFF_FFFF) | (((low >> 56) & 0xFF) << 24),
            limit: (low & 0xFFFF) | (((low >> 48) & 0xF) << 16),
            typ: (low >> 40) & 0xF,
            s: (low >> 44) & 1,
            dpl: (low >> 45) & 3,
            p: (low >> 47) & 1,
            avl: (low >> 52) & 1,
            l: (low >> 53) & 1,
            db: (low >> 54) & 1,
            g: (low >> 55) & 1,
        }
    }

    /// 64-bit base of a 16-byte system descriptor, figure 8-4.
    fn sys_base(low: u64, high: u64) -> u64 {
        dec(low).base_low32 | ((high & 0xFFFF_FFFF) << 32)
    }

    /// SDM 3A 5.5: ring number (exhaustive match, not `as`).
    fn pl_num(p: PrivilegeLevel) -> u64 {
        match p {
            PrivilegeLevel::Ring0 => 0,
            PrivilegeLevel::Ring1 => 1,
            PrivilegeLevel::Ring2 => 2,
            PrivilegeLevel::Ring3 => 3,
        }
    }

    fn words(d: Descriptor) -> (u64, u64, bool) {
        match d {
            Descriptor::UserSegment(v) => (v, 0, false),
            Descriptor::SystemSegment(lo, hi) => (lo, hi, true),
        }
    }

    // ====================================================== TSS descriptor
    // For ALL 2^64 pointer values; the pointer is never dereferenced.

    // Plain proof, not a contract: the contract instrumentation is ~1000x slower on
    // code that goes through bit_field's range API (measured here: 283 s as
    // proof_for_contract, < 1 s plain; same effect as PLAIN-1 in lib/C19_NOTES.md).
    //@ obligation C15 C15.Descriptor_tss_segment_unchecked.is_system_descriptor
    //@ obligation C15 C15.Descriptor_tss_segment_unchecked.base_is_full_address
    //@ obligation C15 C15.Descriptor_tss_segment_unchecked.limit_0x67
    //@ obligation C15 C15.Descriptor_tss_segment_unchecked.type_available_tss64
    //@ obligation C15 C15.Descriptor_tss_segment_unchecked.present_ring0
    //@ obligation C15 C15.Descriptor_tss_segment_unchecked.reserved_zero
    #[kani::proof]
    fn c15_tss_descriptor_unchecked_decodes() {
        let p: u64 = kani::any();
        kani::cover!(true, "c15_tss_descriptor_unchecked_decodes: reachable");
        let r = words(unsafe { Descriptor::tss_segment_unchecked(p as *const TaskStateSegment) });
        let d = dec(r.0);
        assert!(
            r.2,
            "C15.Descriptor_tss_segment_unchecked.is_system_descriptor: two-slot SystemSegment"
        );
        assert!(
            sys_base(r.0, r.1) == p,
            "C15.Descriptor_tss_segment_unchecked.base_is_full_address: base 23:0, 31:24, 63:32 reassemble to p"
        );
        assert!(
            d.limit == 0x67,
            "C15.Descriptor_tss_segment_unchecked.limit_0x67: limit 15:0 | 19:16 == 0x67"
        );
        assert!(
            d.typ == 0x9 && d.s == 0,
            "C15.Descriptor_tss_segment_unchecked.type_available_tss64: type == 0b1001, S == 0"
        );
        assert!(
            d.p == 1 && d.dpl == 0,
            "C15.Descriptor_tss_segment_unchecked.present_ring0: P == 1, DPL == 0"
        );
        assert!(
            d.avl == 0 && d.l == 0 && d.db == 0 && d.g == 0 && (r.1 >> 32) == 0,
            "C15.Descriptor_tss_segment_unchecked.reserved_zero: AVL, bits 53-54, G and the upper dword of the high word are 0"
        );
    }

    static C15_TSS: TaskStateSegment = TaskStateSegment::new();

    /// `tss_segment(&tss)` is the descriptor of the address of `tss`.
    //@ obligation C15 C15.Descriptor_tss_segment.equals_unchecked_of_address
    //@ obligation C15 C15.Descriptor_tss_segment.base_is_address_of_tss
    #[kani::proof]
    fn c15_tss_descriptor_safe_equals_unchecked() {
        kani::cover!(true, "c15_tss_descriptor_safe_equals_unchecked: reachable");
        let addr = &C15_TSS as *const TaskStateSegment;
        let a = words(Descriptor::tss_segment(&C15_TSS));
        let b = words(unsafe { Descriptor::tss_segment_unchecked(addr) });
        assert!(
            a.0 == b.0 && a.1 == b.1 && a.2 && b.2,
            "C15.Descriptor_tss_segment.equals_unchecked_of_address: same two words, system descriptor"
        );
        assert!(
            sys_base(a.0, a.1) == addr as u64,
            "C15.Descriptor_tss_segment.base_is_address_of_tss: decoded base == &tss"
        );
    }

    // ========================================================= presets
    // kind: S = 1 and executable bit; L / D/B; DPL; P; as the NAME states.
    //   *_CODE64: executable, L = 1, D = 0 (SDM 3A 5.2.1: L = 1 requires D = 0)
    //   *_CODE32: executable, L = 0, D = 1 (32-bit default operand size)
    //   *_DATA  : not executable, L = 0 (L is reserved for data), B = 1 (flat 32-bit)
    //   KERNEL_*: DPL 0, USER_*: DPL 3; all present.

    fn preset_is(v: u64, exec: u64, l: u64, db: u64, dpl: u64) -> bool {
        let d = dec(v);
        d.s == 1 && (d.typ >> 3) == exec && d.l == l && d.db == db && d.dpl == dpl && d.p == 1
    }

    //@ obligation C15 C15.DescriptorFlags.KERNEL_CODE64.decodes_as_named
    //@ obligation C15 C15.DescriptorFlags.KERNEL_CODE32.decodes_as_named
    //@ obligation C15 C15.DescriptorFlags.KERNEL_DATA.decodes_as_named
    //@ obligation C15 C15.DescriptorFlags.USER_CODE64.decodes_as_named
    //@ obligation C15 C15.DescriptorFlags.USER_CODE32.decodes_as_named
    //@ obligation C15 C15.DescriptorFlags.USER_DATA.decodes_as_named
    #[kani::proof]
    fn c15_preset_flags_decode() {
        kani::cover!(true, "c15_preset_flags_decode: reachable");
        assert!(
            preset_is(DescriptorFlags::KERNEL_CODE64.bits(), 1, 1, 0, 0),
            "C15.DescriptorFlags.KERNEL_CODE64.decodes_as_named: S=1 exec L=1 D=0 DPL=0 P=1"
        );
        assert!(
            preset_is(DescriptorFlags::KERNEL_CODE32.bits(), 1, 0, 1, 0),
            "C15.DescriptorFlags.KERNEL_CODE32.decodes_as_named: S=1 exec L=0 D=1 DPL=0 P=1"
        );
        assert!(
            preset_is(DescriptorFlags::KERNEL_DATA.bits(), 0, 0, 1, 0),
            "C15.DescriptorFlags.KERNEL_DATA.decodes_as_named: S=1 data L=0 B=1 DPL=0 P=1"
        );
        assert!(
            preset_is(DescriptorFlags::USER_CODE64.bits(), 1, 1, 0, 3),
            "C15.DescriptorFlags.USER_CODE64.decodes_as_named: S=1 exec L=1 D=0 DPL=3 P=1"
        );
        assert!(
            preset_is(DescriptorFlags::USER_CODE32.bits(), 1, 0, 1, 3),
            "C15.DescriptorFlags.USER_CODE32.decodes_as_named: S=1 exec L=0 D=1 DPL=3 P=1"
        );
        assert!(
            preset_is(DescriptorFlags::USER_DATA.bits(), 0, 0, 1, 3),
            "C15.DescriptorFlags.USER_DATA.decodes_as_named: S=1 data L=0 B=1 DPL=3 P=1"
        );
    }

    /// The four constructor functions: one-slot (user) descriptors of the kind
    /// their name states, and `dpl()` reports the level in the name.
    //@ obligation C15 C15.Descriptor_kernel_code_segment.decodes_as_named
    //@ obligation C15 C15.Descriptor_kernel_data_segment.decodes_as_named
    //@ obligation C15 C15.Descriptor_user_code_segment.decodes_as_named
    //@ obligation C15 C15.Descriptor_user_data_segment.decodes_as_named
    #[kani::proof]
    fn c15_preset_constructors_decode() {
        kani::cover!(true, "c15_preset_constructors_decode: reachable");
        let kc = Descriptor::kernel_code_segment();
        let kd = Descriptor::kernel_data_segment();
        let uc = Descriptor::user_code_segment();
        let ud = Descriptor::user_data_segment();
        assert!(
            !words(kc).2 && preset_is(words(kc).0, 1, 1, 0, 0) && pl_num(kc.dpl()) == 0,
            "C15.Descriptor_kernel_code_segment.decodes_as_named: user descriptor, 64-bit code, ring 0, present, dpl() == 0"
        );
        assert!(
            !words(kd).2 && preset_is(words(kd).0, 0, 0, 1, 0) && pl_num(kd.dpl()) == 0,
            "C15.Descriptor_kernel_data_segment.decodes_as_named: user descriptor, data, ring 0, present, dpl() == 0"
        );
        assert!(
            !words(uc).2 && preset_is(words(uc).0, 1, 1, 0, 3) && pl_num(uc.dpl()) == 3,
            "C15.Descriptor_user_code_segment.decodes_as_named: user descriptor, 64-bit code, ring 3, present, dpl() == 3"
        );
        assert!(
            !words(ud).2 && preset_is(words(ud).0, 0, 0, 1, 3) && pl_num(ud.dpl()) == 3,
            "C15.Descriptor_user_data_segment.decodes_as_named: user descriptor, data, ring 3, present, dpl() == 3"
        );
    }

    // ============================================================ dpl()
    // All 2^64 user-descriptor patterns, all 2^128 system-descriptor patterns.

    #[kani::ensures(|r: &PrivilegeLevel| ob("C15.Descriptor_dpl.user_segment_bits_45_46", pl_num(*r) == (v >> 45) & 3))]
    fn w_dpl_user(v: u64) -> PrivilegeLevel {
        Descriptor::UserSegment(v).dpl()
    }

    //@ obligation C15 C15.Descriptor_dpl.user_segment_bits_45_46
    #[kani::proof_for_contract(w_dpl_user)]
    fn c15_dpl_user_segment() {
        let v: u64 = kani::any();
        w_dpl_user(v);
        kani::cover!(true, "c15_dpl_user_segment: reachable");
    }

    #[kani::ensures(|r: &PrivilegeLevel| ob("C15.Descriptor_dpl.system_segment_bits_45_46_of_low_word", pl_num(*r) == (lo >> 45) & 3))]
    fn w_dpl_system(lo: u64, hi: u64) -> PrivilegeLevel {
        Descriptor::SystemSegment(lo, hi).dpl()
    }

    //@ obligation C15 C15.Descriptor_dpl.system_segment_bits_45_46_of_low_word
    #[kani::proof_for_contract(w_dpl_system)]
    fn c15_dpl_system_segment() {
        let lo: u64 = kani::any();
        let hi: u64 = kani::any();
        w_dpl_system(lo, hi);
        kani::cover!(true, "c15_dpl_system_segment: reachable");
    }
}
