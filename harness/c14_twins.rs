//@ include-into src/structures/gdt.rs
//
// E1 TWINS of the C14 obligations of /verif/spec/gdt.spec.rs (same obligation
// NAMES; DESIGN 2, twin rule): `GlobalDescriptorTable<MAX>` (empty,
// from_raw_entries, entries, append, limit), `Descriptor::dpl`,
// `SegmentSelector::new`, `PrivilegeLevel::from_u16`.
//
// `MAX` is a const parameter: the table harnesses are monomorphic instances of
// const-generic helpers for MAX in {1, 2, 3, 8, 9} and therefore carry
// `bounded="MAX in {1,2,3,8,9}"` (each instance is complete for its MAX: the
// only loops are `from_raw_entries`' copy loop and the read-back loops of the
// harness, all bounded by MAX and fully unwound, unwinding assertions on).
//
// An ARBITRARY well-formed table (the Verus precondition `wf_gdt`: 1 <= len <=
// MAX, slot 0 is the null descriptor) is built by `from_raw_entries` over a
// symbolic-length prefix of a symbolic array whose first word is 0; every
// table reachable through the safe API has this form (unused slots are zero,
// `len` never shrinks). `append` then takes a symbolic descriptor
// (UserSegment / SystemSegment, all 64-bit words, hence all DPLs).
//
// append, mode A + B = "returns iff the descriptor fits, and then ...":
//   `*_exact`  assumes len + words <= MAX: returns (any panic fails the harness);
//              entries() == old entries ++ words (one word for a user segment,
//              two consecutive words low, high for a system segment);
//              selector == (old_len << 3) | dpl, i.e. index == first slot,
//              RPL == DPL (bits 45-46 of the low word), TI == 0; limit() == 8 * len - 1;
//   `*_panics` assumes len + words > MAX: panics on EVERY such input
//              (`should_panic` + unreachable marker, lib/C19_NOTES.md).
//   "... and leaves the table unchanged" (Verus: a proof assertion at each
//   panic site) cannot be observed after a panic in Kani. Checkable stand-in
//   used in `*_panics`: `push`, the only function through which `append`
//   writes, is replaced by a stub that is an `unreachable` marker, so reaching
//   it before the panic fails the harness. A direct field write inside `append`
//   itself would not be seen by this (noted in lib/TWINS_NOTES.md).
//
// MAX = 1: no descriptor fits, so there is no `append_exact` instance (its
// assumption would be unsatisfiable); MAX = 2: only user segments fit.
#[cfg(kani)]
#[allow(unused_imports, clippy::all)]
mod verif_c14_twins {
    use super::*;

    /// Checks every listed clause on its own path: Kani's `assert!` also ASSUMES its condition afterwards, so in a
    /// plain sequence a failing earlier clause would hide a failing later one (and with it the later obligation).
    macro_rules! check_each {
        ($( $c:expr => $m:literal ),+ $(,)?) => {{
            let pick: u8 = kani::any();
            let mut k: u8 = 0;
            $(
                if pick == k {
                    assert!($c, $m);
                }
                k += 1;
            )+
            let _ = k;
        }};
    }

    /// "the call returned although the input is invalid": see lib/C19_NOTES.md.
    #[inline(never)]
    fn returned_on_invalid_input() {
        unsafe { core::hint::unreachable_unchecked() }
    }

    /// privilege level -> number, exhaustive (a new variant breaks the build)
    fn pl_num(p: PrivilegeLevel) -> u16 {
        match p {
            PrivilegeLevel::Ring0 => 0,
            PrivilegeLevel::Ring1 => 1,
            PrivilegeLevel::Ring2 => 2,
            PrivilegeLevel::Ring3 => 3,
        }
    }

    fn any_pl() -> (u16, PrivilegeLevel) {
        match kani::any::<u8>() {
            0 => (0, PrivilegeLevel::Ring0),
            1 => (1, PrivilegeLevel::Ring1),
            2 => (2, PrivilegeLevel::Ring2),
            _ => (3, PrivilegeLevel::Ring3),
        }
    }

    /// (descriptor, number of words, low word, high word)
    fn any_descriptor() -> (Descriptor, usize, u64, u64) {
        let lo: u64 = kani::any();
        let hi: u64 = kani::any();
        if kani::any() {
            (Descriptor::UserSegment(lo), 1, lo, 0)
        } else {
            (Descriptor::SystemSegment(lo, hi), 2, lo, hi)
        }
    }

    /// bits 45-46 of the low word
    fn dpl_bits(lo: u64) -> u16 {
        ((lo >> 45) & 3) as u16
    }

    // ================================================================ small codecs (not MAX-dependent)

    //@ obligation C14 C14.PrivilegeLevel_from_u16.returns_iff_lt_4
    #[kani::proof]
    fn c14_twin_privilege_level_from_u16_exact() {
        let v: u16 = kani::any();
        kani::assume(v < 4);
        kani::cover!(true, "c14_twin_privilege_level_from_u16_exact: reachable");
        check_each! {
            pl_num(PrivilegeLevel::from_u16(v)) == v
                => "C14.PrivilegeLevel_from_u16.returns_iff_lt_4: returns the level with that number",
        }
    }

    //@ obligation C14 C14.PrivilegeLevel_from_u16.returns_iff_lt_4
    #[kani::proof]
    #[kani::should_panic]
    fn c14_twin_privilege_level_from_u16_panics() {
        let v: u16 = kani::any();
        kani::assume(v >= 4);
        kani::cover!(true, "c14_twin_privilege_level_from_u16_panics: reachable");
        let _ = PrivilegeLevel::from_u16(v);
        returned_on_invalid_input();
    }

    // requires index < 8192
    //@ obligation C14 C14.SegmentSelector_new.index_rpl_ti0
    #[kani::proof]
    fn c14_twin_segment_selector_new() {
        let index: u16 = kani::any();
        kani::assume(index < 8192);
        let (p, rpl) = any_pl();
        kani::cover!(true, "c14_twin_segment_selector_new: reachable");
        let s = SegmentSelector::new(index, rpl).0;
        check_each! {
            s == (index << 3) | p && s >> 3 == index && s & 3 == p && s & 4 == 0
                => "C14.SegmentSelector_new.index_rpl_ti0: index in bits 3-15, RPL in bits 0-1, TI (bit 2) clear",
        }
    }

    //@ obligation C14 C14.Descriptor_dpl.bits_45_46
    #[kani::proof]
    fn c14_twin_descriptor_dpl() {
        let (d, _n, lo, _hi) = any_descriptor();
        kani::cover!(true, "c14_twin_descriptor_dpl: reachable");
        check_each! {
            pl_num(d.dpl()) == dpl_bits(lo)
                => "C14.Descriptor_dpl.bits_45_46: the privilege level is bits 45-46 of the (low) descriptor word",
        }
    }

    // ================================================================ tables, const-generic helpers

    /// An arbitrary well-formed table: (raw words, used length, table).
    fn any_gdt<const MAX: usize>() -> ([u64; MAX], usize, GlobalDescriptorTable<MAX>) {
        let mut raw: [u64; MAX] = kani::any();
        raw[0] = 0;
        let len: usize = kani::any();
        kani::assume(1 <= len && len <= MAX);
        let g = GlobalDescriptorTable::<MAX>::from_raw_entries(&raw[..len]);
        (raw, len, g)
    }

    /// wf_gdt ($ob: literal message starting with the obligation name) and limit() == 8 * len - 1
    macro_rules! check_wf_limit {
        ($g:expr, $len:expr, $max:expr, $ob:literal) => {{
            check_each! {
                $g.len == $len && 1 <= $g.len && $g.len <= $max && $g.table[0].raw() == 0
                    => $ob,
            }
            check_each! {
                $g.limit() as usize == 8 * $len - 1
                    => "C14.Gdt_limit.eight_times_len_minus_one: limit() == 8 * used slots - 1",
            }
        }};
    }

    fn gdt_empty<const MAX: usize>() {
        let g = GlobalDescriptorTable::<MAX>::empty();
        check_each! {
            g.len == 1 && 1 <= MAX && g.table[0].raw() == 0
                => "C14.Gdt_empty.null_descriptor_only: one used slot, the null descriptor",
        }
        let e = g.entries();
        check_each! {
            e.len() == 1 && e[0].raw() == 0
                => "C14.Gdt_empty.null_descriptor_only: entries() is the null descriptor alone",
            g.limit() == 7
                => "C14.Gdt_limit.eight_times_len_minus_one: limit() == 8 * used slots - 1",
        }
    }

    fn gdt_from_raw_entries_exact<const MAX: usize>() {
        let (raw, len, g) = any_gdt::<MAX>();
        check_wf_limit!(g, len, MAX, "C14.Gdt_from_raw_entries.reproduces_slice_or_panics: well-formed table of the slice's length");
        let e = g.entries();
        check_each! {
            e.len() == len
                => "C14.Gdt_entries.used_slots_in_order: entries() has one element per used slot",
        }
        let mut i = 0;
        while i < MAX {
            if i < len {
                check_each! {
                    g.table[i].raw() == raw[i]
                        => "C14.Gdt_from_raw_entries.reproduces_slice_or_panics: slot i holds word i of the slice",
                    e[i].raw() == g.table[i].raw()
                        => "C14.Gdt_entries.used_slots_in_order: entries()[i] is slot i",
                }
            }
            i += 1;
        }
    }

    /// every invalid slice: empty, longer than MAX, or not starting with the null descriptor
    fn gdt_from_raw_entries_panics<const MAX: usize>() {
        let raw: [u64; 12] = kani::any();
        let len: usize = kani::any();
        kani::assume(len <= 12);
        kani::assume(len == 0 || len > MAX || raw[0] != 0);
        let _ = GlobalDescriptorTable::<MAX>::from_raw_entries(&raw[..len]);
        returned_on_invalid_input();
    }

    fn gdt_append_exact<const MAX: usize>() {
        let (raw, len, mut g) = any_gdt::<MAX>();
        let (d, n, lo, hi) = any_descriptor();
        kani::assume(len + n <= MAX);
        let sel = g.append(d).0;
        let dpl = dpl_bits(lo);
        check_each! {
            sel == ((len as u16) << 3) | dpl && (sel >> 3) as usize == len && sel & 3 == dpl && sel & 4 == 0
                => "C14.Gdt_append.appends_in_order_selector_matches_or_panics_unchanged: selector index == first slot of the descriptor, RPL == DPL, TI == 0",
        }
        check_wf_limit!(g, len + n, MAX, "C14.Gdt_append.appends_in_order_selector_matches_or_panics_unchanged: well-formed, length grew by the descriptor's word count");
        let e = g.entries();
        check_each! {
            e.len() == len + n
                => "C14.Gdt_append.appends_in_order_selector_matches_or_panics_unchanged: entries() grew by the descriptor's word count",
        }
        let mut i = 0;
        while i < MAX {
            if i < len {
                check_each! {
                    e[i].raw() == raw[i]
                        => "C14.Gdt_append.appends_in_order_selector_matches_or_panics_unchanged: the old entries are kept in place",
                }
            } else if i == len {
                check_each! {
                    e[i].raw() == lo
                        => "C14.Gdt_append.appends_in_order_selector_matches_or_panics_unchanged: the (low) descriptor word follows the old entries",
                }
            } else if i == len + 1 && n == 2 {
                check_each! {
                    e[i].raw() == hi
                        => "C14.Gdt_append.appends_in_order_selector_matches_or_panics_unchanged: the high word of a system descriptor follows its low word",
                }
            }
            i += 1;
        }
    }

    /// stands in for `push` in the not-fitting case: must never be reached
    fn push_must_not_run<const MAX: usize>(_g: &mut GlobalDescriptorTable<MAX>, _value: u64) -> usize {
        returned_on_invalid_input();
        0
    }

    fn gdt_append_panics<const MAX: usize>() {
        let (_raw, len, mut g) = any_gdt::<MAX>();
        let (d, n, _lo, _hi) = any_descriptor();
        kani::assume(len + n > MAX);
        let _ = g.append(d);
        returned_on_invalid_input();
    }

    // ================================================================ instances

    //@ obligation C14 C14.Gdt_empty.null_descriptor_only bounded="MAX in {0,1,2,3,8,9}"
    //@ obligation C14 C14.Gdt_limit.eight_times_len_minus_one bounded="MAX in {1,2,3,8,9}"
    #[kani::proof]
    fn c14_twin_gdt_empty() {
        kani::cover!(true, "c14_twin_gdt_empty: reachable");
        gdt_empty::<1>();
        gdt_empty::<2>();
        gdt_empty::<3>();
        gdt_empty::<8>();
        gdt_empty::<9>();
    }

    // mode B of empty(): MAX == 0 is rejected
    //@ obligation C14 C14.Gdt_empty.null_descriptor_only bounded="MAX in {0,1,2,3,8,9}"
    #[kani::proof]
    #[kani::should_panic]
    fn c14_twin_gdt_empty_panics_max0() {
        kani::cover!(true, "c14_twin_gdt_empty_panics_max0: reachable");
        let _ = GlobalDescriptorTable::<0>::empty();
        returned_on_invalid_input();
    }

    //@ obligation C14 C14.Gdt_from_raw_entries.reproduces_slice_or_panics bounded="MAX in {1,2,3,8,9}"
    //@ obligation C14 C14.Gdt_entries.used_slots_in_order bounded="MAX in {1,2,3,8,9}"
    //@ obligation C14 C14.Gdt_limit.eight_times_len_minus_one bounded="MAX in {1,2,3,8,9}"
    #[kani::proof]
    #[kani::unwind(2)]
    fn c14_twin_gdt_from_raw_entries_exact_max1() {
        kani::cover!(true, "c14_twin_gdt_from_raw_entries_exact_max1: reachable");
        gdt_from_raw_entries_exact::<1>();
    }

    //@ obligation C14 C14.Gdt_from_raw_entries.reproduces_slice_or_panics bounded="MAX in {1,2,3,8,9}"
    //@ obligation C14 C14.Gdt_entries.used_slots_in_order bounded="MAX in {1,2,3,8,9}"
    //@ obligation C14 C14.Gdt_limit.eight_times_len_minus_one bounded="MAX in {1,2,3,8,9}"
    #[kani::proof]
    #[kani::unwind(3)]
    fn c14_twin_gdt_from_raw_entries_exact_max2() {
        kani::cover!(true, "c14_twin_gdt_from_raw_entries_exact_max2: reachable");
        gdt_from_raw_entries_exact::<2>();
    }

    //@ obligation C14 C14.Gdt_from_raw_entries.reproduces_slice_or_panics bounded="MAX in {1,2,3,8,9}"
    //@ obligation C14 C14.Gdt_entries.used_slots_in_order bounded="MAX in {1,2,3,8,9}"
    //@ obligation C14 C14.Gdt_limit.eight_times_len_minus_one bounded="MAX in {1,2,3,8,9}"
    #[kani::proof]
    #[kani::unwind(4)]
    fn c14_twin_gdt_from_raw_entries_exact_max3() {
        kani::cover!(true, "c14_twin_gdt_from_raw_entries_exact_max3: reachable");
        gdt_from_raw_entries_exact::<3>();
    }

    //@ obligation C14 C14.Gdt_from_raw_entries.reproduces_slice_or_panics bounded="MAX in {1,2,3,8,9}"
    //@ obligation C14 C14.Gdt_entries.used_slots_in_order bounded="MAX in {1,2,3,8,9}"
    //@ obligation C14 C14.Gdt_limit.eight_times_len_minus_one bounded="MAX in {1,2,3,8,9}"
    #[kani::proof]
    #[kani::unwind(9)]
    fn c14_twin_gdt_from_raw_entries_exact_max8() {
        kani::cover!(true, "c14_twin_gdt_from_raw_entries_exact_max8: reachable");
        gdt_from_raw_entries_exact::<8>();
    }

    //@ obligation C14 C14.Gdt_from_raw_entries.reproduces_slice_or_panics bounded="MAX in {1,2,3,8,9}"
    //@ obligation C14 C14.Gdt_entries.used_slots_in_order bounded="MAX in {1,2,3,8,9}"
    //@ obligation C14 C14.Gdt_limit.eight_times_len_minus_one bounded="MAX in {1,2,3,8,9}"
    #[kani::proof]
    #[kani::unwind(10)]
    fn c14_twin_gdt_from_raw_entries_exact_max9() {
        kani::cover!(true, "c14_twin_gdt_from_raw_entries_exact_max9: reachable");
        gdt_from_raw_entries_exact::<9>();
    }

    //@ obligation C14 C14.Gdt_from_raw_entries.reproduces_slice_or_panics bounded="MAX in {1,2,3,8,9}"
    #[kani::proof]
    #[kani::should_panic]
    #[kani::unwind(2)]
    fn c14_twin_gdt_from_raw_entries_panics_max1() {
        kani::cover!(true, "c14_twin_gdt_from_raw_entries_panics_max1: reachable");
        gdt_from_raw_entries_panics::<1>();
    }

    //@ obligation C14 C14.Gdt_from_raw_entries.reproduces_slice_or_panics bounded="MAX in {1,2,3,8,9}"
    #[kani::proof]
    #[kani::should_panic]
    #[kani::unwind(3)]
    fn c14_twin_gdt_from_raw_entries_panics_max2() {
        kani::cover!(true, "c14_twin_gdt_from_raw_entries_panics_max2: reachable");
        gdt_from_raw_entries_panics::<2>();
    }

    //@ obligation C14 C14.Gdt_from_raw_entries.reproduces_slice_or_panics bounded="MAX in {1,2,3,8,9}"
    #[kani::proof]
    #[kani::should_panic]
    #[kani::unwind(4)]
    fn c14_twin_gdt_from_raw_entries_panics_max3() {
        kani::cover!(true, "c14_twin_gdt_from_raw_entries_panics_max3: reachable");
        gdt_from_raw_entries_panics::<3>();
    }

    //@ obligation C14 C14.Gdt_from_raw_entries.reproduces_slice_or_panics bounded="MAX in {1,2,3,8,9}"
    #[kani::proof]
    #[kani::should_panic]
    #[kani::unwind(9)]
    fn c14_twin_gdt_from_raw_entries_panics_max8() {
        kani::cover!(true, "c14_twin_gdt_from_raw_entries_panics_max8: reachable");
        gdt_from_raw_entries_panics::<8>();
    }

    //@ obligation C14 C14.Gdt_from_raw_entries.reproduces_slice_or_panics bounded="MAX in {1,2,3,8,9}"
    #[kani::proof]
    #[kani::should_panic]
    #[kani::unwind(10)]
    fn c14_twin_gdt_from_raw_entries_panics_max9() {
        kani::cover!(true, "c14_twin_gdt_from_raw_entries_panics_max9: reachable");
        gdt_from_raw_entries_panics::<9>();
    }

    //@ obligation C14 C14.Gdt_append.appends_in_order_selector_matches_or_panics_unchanged bounded="MAX in {1,2,3,8,9}"
    //@ obligation C14 C14.Gdt_limit.eight_times_len_minus_one bounded="MAX in {1,2,3,8,9}"
    #[kani::proof]
    #[kani::unwind(3)]
    fn c14_twin_gdt_append_exact_max2() {
        kani::cover!(true, "c14_twin_gdt_append_exact_max2: reachable");
        gdt_append_exact::<2>();
    }

    //@ obligation C14 C14.Gdt_append.appends_in_order_selector_matches_or_panics_unchanged bounded="MAX in {1,2,3,8,9}"
    //@ obligation C14 C14.Gdt_limit.eight_times_len_minus_one bounded="MAX in {1,2,3,8,9}"
    #[kani::proof]
    #[kani::unwind(4)]
    fn c14_twin_gdt_append_exact_max3() {
        kani::cover!(true, "c14_twin_gdt_append_exact_max3: reachable");
        gdt_append_exact::<3>();
    }

    //@ obligation C14 C14.Gdt_append.appends_in_order_selector_matches_or_panics_unchanged bounded="MAX in {1,2,3,8,9}"
    //@ obligation C14 C14.Gdt_limit.eight_times_len_minus_one bounded="MAX in {1,2,3,8,9}"
    #[kani::proof]
    #[kani::unwind(9)]
    fn c14_twin_gdt_append_exact_max8() {
        kani::cover!(true, "c14_twin_gdt_append_exact_max8: reachable");
        gdt_append_exact::<8>();
    }

    //@ obligation C14 C14.Gdt_append.appends_in_order_selector_matches_or_panics_unchanged bounded="MAX in {1,2,3,8,9}"
    //@ obligation C14 C14.Gdt_limit.eight_times_len_minus_one bounded="MAX in {1,2,3,8,9}"
    #[kani::proof]
    #[kani::unwind(10)]
    fn c14_twin_gdt_append_exact_max9() {
        kani::cover!(true, "c14_twin_gdt_append_exact_max9: reachable");
        gdt_append_exact::<9>();
    }

    //@ obligation C14 C14.Gdt_append.appends_in_order_selector_matches_or_panics_unchanged bounded="MAX in {1,2,3,8,9}"
    #[kani::proof]
    #[kani::should_panic]
    #[kani::unwind(2)]
    #[kani::stub(GlobalDescriptorTable::<1>::push, push_must_not_run::<1>)]
    fn c14_twin_gdt_append_panics_max1() {
        kani::cover!(true, "c14_twin_gdt_append_panics_max1: reachable");
        gdt_append_panics::<1>();
    }

    //@ obligation C14 C14.Gdt_append.appends_in_order_selector_matches_or_panics_unchanged bounded="MAX in {1,2,3,8,9}"
    #[kani::proof]
    #[kani::should_panic]
    #[kani::unwind(3)]
    #[kani::stub(GlobalDescriptorTable::<2>::push, push_must_not_run::<2>)]
    fn c14_twin_gdt_append_panics_max2() {
        kani::cover!(true, "c14_twin_gdt_append_panics_max2: reachable");
        gdt_append_panics::<2>();
    }

    //@ obligation C14 C14.Gdt_append.appends_in_order_selector_matches_or_panics_unchanged bounded="MAX in {1,2,3,8,9}"
    #[kani::proof]
    #[kani::should_panic]
    #[kani::unwind(4)]
    #[kani::stub(GlobalDescriptorTable::<3>::push, push_must_not_run::<3>)]
    fn c14_twin_gdt_append_panics_max3() {
        kani::cover!(true, "c14_twin_gdt_append_panics_max3: reachable");
        gdt_append_panics::<3>();
    }

    //@ obligation C14 C14.Gdt_append.appends_in_order_selector_matches_or_panics_unchanged bounded="MAX in {1,2,3,8,9}"
    #[kani::proof]
    #[kani::should_panic]
    #[kani::unwind(9)]
    #[kani::stub(GlobalDescriptorTable::<8>::push, push_must_not_run::<8>)]
    fn c14_twin_gdt_append_panics_max8() {
        kani::cover!(true, "c14_twin_gdt_append_panics_max8: reachable");
        gdt_append_panics::<8>();
    }

    //@ obligation C14 C14.Gdt_append.appends_in_order_selector_matches_or_panics_unchanged bounded="MAX in {1,2,3,8,9}"
    #[kani::proof]
    #[kani::should_panic]
    #[kani::unwind(10)]
    #[kani::stub(GlobalDescriptorTable::<9>::push, push_must_not_run::<9>)]
    fn c14_twin_gdt_append_panics_max9() {
        kani::cover!(true, "c14_twin_gdt_append_panics_max9: reachable");
        gdt_append_panics::<9>();
    }
}
